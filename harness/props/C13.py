"""C13 - compositing obeys viewport, no-op and grouping laws.

search         : metamorphic relations between two runs of the REAL compositor on related inputs
                 (sub-viewport = crop; inserting a hidden / transparent / zero-opacity / outside layer changes nothing;
                 wrapping whole clipping runs in a plain pass-through group changes nothing; channel compression and
                 save -> reopen change nothing; everything finite and within [0,1]) on the C11 documents and on fixtures
correspondence : the Lean model (comp.pixel) vs the real compositor on the transformed inputs (other viewports, documents
                 with the inserted layer / the wrapping group), and the laws themselves evaluated on the model
"""
from __future__ import annotations

import copy
import glob
import hashlib
import json
import os

import numpy as np

import core
import comp_common as cc
import comp_matrix as mx
from props import C11

NOOP_KINDS = ["hidden", "transparent", "masked-out", "zero-opacity", "zero-fill", "outside"]
CODECS = ["RLE", "ZIP", "ZIP_WITH_PREDICTION"]
WRAP = {"t": "group", "name": "wrap", "blend": "PASS_THROUGH", "opacity": 255, "fill": None, "visible": True,
        "clip": False, "knockout": False}


# ------------------------------------------------------------------------------------------
# transformations of a recipe
# ------------------------------------------------------------------------------------------
def lists_of(recipe, path=()):
    """(path, list) for the top-level list and every group's children"""
    yield path, recipe
    for i, n in enumerate(recipe):
        if n["t"] == "group":
            yield from lists_of(n["children"], path + (i,))


def get_list(recipe, path):
    lst = recipe
    for i in path:
        lst = lst[i]["children"]
    return lst


def has_knockout_group(recipe):
    return any(n["t"] == "group" and n.get("knockout") for n in cc.walk(recipe))


def noop_node(rng, nprng, kind, size, channels, in_run):
    W, H = size
    n = cc.gen_pixel(rng, nprng, size, channels, cc.CONTINUOUS)
    l, t, r, b = n["rect"]
    n.update(name="noop", visible=True, knockout=False, mask=None, opacity=rng.choice([255, 255, 128]),
             fill=rng.choice([None, None, 200]), alpha=np.full((b - t, r - l), rng.choice([255, 255, 128]), np.uint8))
    n["clip"] = True if in_run else rng.random() < 0.3
    if kind == "hidden":
        n["visible"] = False
    elif kind == "transparent":
        n["alpha"] = np.zeros((b - t, r - l), np.uint8)
    elif kind == "masked-out":
        n["mask"] = {"rect": [l, t, r, b], "bg": 0, "data": np.zeros((b - t, r - l), np.uint8), "disabled": False,
                     "density": rng.choice([None, 255])}
    elif kind == "zero-opacity":
        n["opacity"] = 0
    elif kind == "zero-fill":
        n["fill"] = 0
    elif kind == "outside":
        w, h = rng.randrange(1, 4), rng.randrange(1, 4)
        side = rng.randrange(4)
        if side == 0:
            l, t = -w - rng.randrange(0, 3), rng.randrange(-3, H + 2)
        elif side == 1:
            l, t = W + rng.randrange(0, 3), rng.randrange(-3, H + 2)
        elif side == 2:
            l, t = rng.randrange(-3, W + 2), -h - rng.randrange(0, 3)
        else:
            l, t = rng.randrange(-3, W + 2), H + rng.randrange(0, 3)
        n["rect"] = [l, t, l + w, t + h]
        n["color"] = nprng.randint(0, 256, size=(h, w, channels)).astype(np.uint8)
        n["alpha"] = np.full((h, w), 255, np.uint8)
    return n


def enabled_effects(n):
    fx = n.get("effects")
    if not fx or not fx.get("master", True):
        return []
    return [e["kind"] for e in fx.get("items", []) if e.get("enabled", True)]


def is_noop(n, kind, size):
    """is the node a no-op of that kind BY THE PROPERTY'S TEXT (hidden / fully transparent / zero opacity / outside), whatever
    effects it carries?  (`transparent+stroke-effect` is the known finding: see findings.d/C13.json)"""
    W, H = size
    if n.get("knockout"):
        return False
    if kind == "adjustment":
        return n["t"] == "adjustment"
    fxk = enabled_effects(n)
    if n["t"] == "fill":
        if kind == "hidden":
            return not n.get("visible", True)
        if kind == "zero-opacity":
            return n.get("opacity") == 0
        if kind == "masked-out":
            mk = n.get("mask")
            return bool(mk) and not mk.get("disabled") and mk.get("bg", 0) == 0 and not np.asarray(mk["data"]).any() and "stroke" not in fxk
        return False
    if n["t"] != "pixel":
        return False
    if kind == "transparent+stroke-effect":
        return n.get("alpha") is not None and not np.asarray(n["alpha"]).any() and "stroke" in fxk
    if kind in ("transparent", "masked-out") and "stroke" in fxk:
        return False            # the stroke effect of a layer without any shape is drawn over its whole box (known finding)
    if kind == "zero-fill" and fxk:
        return False            # fill opacity does not apply to layer effects (by design, as in Photoshop)
    if kind == "hidden":
        return not n.get("visible", True)
    if kind == "transparent":
        return n.get("alpha") is not None and not np.asarray(n["alpha"]).any()
    if kind == "masked-out":
        mk = n.get("mask")
        return bool(mk) and not mk.get("disabled") and mk.get("bg", 0) == 0 and not np.asarray(mk["data"]).any()
    if kind == "zero-opacity":
        return n.get("opacity") == 0
    if kind == "zero-fill":
        return n.get("fill") == 0
    if kind == "outside":
        l, t, r, b = n["rect"]
        return l >= W or t >= H or r <= 0 or b <= 0
    return False


def rebases_clipping_layers(recipe):
    """the node named "noop" is not a clipping layer and the node directly above it is: its insertion gives the clipping
    layers above it another base (it splits a run or adopts base-less layers)"""
    for _path, lst in lists_of(recipe):
        for k, n in enumerate(lst):
            if n.get("name") == "noop":
                return (not n.get("clip")) and k + 1 < len(lst) and bool(lst[k + 1].get("clip"))
    return False


def insertion_points(recipe):
    """(path, index, in_run): every position of every list; in_run = the node above is a clipping layer of a run
    that starts below the position (a non-clipping layer inserted there would split the run)"""
    out = []
    for path, lst in lists_of(recipe):
        for i in range(len(lst) + 1):
            in_run = i < len(lst) and bool(lst[i].get("clip")) and any(not n.get("clip") for n in lst[:i])
            orphan_zone = i < len(lst) and bool(lst[i].get("clip")) and not in_run
            out.append((path, i, in_run, orphan_zone))
    return out


def wrap_segments(recipe):
    """(path, i, j): contiguous siblings [i, j) made of whole clipping runs, without knockout members"""
    out = []
    for path, lst in lists_of(recipe):
        n = len(lst)
        for i in range(n):
            if lst[i].get("clip") and any(not m.get("clip") for m in lst[:i]):
                continue            # would cut a run in two
            for j in range(i + 1, n + 1):
                if j < n and lst[j].get("clip"):
                    continue        # the layer above would be left without its base / would get the group as base
                if any(m.get("knockout") for m in lst[i:j]):
                    continue        # knockout is relative to the immediate parent: wrapping changes its meaning
                out.append((path, i, j))
    return out


def apply_insert(recipe, path, i, node):
    r = copy.deepcopy(recipe)
    get_list(r, path).insert(i, copy.deepcopy(node))
    return r


def apply_wrap(recipe, path, i, j):
    r = copy.deepcopy(recipe)
    lst = get_list(r, path)
    lst[i:j] = [dict(WRAP, children=lst[i:j])]
    return r


def remove_named(recipe, name):
    out = []
    for n in recipe:
        if n.get("name") == name:
            continue
        if n["t"] == "group":
            n = dict(n, children=remove_named(n["children"], name))
        out.append(n)
    return out


def flatten_named(recipe, name):
    out = []
    for n in recipe:
        if n["t"] == "group":
            if n.get("name") == name:
                out += n["children"]
                continue
            n = dict(n, children=flatten_named(n["children"], name))
        out.append(n)
    return out


def find_named(recipe, name):
    return [n for n in cc.walk(recipe) if n.get("name") == name]


def depth_ok(recipe):
    return cc.depth_of(recipe) <= 4


# ------------------------------------------------------------------------------------------
# one law on one (transformed) document; runs in a pool worker
# ------------------------------------------------------------------------------------------
def crop(res, ref, V):
    l, t = V[0] - ref[0], V[1] - ref[1]
    w, h = V[2] - V[0], V[3] - V[1]
    return tuple(np.asarray(a)[t:t + h, l:l + w] for a in res)


def zero_alpha_colour_differs(a, b):
    ac, _, aa = a
    bc, _, ba = b
    if np.asarray(ac).shape != np.asarray(bc).shape or np.asarray(ac).size == 0:
        return False
    z = (np.asarray(aa)[..., 0] <= cc.ALPHA_MIN) & (np.asarray(ba)[..., 0] <= cc.ALPHA_MIN)
    return bool((np.abs(np.asarray(ac, dtype=np.float64) - np.asarray(bc, dtype=np.float64)).max(axis=2)[z] > 1e-3).any()) if z.any() else False


def check_law(doc_t, law, want_model=False):
    """-> {mismatch, range, zero_alpha_colour, error, model: {...}|None}"""
    from psd_tools.constants import Compression
    out = {"mismatch": None, "range": None, "zero_alpha_colour": False, "error": None, "model": None, "invalid": False}
    kind = law["kind"]
    a_real = None
    W, H = doc_t["size"]
    canvas = (0, 0, W, H)
    # the law under a custom layer_filter: {"hidden_ok": [names], "drop": [names]} or "all" (accept every layer)
    fspec = law.get("filter")
    lf = None
    if fspec == "all":
        lf = lambda layer: True
    elif fspec:
        lf = cc.name_filter(**fspec)
    rc = lambda psd, **kw: cc.real_composite(psd, layer_filter=lf, **kw) if lf is not None else cc.real_composite(psd, **kw)
    try:
        if kind == "noop":
            nodes = find_named(doc_t["recipe"], "noop")
            if len(nodes) != 1 or not is_noop(nodes[0], law["noop"], doc_t["size"]):
                out["invalid"] = True
                return out
            base = dict(doc_t, recipe=remove_named(doc_t["recipe"], "noop"))
            if not base["recipe"]:
                out["invalid"] = True
                return out
            if rebases_clipping_layers(doc_t["recipe"]):
                # (a shrunk document can lose the base of a run: the inserted non-clipping layer would then adopt the clipping
                # layers above it - a change of the clipping structure, not the insertion of a layer that does nothing;
                # thorough tier, seed 31)
                out["invalid"] = True
                return out
            psd_t = cc.build(doc_t)
            V = tuple(law["V"]) if law.get("V") else canvas
            vk = {"viewport": V} if law.get("V") else {}
            a, b = rc(psd_t, **vk), rc(cc.build(base), **vk)
            a_real = a
            if law["noop"] == "zero-opacity":
                a = (a[0], b[1], a[2])          # the shape of a zero-opacity layer is still its shape (theorem: alpha and colour)
        elif kind == "wrap":
            nodes = find_named(doc_t["recipe"], "wrap")
            if len(nodes) != 1 or {k: nodes[0].get(k) for k in WRAP} != WRAP or not nodes[0]["children"] \
                    or any(c.get("knockout") for c in nodes[0]["children"]):
                out["invalid"] = True
                return out
            base = dict(doc_t, recipe=flatten_named(doc_t["recipe"], "wrap"))
            if not wrap_still_whole(doc_t["recipe"]):
                out["invalid"] = True
                return out
            psd_t = cc.build(doc_t)
            V = tuple(law["V"]) if law.get("V") else canvas
            vk = {"viewport": V} if law.get("V") else {}
            a, b = rc(psd_t, **vk), rc(cc.build(base), **vk)
        elif kind == "viewport":
            V, ref = tuple(law["V"]), tuple(law["ref"])
            psd_t = cc.build(doc_t)
            a = rc(psd_t, viewport=V)
            b = crop(rc(psd_t, viewport=None if ref == canvas else ref), ref, V)
        elif kind == "compression":
            psd_t = cc.build(doc_t, compression=Compression[law["codec"]])
            a, b = cc.real_composite(psd_t), cc.real_composite(cc.build(doc_t))
            V = canvas
            if not all(np.array_equal(x, y) for x, y in zip(a, b)) and cc.compare(a, b) is None:
                out["mismatch"] = {"what": "not-bit-identical"}
        elif kind == "reopen":
            psd_t = cc.save_reopen(cc.build(doc_t))
            V = tuple(law["V"]) if law.get("V") else canvas
            vk = {"viewport": V} if law.get("V") else {}
            a, b = cc.real_composite(psd_t, **vk), cc.real_composite(cc.build(doc_t), **vk)
            if not all(np.array_equal(x, y) for x, y in zip(a, b)) and cc.compare(a, b) is None:
                out["mismatch"] = {"what": "not-bit-identical"}
        elif kind == "reopen-after-move":
            # an edited document and its saved-and-reopened copy must composite the same: read the boxes of the
            # outermost groups only, move a layer that sits at least two groups deep, then compare
            psd_t = cc.build(doc_t)
            for top in psd_t:
                if top.is_group():
                    _ = top.bbox
            deep = [l for l in psd_t.descendants() if not l.is_group() and l.parent is not psd_t
                    and getattr(l.parent, "parent", psd_t) is not psd_t]
            if not deep:
                out["skipped"] = "no layer two groups deep"
                return out
            tgt = deep[law["leaf"] % len(deep)]
            tgt.left = tgt.left + law["dx"]
            tgt.top = tgt.top + law["dy"]
            a, b = cc.real_composite(psd_t), cc.real_composite(cc.save_reopen(psd_t))
            V = canvas
        elif kind == "reopen-after-edit":
            # an API edit of one layer (clipping flag, visibility, blend mode, opacity): the edited document in memory and its
            # saved-and-reopened copy must composite the same
            psd_t = cc.build(doc_t)
            for top in psd_t:
                if top.is_group():
                    _ = top.bbox
            _ = cc.real_composite(psd_t)            # whatever the compositor caches is cached before the edit
            tgt = [l for l in psd_t.descendants() if l.name == law["target"]]
            if len(tgt) != 1:
                out["invalid"] = True
                return out
            apply_edit(tgt[0], law["edit"])
            a, b = cc.real_composite(psd_t), cc.real_composite(cc.save_reopen(psd_t))
            V = canvas
        else:
            raise ValueError(kind)
    except Exception as e:
        import traceback
        tb = traceback.extract_tb(e.__traceback__)
        inrepo = [f for f in tb if str(core.REPO) in f.filename]
        out["error"] = {"type": type(e).__name__, "msg": str(e)[:200],
                        "where": f"{inrepo[-1].filename.split('/src/')[-1]}:{inrepo[-1].name}" if inrepo else "call into the library"}
        return out
    out["mismatch"] = out["mismatch"] or cc.compare(a, b)
    out["range"] = cc.in_unit_interval(a)
    out["zero_alpha_colour"] = zero_alpha_colour_differs(a, b)
    if want_model and np.asarray(a[1]).size and kind != "reopen-after-edit" and not has_fx(doc_t):
        xd = cc.XDoc(psd_t, lf)
        pixels, reqs = xd.requests(V)
        out["model"] = {"pixels": pixels, "reqs": reqs, "V": V, "nch": xd.nch, "real": a if a_real is None else a_real}
        if kind == "viewport":
            # the law on the model: the same pixels in the reference viewport
            out["model"]["ref_reqs"] = xd.requests(tuple(law["ref"]), pixels=pixels)[1]
            out["model"]["hyp"] = all(_view_eq(n, V, tuple(law["ref"])) for n in xd.layers)
    return out


def apply_edit(layer, edit):
    from psd_tools.constants import BlendMode
    k = edit["kind"]
    if k == "clip":
        layer.clipping_layer = bool(edit["value"])
    elif k == "visible":
        layer.visible = bool(edit["value"])
    elif k == "blend":
        layer.blend_mode = BlendMode[edit["value"]]
    elif k == "opacity":
        layer.opacity = int(edit["value"])
    else:
        raise ValueError(k)


def _inter(a, b):
    i = (max(a[0], b[0]), max(a[1], b[1]), min(a[2], b[2]), min(a[3], b[3]))
    return (0, 0, 0, 0) if i[0] >= i[2] or i[1] >= i[3] else i


def _view_eq(n, V1, V2):
    """hypothesis of viewport_is_crop_covered for one top-level layer (and its clip layers)"""
    return _inter(V1, n.bbox) == _inter(V2, n.bbox) and all(_view_eq(c, V1, V2) for c in n.clips)


def wrap_still_whole(wrapped_recipe):
    """the wrapped segment consists of whole clipping runs of the list it was taken from"""
    for path, lst in lists_of(wrapped_recipe):
        for k, n in enumerate(lst):
            if n.get("name") == "wrap":
                kids = n["children"]
                below = lst[:k]
                above = lst[k + 1:]
                if kids[0].get("clip") and any(not m.get("clip") for m in below):
                    return False
                if above and above[0].get("clip"):
                    return False
                return True
    return False


def enclosing_group_has_boxed_effect(recipe, name, inside=False):
    """is the node called `name` inside a group that carries an enabled gradient / pattern overlay (laid out over the group's box)?"""
    for n in recipe:
        if n.get("name") == name:
            return inside
        if n["t"] == "group":
            here = inside or any(k in ("gradient", "pattern") for k in enabled_effects(n))
            if any(m.get("name") == name for m in cc.walk(n["children"])):
                return enclosing_group_has_boxed_effect(n["children"], name, here)
    return False


def has_fx(doc):
    return any(n["t"] in ("fill", "adjustment") or n.get("effects") for n in cc.walk(doc["recipe"]))


def eval_task(task):
    return [check_law(task["doc_t"], task["law"], task.get("want_model", False))]


def run_tasks(tasks, workers=12):
    if len(tasks) < 16 or workers <= 1:
        return [check_law(t["doc_t"], t["law"], t.get("want_model", False)) for t in tasks]
    import multiprocessing as mp
    with mp.get_context("fork").Pool(workers) as pool:
        return [r[0] for r in pool.map(eval_task, tasks, chunksize=max(1, len(tasks) // (workers * 8)))]


# ------------------------------------------------------------------------------------------
# task generation (parent, all randomness from ctx.rng)
# ------------------------------------------------------------------------------------------
def viewports(rng, W, H):
    canvas = (0, 0, W, H)
    out = []
    # inside
    for _ in range(2):
        l = rng.randrange(0, W); t = rng.randrange(0, H)
        out.append(("inside", (l, t, rng.randrange(l + 1, W + 1), rng.randrange(t + 1, H + 1)), canvas))
    # straddling: against a reference viewport that covers canvas and V
    l = rng.randrange(-3, W); t = rng.randrange(-3, H)
    V = (l, t, rng.randrange(max(l + 1, 1), W + 4), rng.randrange(max(t + 1, 1), H + 4))
    ref = (min(0, V[0]) - 1, min(0, V[1]) - 1, max(W, V[2]) + 1, max(H, V[3]) + 1)
    out.append(("straddling", V, ref))
    out.append(("straddling", ref, (ref[0] - 1, ref[1], ref[2] + 2, ref[3] + 1)))
    # degenerate: empty, single pixel, wholly outside
    x, y = rng.randrange(0, W), rng.randrange(0, H)
    out.append(("degenerate", rng.choice([(x, y, x, y + 1), (x, y, x + 1, y), (x, y, x, y)]), canvas))
    out.append(("degenerate", (x, y, x + 1, y + 1), canvas))
    out.append(("degenerate", (W + 2, H + 1, W + 4, H + 3), (0, 0, W + 5, H + 4)))
    return out


def beyond_canvas(W, H):
    """(class, V): viewports that extend beyond the canvas on each side singly, on all sides, over each corner, that lie wholly
    outside on each side (where only layers hanging over that edge are seen), and the degenerate ones"""
    out = [("beyond-left", (-3, 0, W, H)), ("beyond-top", (0, -2, W, H)), ("beyond-right", (0, 0, W + 3, H)), ("beyond-bottom", (0, 0, W, H + 2)),
           ("beyond-all-sides", (-4, -3, W + 4, H + 3)), ("over-top-left-corner", (-3, -2, W // 2 + 1, H // 2 + 1)),
           ("over-bottom-right-corner", (W // 2, H // 2, W + 3, H + 2)),
           ("outside-left", (-3, 0, 0, H)), ("outside-right", (W, 0, W + 3, H)), ("outside-top", (0, -3, W, 0)), ("outside-bottom", (0, H, W, H + 3)),
           ("outside-far", (W + 10, H + 10, W + 12, H + 12)),
           ("degenerate", (0, 0, 0, 0)), ("degenerate", (min(2, W), 0, min(2, W), H)), ("degenerate", (0, min(2, H), W, min(2, H))),
           ("degenerate", (-2, -2, -2, -2))]
    return out


def overhang_docs():
    """Seed-independent documents whose layers hang over EVERY canvas edge and corner (plus one inside, one wholly outside), with
    non-NORMAL blend modes and partial alpha over an opaque backdrop - flat, inside an isolated group, inside nested groups - in the
    three colour modes. Every law of this check is evaluated on them under every viewport of beyond_canvas()."""
    docs = []
    for mode in ("RGB", "L", "CMYK"):
        ch = cc.MODE_CH[mode]
        W, H = 7, 6
        nprng = np.random.RandomState(1300 + ch)

        def px(name, rect, blend, opacity=255, alpha=255, clip=False):
            l, t, r, b = rect
            al = nprng.choice([0, 90, 200, 255, 255], size=(b - t, r - l)).astype(np.uint8) if alpha == "pattern" else np.full((b - t, r - l), alpha, np.uint8)
            return {"t": "pixel", "name": name, "rect": list(rect), "color": nprng.randint(20, 236, size=(b - t, r - l, ch)).astype(np.uint8),
                    "alpha": al, "opacity": opacity, "fill": None, "blend": blend, "visible": True, "clip": clip, "knockout": False, "mask": None}

        def hanging():
            return [px("left", (-3, 1, 3, 4), "MULTIPLY", alpha=220), px("top", (2, -3, 5, 2), "SCREEN", opacity=180),
                    px("right", (W - 3, 2, W + 3, 5), "DIFFERENCE", alpha="pattern"), px("bottom", (1, H - 2, 4, H + 3), "OVERLAY"),
                    px("corner", (-2, -2, 2, 2), "LINEAR_BURN", alpha=200), px("corner2", (W - 2, H - 2, W + 2, H + 2), "NORMAL", alpha=160),
                    px("inside", (2, 2, 5, 4), "EXCLUSION", alpha="pattern"), px("outside", (W + 1, -3, W + 3, -1), "NORMAL")]

        back = px("back", (0, 0, W, H), "NORMAL")
        docs.append({"recipe": [back] + hanging(), "size": [W, H], "mode": mode})
        grp = lambda blend, opacity, kids: {"t": "group", "name": "g" + blend, "blend": blend, "opacity": opacity, "fill": None, "visible": True,
                                            "clip": False, "knockout": False, "children": kids}
        h = hanging()
        docs.append({"recipe": [back, h[0], grp("NORMAL", 200, h[1:5]), h[5], h[6], h[7]], "size": [W, H], "mode": mode})
        h = hanging()
        docs.append({"recipe": [back, grp("PASS_THROUGH", 255, [h[0], grp("MULTIPLY", 255, h[1:4]), h[4]]), h[5], h[6]], "size": [W, H], "mode": mode})
        h = hanging()
        h[1]["clip"] = True
        h[3]["clip"] = True
        docs.append({"recipe": [back] + h[:6], "size": [W, H], "mode": mode})
    return docs


def overhang_tasks():
    """the deterministic stream of laws under viewports that go beyond the canvas (see overhang_docs / beyond_canvas)"""
    import random
    rng = random.Random("C13-overhang")
    nprng = np.random.RandomState(1313)
    tasks = []
    for doc in overhang_docs():
        W, H = doc["size"]
        ch = cc.MODE_CH[doc["mode"]]
        vps = beyond_canvas(W, H)
        for cls, V in vps:
            ref = (min(0, V[0]) - 1, min(0, V[1]) - 1, max(W, V[2]) + 1, max(H, V[3]) + 1)
            tasks.append({"doc_t": doc, "law": {"kind": "viewport", "class": cls, "V": list(V), "ref": list(ref)}, "want_model": cls == "beyond-all-sides"})
            tasks.append({"doc_t": doc, "law": {"kind": "reopen", "class": cls, "V": list(V)}})
        segs = wrap_segments(doc["recipe"])
        for path, i, j in segs:
            r2 = apply_wrap(doc["recipe"], path, i, j)
            if not depth_ok(r2):
                continue
            for cls, V in vps:
                tasks.append({"doc_t": dict(doc, recipe=r2), "law": {"kind": "wrap", "class": cls, "path": list(path), "span": [i, j], "V": list(V)},
                              "want_model": cls == "beyond-all-sides" and j - i == 2})
        pts = insertion_points(doc["recipe"])
        for path, i, in_run, orphan_zone in pts[::2]:
            kind = rng.choice(NOOP_KINDS[:-1])       # ("outside" means outside the CANVAS: such a layer may lie inside a wider viewport)
            node = noop_node(rng, nprng, kind, (W, H), ch, in_run)
            if orphan_zone:
                node["clip"] = True
            for cls, V in rng.sample(vps, 3):
                tasks.append({"doc_t": dict(doc, recipe=apply_insert(doc["recipe"], path, i, node)),
                              "law": {"kind": "noop", "noop": kind, "class": cls, "path": list(path), "index": i, "V": list(V)}})
    return tasks


def make_tasks(ctx, docs, per_doc_noop, per_doc_wrap, rng=None):
    rng = rng or ctx.rng
    nprng = np.random.RandomState(rng.randrange(2 ** 32))
    tasks = []
    for doc in docs:
        W, H = doc["size"]
        ch = cc.MODE_CH[doc["mode"]]
        model_pick = rng.randrange(4)
        for k, (cls, V, ref) in enumerate(viewports(rng, W, H)):
            tasks.append({"doc_t": doc, "law": {"kind": "viewport", "class": cls, "V": list(V), "ref": list(ref)},
                          "want_model": k % 4 == model_pick})
        pts = insertion_points(doc["recipe"])
        if per_doc_noop is not None and len(pts) > per_doc_noop:
            pts = rng.sample(pts, per_doc_noop)
        ko_group = has_knockout_group(doc["recipe"])
        for path, i, in_run, orphan_zone in pts:
            kinds = NOOP_KINDS if per_doc_noop is None else rng.sample(NOOP_KINDS, 2)
            for kind in kinds:
                if kind == "zero-opacity" and ko_group:
                    continue        # inside a knockout group the SHAPE of a zero-opacity layer legitimately matters
                node = noop_node(rng, nprng, kind, (W, H), ch, in_run)
                if orphan_zone:
                    node["clip"] = True      # below the first base every layer is an orphan; a base here would adopt them
                law = {"kind": "noop", "noop": kind, "path": list(path), "index": i}
                if rng.random() < 0.3 and kind != "outside":        # ("outside" means outside the CANVAS: it may lie inside a wider viewport)
                    law["class"], V = rng.choice(beyond_canvas(W, H))
                    law["V"] = list(V)
                tasks.append({"doc_t": dict(doc, recipe=apply_insert(doc["recipe"], path, i, node)), "law": law,
                              "want_model": rng.random() < 0.15})
        segs = wrap_segments(doc["recipe"])
        if per_doc_wrap is not None and len(segs) > per_doc_wrap:
            segs = rng.sample(segs, per_doc_wrap)
        for path, i, j in segs:
            r2 = apply_wrap(doc["recipe"], path, i, j)
            if not depth_ok(r2):
                continue
            tasks.append({"doc_t": dict(doc, recipe=r2), "law": {"kind": "wrap", "path": list(path), "span": [i, j]},
                          "want_model": rng.random() < 0.2})
            cls, V = rng.choice(beyond_canvas(W, H))
            tasks.append({"doc_t": dict(doc, recipe=r2), "law": {"kind": "wrap", "class": cls, "path": list(path), "span": [i, j], "V": list(V)},
                          "want_model": rng.random() < 0.1})
        for codec in CODECS:
            tasks.append({"doc_t": doc, "law": {"kind": "compression", "codec": codec}})
        tasks.append({"doc_t": doc, "law": {"kind": "reopen"}})
        tasks.append({"doc_t": doc, "law": {"kind": "reopen-after-move", "leaf": rng.randrange(8),
                                            "dx": rng.choice([-3, -1, 2, 4]), "dy": rng.choice([-2, 1, 3])}})
    return tasks


# ------------------------------------------------------------------------------------------
# reporting
# ------------------------------------------------------------------------------------------
def law_json(task):
    import comp_fx
    return {"doc": dict(task["doc_t"], recipe=comp_fx.recipe_to_json(task["doc_t"]["recipe"])), "law": task["law"]}


def law_from_json(j):
    import comp_fx
    return {"doc_t": dict(j["doc"], recipe=comp_fx.recipe_from_json(j["doc"]["recipe"])), "law": j["law"]}


def law_prefix(law, with_view=True):
    k = law["kind"]
    flt = "+layer-filter" if law.get("filter") else ""
    vw = f"/viewport-{law['class']}" if law.get("V") and with_view else ""
    if k == "noop":
        return f"C13/noop/{law['noop']}{flt}{vw}"
    if k == "wrap":
        return f"C13/passthrough-wrap{flt}{vw}"
    if k == "reopen" and vw:
        return f"C13/save-reopen{vw}"
    if k == "viewport":
        return f"C13/viewport/{law['class']}{flt}"
    if k == "compression":
        return f"C13/compression/{law['codec']}"
    if law["kind"] == "reopen-after-move":
        return "C13/save-reopen-after-edit"
    if law["kind"] == "reopen-after-edit":
        return f"C13/save-reopen-after-edit/{law['edit']['kind']}"
    return "C13/save-reopen"


def base_doc(task):
    law, d = task["law"], task["doc_t"]
    if law["kind"] == "noop":
        return dict(d, recipe=remove_named(d["recipe"], "noop"))
    if law["kind"] == "wrap":
        return dict(d, recipe=flatten_named(d["recipe"], "wrap"))
    return d


def report(ctx, task, res):
    law = task["law"]

    def bad(r):
        return (not r["invalid"]) and (r["mismatch"] is not None or r["error"] is not None or r["range"] is not None)

    def fails(d):
        return bad(check_law(d, law))
    small = cc.shrink_doc(task["doc_t"], fails, budget=120 if ctx.quick else 250)
    t2 = dict(task, doc_t=small)
    r = check_law(small, law)
    if not bad(r):
        t2, r = task, res
    import comp_fx
    feats = cc.feature_sig(base_doc(t2), sorted(comp_fx.fx_features(t2["doc_t"])))
    if law["kind"] == "noop" and law["noop"] != "hidden" and enclosing_group_has_boxed_effect(t2["doc_t"]["recipe"], "noop"):
        # root cause outside the compositing arithmetic: the box of a group is the union of the RECTANGLES of its visible
        # children, and a gradient (or pattern) overlay of the group is laid out over that box - a transparent / outside /
        # masked-out / zero-opacity / adjustment layer inside the group moves the gradient
        feats = "gradient-overlay-on-enclosing-group"
    if t2["doc_t"]["mode"] == "CMYK" and set(cc.blend_modes(t2["doc_t"])) & set(cc.NONSEP_UP):
        # root cause outside the compositor: the CMYK wrapper of the non-separable blend functions returns values
        # outside [0,1] (known findings of C12), which breaks hypothesis BOk of the theorems
        feats = "cmyk-non-separable"
    if r["error"]:
        sig = f"{law_prefix(law)}/exception/{r['error']['type']}/{feats}"
        ctx.fail(sig, f"the compositor raises {r['error']['type']} ({r['error']['msg']}) at {r['error']['where']}", law_json(t2),
                 r["error"], "the same composite as for the related input")
    elif r["mismatch"] and feats == "gradient-overlay-on-enclosing-group":
        sig = "C13/noop/box-of-enclosing-group/gradient-overlay"
        ctx.fail(sig, f"a {law['noop']} layer inserted into a group that carries a gradient overlay changes the composite: the overlay is laid "
                 "out over the group's box, which the inserted layer's rectangle extends", law_json(t2), r["mismatch"],
                 "the composite of the document without the layer")
    elif r["mismatch"]:
        # (the CMYK non-separable mechanism - a defect of the blend functions, C12 - is the same under every viewport)
        sig = f"{law_prefix(law, with_view=feats != 'cmyk-non-separable')}/{feats}/{r['mismatch']['what']}"
        ctx.fail(sig, f"{law['kind']} law violated by the real compositor ({r['mismatch']['what']})", law_json(t2), r["mismatch"],
                 "the composite of the related input (alpha, shape; colour where alpha > 1e-4)")
    else:
        sig = f"C13/range/{r['range']['what']}/{feats}"
        ctx.fail(sig, "composite not finite or outside [0,1]", law_json(t2), r["range"], "finite values in [0,1]")


def process(ctx, tasks, st):
    results = run_tasks(tasks)
    reqs, spans = [], []
    for t, r in zip(tasks, results):
        m = r["model"]
        if m:
            a = len(reqs)
            reqs += m["reqs"]
            b = len(reqs)
            reqs += m.get("ref_reqs") or []
            spans.append((a, b, len(reqs)))
        else:
            spans.append(None)
    answers = ctx.driver().batch(reqs) if reqs else []
    seen = {}
    for t, r, sp in zip(tasks, results, spans):
        law = t["law"]
        key = law_prefix(law).split("/", 1)[1]
        if r["invalid"]:
            ctx.hist("laws", key + ":not-applicable")
            continue
        ctx.hist("laws", key)
        doc = t["doc_t"]
        ctx.count(hashlib.sha1(json.dumps(law_json(t), sort_keys=True).encode()).hexdigest(), n=max(1, doc["size"][0] * doc["size"][1]))
        if r["zero_alpha_colour"]:
            ctx.hist("colour_under_zero_alpha_differs(quotiented)", key)
        if r["mismatch"] is not None or r["error"] is not None or r["range"] is not None:
            ctx.hist("violations_seen", key)
            if seen.get(key, 0) < (2 if ctx.quick else 4):
                seen[key] = seen.get(key, 0) + 1
                report(ctx, t, r)
            continue
        if sp is not None:
            m = r["model"]
            a, b, c = sp
            mod = cc.parse_answers(answers[a:b], m["pixels"], m["V"], m["nch"])
            ctx.corr_cases += b - a
            if isinstance(mod, str):
                ctx.disagree(f"model does not evaluate a transformed document: {mod}", law_json(t))
                continue
            cm = cc.compare(m["real"], mod)
            ctx.hist("correspondence", key + (":agree" if cm is None else ":disagree"))
            if cm is not None:
                ctx.disagree(f"model != implementation on the transformed input ({key}): {cm}", law_json(t))
            else:
                da, dc = cc.max_diffs(m["real"], mod)
                st["corr_da"], st["corr_dc"] = max(st["corr_da"], da), max(st["corr_dc"], dc)
            if c > b:
                ref = cc.parse_answers(answers[b:c], m["pixels"], m["V"], m["nch"])
                ctx.corr_cases += c - b
                ctx.hist("viewport_is_crop_covered_hypothesis", "holds" if m["hyp"] else "does-not-hold")
                if not isinstance(ref, str):
                    lm = cc.compare(mod, ref)
                    exact = all(np.array_equal(x, y) for x, y in zip(mod, ref))
                    ctx.hist("viewport_law_on_model", ("hyp" if m["hyp"] else "no-hyp") + (":identical" if exact else ":equal-up-to-colour-under-zero-alpha" if lm is None else ":differs"))
                    if lm is not None or (m["hyp"] and not exact):
                        ctx.disagree(f"the viewport law fails on the MODEL: {lm}", law_json(t))


# ------------------------------------------------------------------------------------------
# fixtures: the relations that need no rebuilding
# ------------------------------------------------------------------------------------------
def mechanism(layer):
    """the part of the compositor outside the model that a layer exercises (first match wins)"""
    has_fill = cc.has_fill
    fx = sorted({type(e).__name__ for e in layer.effects if e.enabled}) if layer.has_effects() else []
    if "Stroke" in fx:
        return "stroke-effect"
    if layer.has_stroke():
        return "vector-stroke"
    for k in ("GradientOverlay", "PatternOverlay", "ColorOverlay"):
        if k in fx:
            return k
    if has_fill(layer):
        return "fill-" + layer.kind
    if layer.has_vector_mask():
        return "vector-mask"
    return "plain-" + layer.kind


def isolate(psd, V, ref=None):
    """layers that violate the viewport law when composited alone (with the groups around them and, for a
    clipping layer, its base) -> (mechanism of the first culprit | None, names)"""
    W, H = psd.width, psd.height
    ref = ref or (0, 0, W, H)
    culprits = []

    def law_fails(keep):
        flt = lambda x: x.is_visible() and (x.is_group() or any(x is k for k in keep))
        try:
            a = cc.real_composite(psd, viewport=ref, layer_filter=flt)
            b = cc.real_composite(psd, viewport=V, layer_filter=flt)
        except Exception:
            return True
        return cc.compare(b, crop(a, ref, V)) is not None

    def visit(layers):
        for l in layers:
            if not l.is_visible():
                continue
            if l.is_group():
                visit(l)
            elif law_fails([l]):
                culprits.append(l)
            for c in l.clip_layers:
                if c.is_visible() and not law_fails([l]) and law_fails([l, c]):
                    culprits.append(c)
    visit(psd)
    if not culprits:
        return None, []
    mechs = sorted({mechanism(c) for c in culprits})
    return mechs[0], [c.name for c in culprits if mechanism(c) == mechs[0]]


def fixtures(ctx, st, limit_area, max_files):
    from psd_tools import PSDImage
    root = core.REPO / "tests" / "psd_files"
    files = sorted(glob.glob(str(root / "**" / "*.psd"), recursive=True))
    used, too_big, unopenable, empty = 0, 0, 0, 0
    cand = []
    for f in files:
        try:
            psd = PSDImage.open(f)
        except Exception:  # noqa
            unopenable += 1
            continue
        if len(psd) == 0:
            empty += 1
        elif psd.width * psd.height > limit_area:
            too_big += 1
        else:
            cand.append(f)
    if max_files is not None and len(cand) > max_files:
        cand = sorted(ctx.rng.sample(cand, max_files))
    for f in cand:
        rel = os.path.relpath(f, root)
        psd = PSDImage.open(f)
        W, H = psd.width, psd.height
        canvas = (0, 0, W, H)
        try:
            full = cc.real_composite(psd)
        except Exception as e:
            ctx.hist("fixture_composite_raises", type(e).__name__)
            ctx.skipped.append(f"fixture {rel}: composite() raises {type(e).__name__} (outside C13: no result to relate)")
            continue
        used += 1
        ctx.hist("fixtures", "used")
        bad = cc.in_unit_interval(full)
        if bad:
            ctx.fail(f"C13/range/{bad['what']}/fixture/{rel}", "composite of a fixture not finite or outside [0,1]", {"fixture": rel}, bad,
                     "finite values in [0,1]")
        # a viewport of the canvas size at another origin, against a reference that covers both
        shifted = ("shifted", (1, 1, W + 1, H + 1), (0, 0, W + 2, H + 2))
        refs = {canvas: full}
        for cls, V, ref in viewports(ctx.rng, W, H) + [shifted]:
            if cls == "straddling" or (ref != canvas and cls != "shifted"):
                continue      # one full-size reference per fixture is enough; straddling is covered by generated documents
            ctx.count(("fixture", rel, V), n=max(1, (V[2] - V[0]) * (V[3] - V[1])))
            ctx.hist("laws", f"fixture-viewport/{cls}")
            try:
                sub = cc.real_composite(psd, viewport=V)
            except Exception as e:
                ctx.fail(f"C13/viewport/{cls}/exception/{type(e).__name__}/fixture/{rel}", f"composite(viewport={V}) raises {type(e).__name__}: {str(e)[:120]}",
                         {"fixture": rel, "viewport": list(V)}, type(e).__name__, "the crop of the full composite")
                continue
            if ref not in refs:
                try:
                    refs[ref] = cc.real_composite(psd, viewport=ref)
                except Exception as e:
                    ctx.fail(f"C13/viewport/{cls}/exception/{type(e).__name__}/fixture/{rel}", f"composite(viewport={ref}) raises {type(e).__name__}",
                             {"fixture": rel, "viewport": list(ref)}, type(e).__name__, "a composite")
                    continue
            mm = cc.compare(sub, crop(refs[ref], ref, V))
            if mm is not None:
                mech, layers = isolate(psd, V, ref)
                ctx.hist("fixture_viewport_failures", f"{mech}:{rel}")
                if mech is None:
                    ctx.fail(f"C13/viewport/{cls}/fixture/{rel}/{mm['what']}",
                             f"composite(viewport={V}) of fixture {rel} is not the crop of the full composite (no single layer isolates it)",
                             {"fixture": rel, "viewport": list(V)}, mm, "crop of composite(psd)")
                else:
                    ctx.fail(f"C13/viewport/fixture-layer/{mech}",
                             f"composite(viewport=V) is not the crop of the full composite for a layer with {mech} "
                             f"(fixture {rel}, viewport {V}, layer(s) {layers[:3]})",
                             {"fixture": rel, "viewport": list(V), "layers": layers[:3]}, mm, "crop of composite(psd)")
        # save -> reopen
        try:
            again = cc.real_composite(cc.save_reopen(PSDImage.open(f)))
            ctx.hist("laws", "fixture-save-reopen")
            mm = cc.compare(again, full)
            if mm is not None:
                ctx.fail(f"C13/save-reopen/fixture/{rel}/{mm['what']}", "composite changes after save -> reopen", {"fixture": rel}, mm, "unchanged composite")
        except Exception as e:
            ctx.hist("fixture_save_reopen_raises", type(e).__name__)
    ctx.extra["fixtures_used"] = used
    ctx.skipped.append(f"fixtures: {used} used, {too_big} with a canvas above {limit_area} pixels, {empty} without layers, {unopenable} that do not open"
                       + (f", sample of {max_files} in the quick tier" if max_files is not None else ""))


# ------------------------------------------------------------------------------------------
# the check
# ------------------------------------------------------------------------------------------
def run(ctx: core.Run):
    import sys
    import c13_fx
    import extract_fx
    ctx.regenerate(extract_fx.gen_composite_fx)
    ctx.prove(["PsdVerif.Props.C13", "PsdVerif.Props.C13Fx"])
    st = {"corr_da": 0.0, "corr_dc": 0.0}
    rng = ctx.rng
    corpus = json.loads((core.VERIF / "harness" / "corpus" / "C13.json").read_text())
    process(ctx, [law_from_json(j) for j in corpus], st)
    # the deterministic feature-matrix stream (a subset that exercises every cell of comp_matrix.universe()); the positions,
    # no-op kinds and viewports drawn for it come from a generator of its own, so this part is the same for every VERIF_SEED
    import random
    mdocs = mx.covering_docs(ctx.tier)
    for d in mdocs:
        ctx.hist("colour_mode", d["mode"])
        for c in mx.cells(d):
            ctx.hist("matrix", c)
    mtasks = make_tasks(ctx, mdocs, 4 if ctx.quick else 10, 4 if ctx.quick else 10, rng=random.Random("C13-matrix"))
    for k in range(0, len(mtasks), 4000):
        process(ctx, mtasks[k:k + 4000], st)
    ncell, zero = mx.coverage(ctx.histograms.get("matrix", {}))
    ctx.extra["feature_matrix"] = {"cells": ncell, "cells_hit": ncell - len(zero), "cells_without_hits": zero,
                                   "documents_in_the_deterministic_stream": len(mdocs), "relations_on_them": len(mtasks),
                                   "histogram": "histograms.matrix (documents of the deterministic stream per cell)"}
    if zero:
        ctx.skipped.append(f"{len(zero)} cell(s) of the feature matrix were not exercised: {zero[:10]}")
    otasks = overhang_tasks()
    for t in otasks:
        ctx.hist("beyond_canvas_stream", f"{t['law']['kind']}/{t['law'].get('class')}")
    for k in range(0, len(otasks), 4000):
        process(ctx, otasks[k:k + 4000], st)
    # documents built through the public API, every group constructor the API has (by reflection): save -> reopen and the wrap law
    import c13_api
    c13_api.run(ctx, random.Random("C13-api"), ctx.quick)
    c13_api.run(ctx, rng, ctx.quick)
    n_docs = 60 if ctx.quick else 900
    nprng = np.random.RandomState(rng.randrange(2 ** 32))
    docs = []
    for k in range(n_docs):
        d = cc.gen_doc(rng, nprng, jumpy=(k % 8 == 7))
        cc.name_nodes(d["recipe"])
        docs.append(d)
        ctx.hist("colour_mode", d["mode"])
        for f in cc.features(d):
            ctx.hist("features", f)
    tasks = make_tasks(ctx, docs, 5 if ctx.quick else None, 5 if ctx.quick else None)
    for k in range(0, len(tasks), 4000):
        process(ctx, tasks[k:k + 4000], st)
    ctx.sample({"law": tasks[0]["law"], "doc": {"size": docs[0]["size"], "mode": docs[0]["mode"], "features": cc.feature_sig(docs[0])}})
    fixtures(ctx, st, 700 * 700 if ctx.quick else 1400 * 1400, 30 if ctx.quick else None)
    # the wider search: effect-carrying documents, effect-carrying no-op layers, laws under layer filters, API edits
    ftasks = c13_fx.make_tasks(ctx, sys.modules[__name__], ctx.quick)
    for t in ftasks:
        ctx.hist("wider_search", ("fx:" if t["law"].get("fx") else "filter:" if t["law"].get("filter") else "") + t["law"]["kind"])
    for k in range(0, len(ftasks), 4000):
        process(ctx, ftasks[k:k + 4000], st)
    c13_fx.stroke_findings(ctx, sys.modules[__name__])

    ctx.extra["max_abs_diff_model_vs_impl_on_transformed_inputs"] = {"alpha_shape": st["corr_da"], "premultiplied_colour": st["corr_dc"]}
    ctx.extra["tolerances"] = {"shape_alpha": cc.TOL_ALPHA, "premultiplied_colour": cc.TOL_COLOR, "alpha_min_for_colour": cc.ALPHA_MIN,
                               "compression_and_reopen": "bit-identical arrays"}
    ctx.rule = (
        "one case = one metamorphic relation on one document: (document, viewport V, reference viewport) for the viewport law "
        "(2 inside, 2 straddling, 3 degenerate per document); (document with one inserted no-op layer of kind hidden / transparent / "
        "masked-out / zero-opacity / zero-fill / outside at one position of one list, incl. inside groups and clip runs) for the no-op law "
        "(thorough: every position x every kind; quick: 5 positions x 2 kinds); (document with one contiguous segment of whole clipping runs "
        "wrapped in a full-opacity unmasked PASS_THROUGH group) for the grouping law (thorough: every segment of every list); "
        "(document, codec in RLE / ZIP / ZIP+prediction) and save -> reopen, bit-identical; first the deterministic feature-matrix documents "
        "(comp_matrix.covering_docs: a VERIF_SEED-independent subset of C11's matrix stream that exercises every cell - clip runs on every kind "
        "of base, knockout, group attributes incl. masks, nesting, geometry; 4 (thorough 10) positions x 2 kinds and 4 (10) segments each), then "
        "documents from the C11 generator (every 8th from "
        "its hard-mix / non-separable stream); every wrapped segment additionally under one viewport that goes BEYOND the canvas and a share "
        "of the no-op insertions too; a seed-independent stream of documents whose layers hang over every canvas edge and corner (flat, in an "
        "isolated group, in nested groups, with clip runs; RGB / L / CMYK) on which the viewport, wrap, no-op and save -> reopen laws are "
        "evaluated under 16 viewports (beyond each side singly, beyond all sides, over two corners, wholly outside on each side, far "
        "outside, (0,0,0,0), zero width, zero height, degenerate outside); documents built through the PUBLIC API with every group "
        "constructor found by reflection (public classmethods of Group and its subclasses) x parent {absent, document, enclosing API "
        "group} x open_folder x the way the group is filled and attached, children with non-NORMAL blend modes hanging over the edges of an "
        "opaque backdrop: composite before save = after reopen, flat = grouped in memory and after reopen, under the canvas and "
        "beyond-canvas viewports; fixtures: viewport (inside, degenerate), save -> reopen, range. evaluations = pixels related; "
        "correspondence_cases = pixels sent to the Lean model (a seeded share of the transformed inputs, every pixel of the viewport)")
    ctx.trusted_base += [
        "Lean 4.33 kernel; axioms allowed: propext, Classical.choice, Quot.sound (audited per theorem)",
        "Model/Composite.lean as in C11 (tied by C11's and this run's correspondence checks)",
        "harness/pixdoc.py + comp_common.py: documents are REBUILT from the recipe for every transformed input and re-read by the library",
    ]
    ctx.assumptions += [
        "two composites are 'the same' when shape and alpha agree within 2e-4 and premultiplied colour within 1e-3 wherever alpha > 1e-4 "
        "(colour under zero coverage is what the theorems quotient away: Same / the `st.a ≠ 0 →` clauses); occurrences are counted in "
        "histograms.colour_under_zero_alpha_differs(quotiented)",
        "a zero-opacity layer keeps its SHAPE (theorem zero_opacity_noop claims alpha and colour): the returned shape array is not compared "
        "for that kind, and documents with a knockout group are skipped for it (there the shape legitimately matters)",
        "a no-op layer inserted inside a clipping run is itself a clipping layer (a base inserted there would split the run - a different document)",
        "wrapped segments consist of whole clipping runs and contain no knockout member (knockout refers to the immediate parent's backdrop)",
        "independence of compression / save -> reopen: the compositor reads decompressed planes only (C04, C01); checked here end to end",
    ]
    ctx.model_coverage = C11_model_coverage()
    ctx.notes += NOTES
    if ctx.tier == "thorough":
        ctx.recheck(["PsdVerif.Props.C13", "PsdVerif.Props.C13Fx"])


def C11_model_coverage():
    return {"modelled": ["as C11: composite() with viewport / layer_filter, Compositor, _get_group viewport restriction and paste back, "
                         "early exits of apply, backdrop removal, _clip, _divide",
                         "as C11 (Model/CompositeFx.lean): fill layers, vector masks, the vector stroke, overlay effects, stroke effects "
                         "(the drawing a parameter), adjustment layers, force"],
            "opaque": ["float32 rounding", "what is drawn for fills / vector masks / strokes / effects (aggdraw, scipy, skimage): a parameter of the model; "
                       "the relations on documents and fixtures that carry them are checked on the real code",
                       "channel decompression and the reader/writer (C04, C01)", "the API edit operations themselves (C09, C15, C16): only their "
                       "effect on the composite before / after save -> reopen is observed here"]}


NOTES = [
    "observation (outside the property's quantifier): a group made by Artboard.new / Artboard.group_layers (the constructors Artboard "
    "inherits from Group) carries no artboard rectangle: Artboard.bbox asserts, so composite() and save() of a document that contains it "
    "raise AssertionError; nothing to relate, counted in histograms.api_group_laws as not applicable",
    "proved (Props/C13Fx.lean) about the effect-carrying model (Model/CompositeFx.lean): result_in_unit_interval_fx, hidden_noop_fx, "
    "outside_viewport_noop_fx, adjustment_noop, zero_opacity_noop_fx (pixel / fill layers and groups with any overlays AND stroke effects: "
    "the overlays are painted with the layer's alpha, which carries the layer opacity, and the stroke effect's opacity is multiplied by the "
    "layer opacity - repaired 8d9362f), zero_opacity_overlay_needs_layer_opacity (the variant in which the overlay's alpha omits the layer "
    "opacity paints: decided witness), zero_opacity_stroke_effect_needs_layer_opacity (pre-repair witness), transparent_noop_fx (partial: no "
    "stroke effects) + transparent_stroke_effect_paints, viewport_is_crop_fx (partial: what is drawn for the stroke effects does not depend "
    "on the viewport, fxListConst) + viewport_stroke_effect_differs (known finding), noop_insert_fx, outside_pixel_is_noop_fx",
    "wider search (c13_fx.py): the laws on effect-carrying documents; no-op layers that carry effects; the laws under custom layer filters "
    "(accept all / accept named hidden layers) on nested groups with hidden members of every relative extent; save -> reopen after an API "
    "edit (clipping flag, visibility, blend mode, opacity) at every position of clip runs of length 1-3 and on random documents",
    "proved (Props/C13.lean): result_in_unit_interval, hidden_noop, outside_viewport_noop, transparent_noop, zero_opacity_noop, "
    "viewport_is_crop_covered, passthrough_group_transparent_inside, passthrough_group_transparent",
    "correspondence-only: the general viewport law beyond viewport_is_crop_covered (a layer that meets the two viewports in DIFFERENT "
    "rectangles, e.g. a full-canvas layer and a sub-viewport): checked on the real code and, for a share of the cases, on the model "
    "(histograms.viewport_law_on_model); it differs from the covered case only in colour under zero alpha",
    "the laws were searched with shrinking; a law that fails on the real code only in colour under zero alpha is not a violation (quotiented)",
]


def replay(ctx, data):
    inp = data.get("input") or {}
    print("replaying", data.get("signature"))
    if "fixture" in inp:
        from psd_tools import PSDImage
        psd = PSDImage.open(core.REPO / "tests" / "psd_files" / inp["fixture"])
        full = cc.real_composite(psd)
        if inp.get("viewport"):
            V = tuple(inp["viewport"])
            sub = cc.real_composite(PSDImage.open(core.REPO / "tests" / "psd_files" / inp["fixture"]), viewport=V)
            print("viewport", V, "vs crop:", cc.compare(sub, crop(full, (0, 0, psd.width, psd.height), V)))
        return 0
    if inp.get("kind") == "api-group":
        import c13_api
        c13_api.replay(inp)
        print("expected:", data.get("expected"))
        return 0
    t = law_from_json(inp)
    r = check_law(t["doc_t"], t["law"])
    print("law:", t["law"])
    print("result:", {k: v for k, v in r.items() if k != "model"})
    print("expected:", data.get("expected"))
    return 0
