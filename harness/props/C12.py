"""C12 - blend functions are total, bounded, pure and match their published formulas.

correspondence : Model/Blend.lean (exact rationals, compiled driver)  vs  BLEND_FUNC[mode] on float32
search         : the property itself on the real code, with oracles that do not use the model:
                 a float64 transcription of the published formulas (below), range / finite checks,
                 argument snapshots (purity), the documented identities.
"""
from __future__ import annotations

import json
from fractions import Fraction

import numpy as np

import core
import extract_c12

SEP = ["normal", "multiply", "screen", "overlay", "darken", "lighten", "color_dodge", "color_burn",
       "linear_dodge", "linear_burn", "hard_light", "soft_light", "vivid_light", "linear_light",
       "pin_light", "hard_mix", "divide", "difference", "exclusion", "subtract"]
NONSEP = ["hue", "saturation", "color", "luminosity", "darker_color", "lighter_color"]

DELTA = 1.0 / 65535.0          # offDiscontinuity: a denominator that is not 0 is >= DELTA
TOL_CORR = 1e-5                # model (exact) vs float32 implementation
TOL_SPEC_SEP = 1e-9 / DELTA + 2e-5   # tol(DELTA) of the theorems + float32 slack
# non-separable: the theorems' bounds + float32 slack
TOL_SPEC_NS = {"hue": 10e-9 + (1 + 100 / 11) * 2 * (1e-9 / DELTA) + 2e-5,         # hueTol(DELTA)
               "saturation": 10e-9 + (1 + 100 / 11) * 2 * (1e-9 / DELTA) + 2e-5,
               "color": 10e-9 + 2e-5, "luminosity": 10e-9 + 2e-5,                   # 10 eps
               "darker_color": 1e-6, "lighter_color": 1e-6}                         # exact
RANGE_SLACK = 1e-6             # float32 rounding of a value that is exactly 0 or 1
NEAR = 1e-6                    # a float-computed discriminant closer than this may fall on either side


# ------------------------------------------------------------------------------------------
# published formulas, float64 (PDF 1.7 11.3.5 / W3C Compositing and Blending 1; Adobe for the rest)
# ------------------------------------------------------------------------------------------
def _q(a, b):
    with np.errstate(divide="ignore", invalid="ignore"):
        return a / b


def spec_sep(fn, cb, cs):
    one = np.ones_like(cb)
    if fn in ("normal", "dissolve"):
        return cs + 0 * cb
    if fn == "multiply":
        return cb * cs
    if fn == "screen":
        return 1 - (1 - cb) * (1 - cs)
    if fn == "hard_light":
        return np.where(cs <= 0.5, cb * (2 * cs), 1 - (1 - cb) * (1 - (2 * cs - 1)))
    if fn == "overlay":
        return spec_sep("hard_light", cs, cb)
    if fn == "darken":
        return np.minimum(cb, cs)
    if fn == "lighten":
        return np.maximum(cb, cs)
    if fn == "color_dodge":
        return np.where(cb == 0, 0.0, np.where(cs == 1, 1.0, np.minimum(one, _q(cb, 1 - cs))))
    if fn == "color_burn":
        return np.where(cb == 1, 1.0, np.where(cs == 0, 0.0, 1 - np.minimum(one, _q(1 - cb, cs))))
    if fn == "soft_light":
        d = np.where(cb <= 0.25, ((16 * cb - 12) * cb + 4) * cb, np.sqrt(cb))
        return np.where(cs <= 0.5, cb - (1 - 2 * cs) * cb * (1 - cb), cb + (2 * cs - 1) * (d - cb))
    if fn == "difference":
        return np.abs(cb - cs)
    if fn == "exclusion":
        return cb + cs - 2 * cb * cs
    if fn == "linear_dodge":
        return np.minimum(one, cb + cs)
    if fn == "linear_burn":
        return np.maximum(0 * one, cb + cs - 1)
    if fn == "subtract":
        return np.maximum(0 * one, cb - cs)
    if fn == "divide":
        return np.where(cs == 0, np.where(cb == 0, 0.0, 1.0), np.minimum(one, _q(cb, cs)))
    if fn == "vivid_light":
        return np.where(cs <= 0.5, spec_sep("color_burn", cb, 2 * cs), spec_sep("color_dodge", cb, 2 * (cs - 0.5)))
    if fn == "linear_light":
        return np.clip(cb + 2 * cs - 1, 0, 1)
    if fn == "pin_light":
        return np.where(cs <= 0.5, np.minimum(cb, 2 * cs), np.maximum(cb, 2 * (cs - 0.5)))
    if fn == "hard_mix":
        return np.where(cb + cs < 1, 0.0, 1.0)
    raise KeyError(fn)


def off_discontinuity_sep(fn, cb, cs):
    """Inputs on which the published formula is continuous and every denominator that is not 0
    is >= DELTA (the hypothesis of the `_near_spec` theorems)."""
    t = np.ones(cb.shape, dtype=bool)
    if fn == "color_dodge":
        return (cs == 1) | (1 - cs >= DELTA)
    if fn == "color_burn":
        return (cs == 0) | (cs >= DELTA)
    if fn == "vivid_light":
        lo = (2 * cs == 0) | (2 * cs >= DELTA)
        hi = (2 * cs - 1 == 1) | (1 - (2 * cs - 1) >= DELTA)
        return np.where(cs <= 0.5, lo, hi)
    if fn == "divide":
        return (cs >= DELTA) | ((cs == 0) & (cb >= DELTA))
    if fn == "hard_mix":
        return np.abs(cb + cs - 1) >= DELTA
    return t


def s_lum(c):
    return 0.3 * c[..., 0] + 0.59 * c[..., 1] + 0.11 * c[..., 2]


def s_clip(c):
    l = s_lum(c)[..., None]
    n = c.min(-1, keepdims=True)
    x = c.max(-1, keepdims=True)
    c = np.where(n < 0, l + _q((c - l) * l, l - n), c)
    c = np.where(x > 1, l + _q((c - l) * (1 - l), x - l), c)
    return c


def s_setlum(c, l):
    return s_clip(c + (l - s_lum(c))[..., None])


def s_sat(c):
    return c.max(-1) - c.min(-1)


def s_setsat(c, s):
    """PDF's positional procedure: sort the components, assign Cmin, Cmid, Cmax, put them back."""
    order = np.argsort(c, axis=-1, kind="stable")
    srt = np.take_along_axis(c, order, -1)
    mn, md, mx = srt[..., 0], srt[..., 1], srt[..., 2]
    pos = mx > mn
    new_mid = np.where(pos, _q((md - mn) * s, mx - mn), 0.0)
    new_max = np.where(pos, s, 0.0)
    new = np.stack([np.zeros_like(mn), new_mid, new_max], -1)
    out = np.empty_like(c)
    np.put_along_axis(out, order, new, -1)
    return out


def spec_ns(fn, cb, cs):
    if fn == "hue":
        return s_setlum(s_setsat(cs, s_sat(cb)), s_lum(cb))
    if fn == "saturation":
        return s_setlum(s_setsat(cb, s_sat(cs)), s_lum(cb))
    if fn == "color":
        return s_setlum(cs, s_lum(cb))
    if fn == "luminosity":
        return s_setlum(cb, s_lum(cs))
    if fn == "darker_color":
        return np.where((s_lum(cb) <= s_lum(cs))[..., None], cb, cs)
    if fn == "lighter_color":
        return np.where((s_lum(cs) <= s_lum(cb))[..., None], cb, cs)
    raise KeyError(fn)


def _setlum_ok(c, l):
    c2 = c + (l - s_lum(c))[..., None]
    n, x = c2.min(-1), c2.max(-1)
    return ((n >= 0) | (l - n >= DELTA)) & ((x <= 1) | (x - l >= DELTA))


def _setsat_ok(c):
    d = c.max(-1) - c.min(-1)
    return (d == 0) | (d >= DELTA)


def off_discontinuity_ns(fn, cb, cs):
    if fn == "hue":
        return _setsat_ok(cs) & _setlum_ok(s_setsat(cs, s_sat(cb)), s_lum(cb))
    if fn == "saturation":
        return _setsat_ok(cb) & _setlum_ok(s_setsat(cb, s_sat(cs)), s_lum(cb))
    if fn == "color":
        return _setlum_ok(cs, s_lum(cb))
    if fn == "luminosity":
        return _setlum_ok(cb, s_lum(cs))
    return np.abs(s_lum(cs) - s_lum(cb)) >= NEAR      # darker / lighter colour: ties are the jump set


def spec_ns_cmyk(fn, pb, ps):
    """PDF 1.7 11.3.5.3: C, M, Y are converted to their complements, blended as RGB, converted back;
    K is the backdrop's for Hue, Saturation, Color and the source's for Luminosity."""
    rgb = spec_ns(fn, 1 - pb[..., :3], 1 - ps[..., :3])
    k = ps[..., 3] if fn == "luminosity" else pb[..., 3]
    return np.concatenate([1 - rgb, k[..., None]], -1)


# ------------------------------------------------------------------------------------------
# helpers
# ------------------------------------------------------------------------------------------
def fr(x) -> str:
    f = Fraction(float(x))
    return f"{f.numerator}/{f.denominator}"


def tofloat(s: str) -> float:
    n, _, d = s.partition("/")
    return int(n) / int(d) if d else float(int(n))


def table():
    """function name -> what the compositor would call for the BlendMode of that name:
    `BLEND_FUNC.get(BlendMode.<NAME>, normal)` (the property's observation point)"""
    from psd_tools.composite.blend import BLEND_FUNC, normal
    from psd_tools.constants import BlendMode
    t = {}
    for fn in SEP + NONSEP + ["dissolve"]:
        mode = getattr(BlendMode, fn.upper(), None)
        if mode is not None:
            t[fn] = BLEND_FUNC.get(mode, normal)
    return t


def _descriptor_keys(ctx, tab):
    """The other half of BLEND_FUNC: descriptor keys (what layer effects / overlays carry). The mode a key names
    is read off the key itself (enum member name or camelCase bytes), independently of the table; the function
    found under the key must compute the same values as the one found under the BlendMode of that name."""
    import re
    import numpy as np
    from psd_tools.composite.blend import BLEND_FUNC
    from psd_tools.constants import BlendMode
    special = {"ligherColor": "lighter_color", "lighterColor": "lighter_color", "blendDivide": "divide"}
    g = np.linspace(0.0, 1.0, 17, dtype=np.float32)
    cb, cs = np.meshgrid(g, g)
    cb3 = np.stack([cb, cs, 1 - cb], axis=-1).astype(np.float32)
    cs3 = np.stack([cs, 1 - cb * cs, cb], axis=-1).astype(np.float32)
    for k, f in BLEND_FUNC.items():
        if isinstance(k, BlendMode):
            continue
        raw = k.name if hasattr(k, "name") else bytes(k).decode("ascii", "replace")
        name = special.get(raw) or re.sub(r"(?<!^)(?=[A-Z])", "_", raw).lower()
        ref = tab.get(name)
        ctx.count(("desc-key", raw))
        ctx.hist("descriptor_keys", name if ref is not None else "unknown:" + raw)
        if ref is None:
            ctx.disagree("descriptor key of BLEND_FUNC names no modelled mode", {"key": raw})
            continue
        try:
            a, b = np.asarray(f(cb3.copy(), cs3.copy())), np.asarray(ref(cb3.copy(), cs3.copy()))
            bad = not np.allclose(a, b, atol=1e-6, equal_nan=True)
        except Exception as e:  # noqa
            a, b, bad = type(e).__name__, None, True
        if bad:
            ctx.fail(f"C12/table/descriptor-key/{raw}-does-not-compute-{name}",
                     "BLEND_FUNC maps a descriptor key to a function that does not compute the mode the key names",
                     {"key": raw, "function_found": getattr(f, "__name__", repr(f)), "mode": name},
                     getattr(f, "__name__", repr(f)), name)


class Stats:
    def __init__(self):
        self.max_corr = {}
        self.max_spec = {}
        self.excluded = {}
        self.near = {}
        self.overshoot = {}

    def up(self, d, k, v):
        if v > d.get(k, 0.0):
            d[k] = float(v)


def call_impl(ctx, fn, f, a, b, path):
    """Run the real function on copies, check purity, return the result as float64."""
    a1, b1 = a.copy(), b.copy()
    sa, sb = a1.tobytes(), b1.tobytes()
    with np.errstate(all="ignore"):
        out = f(a1, b1)
    if a1.tobytes() != sa or b1.tobytes() != sb or a1.shape != a.shape or b1.shape != b.shape:
        which = "Cb" if a1.tobytes() != sa else "Cs"
        ctx.fail(f"C12/purity/{path}/{fn}/modifies-{which}", f"{fn} modifies its argument {which}",
                 {"fn": fn, "path": path, "cb": a.reshape(-1)[:8].tolist(), "cs": b.reshape(-1)[:8].tolist()},
                 "argument changed", "arguments unmodified")
    al = "Cs" if np.shares_memory(out, b1) else "Cb" if np.shares_memory(out, a1) else "fresh"
    ctx.hist("result_memory", f"{fn}:{al}")
    return np.asarray(out, dtype=np.float64)


def check_range(ctx, st, fn, path, out, a, b, known_below=None):
    """finite and in [0,1] (search; no model involved). `known_below` (CMYK path): the cases on which the
    known mechanism can push C, M, Y below zero - the blended RGB exceeds 1 - K of the source; a value below
    zero on any other case violates the clause that does hold (Props.C12.cmyk_range_partial)."""
    flat = out.reshape(out.shape[0], -1) if out.ndim > 1 else out.reshape(-1, 1)
    bad_nf = ~np.isfinite(flat).all(axis=1)
    lo = (flat < -RANGE_SLACK).any(axis=1)
    hi = (flat > 1 + RANGE_SLACK).any(axis=1)
    inside = flat[np.isfinite(flat) & (flat >= -RANGE_SLACK) & (flat <= 1 + RANGE_SLACK)]
    if inside.size:
        o = max(float(-inside.min()), float(inside.max() - 1))
        if o > 0:
            st.up(st.overshoot, f"{fn}:{path}", o)
    checks = [(bad_nf, "non-finite", None), (hi, "above-1", None)]
    if path == "cmyk" and known_below is not None:
        checks += [(lo & known_below, "below-0", "C12/cmyk-wrapper/range/below-zero"),
                   (lo & ~known_below, "below-0",
                    f"C12/cmyk-wrapper/range/{fn}/below-zero-although-blended-rgb-within-1-minus-source-K")]
        ctx.hist("cmyk_below_zero", f"{fn}:known-mechanism", int((lo & known_below).sum()))
        ctx.hist("cmyk_below_zero", f"{fn}:partial-clause-applies", int((~known_below).sum()))
    else:
        checks.append((lo, "below-0", "C12/cmyk-wrapper/range/below-zero" if path == "cmyk" else None))
    for mask, kind, sig in checks:
        if mask.any():
            i = int(np.argmax(mask))
            sig = sig or f"C12/range/{path}/{fn}/{kind}"
            ctx.fail(sig, f"{fn} ({path}) returns a value {kind.replace('-', ' ')} for arguments in [0,1]",
                     case_of(fn, path, a, b, i), out.reshape(out.shape[0], -1)[i].tolist() if out.ndim > 1 else float(out.reshape(-1)[i]),
                     "finite values in [0,1]")


def case_of(fn, path, a, b, i):
    a2 = a.reshape(a.shape[0], -1) if path != "sep" else a.reshape(-1, 1)
    b2 = b.reshape(b.shape[0], -1) if path != "sep" else b.reshape(-1, 1)
    return {"fn": fn, "path": path, "cb": [float(x) for x in a2[i]], "cs": [float(x) for x in b2[i]]}


# ------------------------------------------------------------------------------------------
# separable modes
# ------------------------------------------------------------------------------------------
def sep_cases(ctx, st, drv, tab, fn, cb32, cs32, model, margin, label):
    """cb32, cs32: 1-D float32; model: float64 values of the model on the same inputs;
    margin: float64 or None.  Correspondence + search on these cases."""
    f = tab[fn]
    out = call_impl(ctx, fn, f, cb32.reshape(-1, 1), cs32.reshape(-1, 1), "sep").reshape(-1)
    n = out.size
    ctx.corr_cases += n
    ctx.count(None, n=n)
    ctx.hist("cases", f"{fn}:{label}", n)
    # correspondence
    diff = np.abs(out - model)
    bad = ~(diff <= TOL_CORR)
    if margin is not None:
        near = margin < NEAR
        st.near[fn] = st.near.get(fn, 0) + int(near.sum())
        ok_alt = near & ((out == 0) | (out == 1))          # hard_mix: the two branch values
        bad &= ~ok_alt
        diff = np.where(near, 0.0, diff)
    fin = diff[np.isfinite(diff) & ~bad]
    if fin.size:
        st.up(st.max_corr, fn, fin.max())
    if bad.any():
        i = int(np.argmax(bad))
        ctx.disagree(f"{fn}: model != implementation ({label})",
                     {"fn": fn, "cb": float(cb32[i]), "cs": float(cs32[i]), "impl": float(out[i]), "model": float(model[i]),
                      "count": int(bad.sum())})
    # search: range, published formula
    check_range(ctx, st, fn, "sep", out, cb32, cs32)
    cb, cs = cb32.astype(np.float64), cs32.astype(np.float64)
    sp = spec_sep(fn, cb, cs)
    ok = off_discontinuity_sep(fn, cb, cs)
    st.excluded[fn] = st.excluded.get(fn, 0) + int((~ok).sum())
    dev = np.abs(out - sp)
    viol = ok & ~(dev <= TOL_SPEC_SEP)
    good = dev[ok & ~viol]
    if good.size:
        st.up(st.max_spec, fn, good.max())
    if viol.any():
        i = int(np.argmax(np.where(viol, dev, -1)))
        ctx.fail(classify_spec(fn, "sep", cb[i], cs[i]),
                 f"{fn} differs from its published formula by {dev[i]:.4g}",
                 {"fn": fn, "path": "sep", "cb": [float(cb[i])], "cs": [float(cs[i])]}, float(out[i]), float(sp[i]))
    if (~ok).any() and len(ctx.extra.setdefault("excluded_points_observed", [])) < 12:
        i = int(np.argmax(~ok))
        ctx.extra["excluded_points_observed"].append(
            {"fn": fn, "cb": float(cb[i]), "cs": float(cs[i]), "impl": float(out[i]), "published": float(sp[i])})


def classify_spec(fn, path, cb, cs):
    if fn == "soft_light" and path == "sep":
        # D(cb) is only used for cs > 0.5; the two helpers differ for cb <= 0.25 < ... or cs <= 0.25
        return "C12/spec/soft_light/D-selected-by-Cs-instead-of-Cb"
    return f"C12/spec/{path}/{fn}/deviates"


def sep_grid(ctx, st, drv, tab, N, rows, label):
    g64 = np.arange(N + 1, dtype=np.float64) / N
    g32 = g64.astype(np.float32)
    rows = list(rows)
    cb = np.repeat(g32[rows], N + 1)
    cs = np.tile(g32, len(rows))
    for fn in SEP:
        ans = drv.batch([("blend.row", fn, N, i) for i in rows])
        for i, a in zip(rows, ans):
            if a[0] != "ok":
                ctx.disagree(f"{fn}: model answers {a} on grid row {i}/{N}", {"fn": fn, "N": N, "row": i})
                return
            ctx.count((fn, N, i), nontrivial=True, n=0)
        model = np.array([tofloat(t) for a in ans for t in a[1].split(" ")])
        margin = None
        if fn == "hard_mix":
            ma = drv.batch([("blend.mrow", fn, N, i) for i in rows])
            margin = np.array([tofloat(t) for a in ma for t in a[1].split(" ")])
        sep_cases(ctx, st, drv, tab, fn, cb, cs, model, margin, label)


def special_values(rng):
    f32 = np.float32
    vals = [0.0, 1.0, 0.5, 0.25, 0.75, 1 / 255, 254 / 255, 127 / 255, 128 / 255, 63 / 255, 64 / 255,
            1 / 65535, 65534 / 65535, 32767 / 65535, 32768 / 65535, 1e-3, 1e-6, 1e-9, 1e-10, 2.0 ** -24]
    out = [f32(v) for v in vals]
    for v in (0.0, 1.0, 0.5, 0.25):
        out.append(np.nextafter(f32(v), f32(2)))
        out.append(np.nextafter(f32(v), f32(-1)))
    return [float(x) for x in out if 0.0 <= float(x) <= 1.0]


def sep_random(ctx, st, drv, tab, rng, n):
    sv = special_values(rng)

    def pick():
        r = rng.random()
        if r < 0.35:
            return rng.choice(sv)
        if r < 0.45:
            return float(np.float32(rng.randrange(256) / 255))
        if r < 0.5:
            return float(np.float32(rng.randrange(65536) / 65535))
        return float(np.float32(rng.random()))

    pairs = [(a, b) for a in (0.0, 1.0, 0.5, 0.25) for b in (0.0, 1.0, 0.5, 0.25)]
    pairs += [(pick(), pick()) for _ in range(n)]
    # complementary pairs (hard mix line), equal pairs
    for _ in range(n // 10):
        a = pick()
        pairs.append((a, float(np.float32(1) - np.float32(a))))
        pairs.append((a, a))
    cb = np.array([p[0] for p in pairs], dtype=np.float32)
    cs = np.array([p[1] for p in pairs], dtype=np.float32)
    strs = [(fr(a), fr(b)) for a, b in zip(cb, cs)]
    CH = 400
    for fn in SEP:
        reqs = []
        for k in range(0, len(strs), CH):
            flat = [x for p in strs[k:k + CH] for x in p]
            reqs.append(("blend.sep", fn, *flat))
        ans = drv.batch(reqs)
        vals, mar = [], []
        for a in ans:
            if a[0] != "ok":
                ctx.disagree(f"{fn}: model answers {a} on random float32 values", {"fn": fn})
                return
            for t in a[1].split(" "):
                v, _, m = t.partition(";")
                vals.append(tofloat(v))
                mar.append(np.inf if m == "-" else tofloat(m))
        ctx.count((fn, "random", len(pairs)), n=0)
        sep_cases(ctx, st, drv, tab, fn, cb, cs, np.array(vals), np.array(mar) if fn == "hard_mix" else None, "random-f32")
    ctx.sample({"fn": "color_dodge", "cb": strs[20][0], "cs": strs[20][1]})


def identities(ctx, tab, N):
    g = (np.arange(N + 1, dtype=np.float64) / N).astype(np.float32)
    cb = np.repeat(g, N + 1).reshape(-1, 1)
    cs = np.tile(g, N + 1).reshape(-1, 1)
    one, zero = np.ones_like(cb), np.zeros_like(cb)

    def chk(name, got, want, a, b):
        ctx.count(None, n=got.size)
        ctx.hist("identities", name, got.size)
        bad = ~(np.asarray(got, dtype=np.float64) == np.asarray(want, dtype=np.float64))
        if bad.any():
            i = int(np.argmax(bad))
            ctx.fail(f"C12/identity/{name}", f"identity {name} fails",
                     {"fn": name, "path": "sep", "cb": [float(a.reshape(-1)[i])], "cs": [float(b.reshape(-1)[i])]},
                     float(np.asarray(got).reshape(-1)[i]), float(np.asarray(want).reshape(-1)[i]))

    with np.errstate(all="ignore"):
        chk("normal_src", tab["normal"](cb.copy(), cs.copy()), cs, cb, cs)
        chk("multiply_white", tab["multiply"](cb.copy(), one.copy()), cb, cb, one)
        chk("screen_black", tab["screen"](cb.copy(), zero.copy()), cb, cb, zero)
        chk("darken_self", tab["darken"](cb.copy(), cb.copy()), cb, cb, cb)
        chk("lighten_self", tab["lighten"](cb.copy(), cb.copy()), cb, cb, cb)
        chk("overlay_is_hardlight_swapped", tab["overlay"](cb.copy(), cs.copy()), tab["hard_light"](cs.copy(), cb.copy()), cb, cs)


def spec_tie_sep(ctx, drv, rng, n):
    """the harness's float64 oracle and the Lean `Spec` are the same formulas"""
    vals = [Fraction(k, 16) for k in range(17)] + [Fraction(k, 255) for k in (0, 1, 63, 64, 127, 128, 254, 255)]
    pairs = [(rng.choice(vals), rng.choice(vals)) for _ in range(n)]
    cb = np.array([float(a) for a, _ in pairs])
    cs = np.array([float(b) for _, b in pairs])
    worst = 0.0
    for fn in SEP:
        flat = [f"{x.numerator}/{x.denominator}" for p in pairs for x in p]
        a = drv.batch([("blend.spec", fn, *flat)])[0]
        if a[0] != "ok":
            ctx.disagree(f"Lean Spec.{fn} not evaluable: {a}", {"fn": fn})
            continue
        lean = np.array([tofloat(t) for t in a[1].split(" ")])
        sp = spec_sep(fn, cb, cs)
        skip = (cb == 0) & (cs == 0) if fn == "divide" else np.zeros(len(pairs), dtype=bool)
        d = np.where(skip, 0.0, np.abs(lean - sp))
        worst = max(worst, float(d.max()))
        if (d > 1e-9).any():
            i = int(np.argmax(d))
            ctx.disagree(f"harness oracle for {fn} differs from Lean Spec.{fn}",
                         {"fn": fn, "cb": str(pairs[i][0]), "cs": str(pairs[i][1]), "lean": float(lean[i]), "harness": float(sp[i])})
    ctx.extra["spec_tie_max_diff_sep"] = worst


# ------------------------------------------------------------------------------------------
# non-separable modes
# ------------------------------------------------------------------------------------------
def ns_inputs(rng, n, ch):
    """n pairs of `ch`-component colours (float32): 17-lattice, 8-bit values, random float32,
    greys (zero saturation), ties, primaries, equal backdrop and source."""
    prim = [0.0, 1.0]

    def colour():
        r = rng.random()
        if r < 0.35:
            c = [rng.randrange(17) / 16 for _ in range(3)]
        elif r < 0.5:
            c = [rng.randrange(256) / 255 for _ in range(3)]
        elif r < 0.6:
            v = rng.choice([rng.random(), rng.randrange(17) / 16, 0.0, 1.0])
            c = [v, v, v]
        elif r < 0.7:
            v, w = rng.random(), rng.random()
            c = [v, v, w]
            rng.shuffle(c)
        elif r < 0.8:
            c = [rng.choice(prim) for _ in range(3)]
        else:
            c = [rng.random() for _ in range(3)]
        if ch == 4:
            k = rng.choice([0.0, 0.0, 1.0, 0.5, rng.randrange(17) / 16, rng.randrange(256) / 255, rng.random()])
            c.append(k)
        return c

    cb, cs = [], []
    for _ in range(n):
        a = colour()
        b = a[:] if rng.random() < 0.05 else colour()
        cb.append(a)
        cs.append(b)
    return np.array(cb, dtype=np.float32), np.array(cs, dtype=np.float32)


def lattice_pairs(rng, n):
    cb = np.array([[rng.randrange(17) / 16 for _ in range(3)] for _ in range(n)], dtype=np.float32)
    cs = np.array([[rng.randrange(17) / 16 for _ in range(3)] for _ in range(n)], dtype=np.float32)
    return cb, cs


def model_ns(ctx, drv, fn, path, cb, cs):
    ch = cb.shape[1]
    CH = 120
    reqs = []
    for k in range(0, len(cb), CH):
        flat = []
        for a, b in zip(cb[k:k + CH], cs[k:k + CH]):
            flat += [fr(x) for x in a] + [fr(x) for x in b]
        reqs.append(("blend.ns", fn, path, *flat))
    ans = drv.batch(reqs)
    vals, mar = [], []
    for a in ans:
        if a[0] != "ok":
            ctx.disagree(f"{fn} ({path}): model answers {a}", {"fn": fn, "path": path})
            return None, None
        for t in a[1].split(" "):
            v, _, m = t.partition(";")
            vals.append([tofloat(x) for x in v.split(",")])
            mar.append(np.inf if m == "-" else tofloat(m))
    return np.array(vals), np.array(mar)


def ns_cases(ctx, st, drv, tab, fn, path, cb, cs, label, corr=True):
    f = tab[fn]
    n, ch = cb.shape
    out = call_impl(ctx, fn, f, cb.reshape(n, 1, ch), cs.reshape(n, 1, ch), path).reshape(n, -1)
    ctx.count(None, n=n)
    ctx.hist("cases", f"{fn}:{path}:{label}", n)
    key = f"{fn}:{path}"
    a64, b64 = cb.astype(np.float64), cs.astype(np.float64)
    if corr:
        model, margin = model_ns(ctx, drv, fn, path, cb, cs)
        if model is not None:
            ctx.corr_cases += n
            ctx.count((fn, path, label, n), n=0)
            diff = np.abs(out - model).max(axis=1)
            tol = np.full(n, TOL_CORR)
            if path == "cmyk":
                # _rgb2cmy divides the float32 error of the blended RGB (~1e-6) by 1 - K
                kk = b64[:, 3]
                tol = TOL_CORR + 1e-6 / np.maximum(1 - kk, 1e-9)
            bad = ~(diff <= tol)
            diff = diff * (TOL_CORR / tol)          # reported relative to the tolerance used
            near = margin < NEAR
            st.near[key] = st.near.get(key, 0) + int(near.sum())
            if fn in ("darker_color", "lighter_color"):
                # either whole colour is accepted next to a tie of the luminosities
                if path == "rgb":
                    alt = (np.abs(out - a64).max(axis=1) <= TOL_CORR) | (np.abs(out - b64).max(axis=1) <= TOL_CORR)
                else:
                    alt = np.ones(n, dtype=bool)   # cmyk: the other branch value is not recomputed here
                bad &= ~(near & alt)
            else:
                bad &= ~near       # hue / saturation via CMYK: a tie of the converted components decided by rounding
            good = diff[~bad & ~near & np.isfinite(diff)]
            if good.size:
                st.up(st.max_corr, key, good.max())
            if bad.any():
                i = int(np.argmax(bad))
                ctx.disagree(f"{fn} ({path}): model != implementation ({label})",
                             dict(case_of(fn, path, cb, cs, i), impl=out[i].tolist(), model=model[i].tolist(), count=int(bad.sum())))
    # ---- search
    known_below = None
    if path == "cmyk":
        # the clause of the range that holds (cmyk_range_partial): blended RGB within [0, 1 - Ks] => C, M, Y in [0,1].
        # Blended RGB = the published formula on the code's own conversion (1 - C)(1 - K); next to a discontinuity of
        # that formula, or within its tolerance of 1 - Ks, the case is left to the known mechanism.
        rb = (1 - a64[:, :3]) * (1 - a64[:, 3:4])
        rs = (1 - b64[:, :3]) * (1 - b64[:, 3:4])
        with np.errstate(all="ignore"):
            v = spec_ns(fn, rb, rs)
            offd = off_discontinuity_ns(fn, rb, rs)
        margin = TOL_SPEC_NS[fn] + 1e-5
        known_below = ~(offd & np.isfinite(v).all(axis=1) & (v.max(axis=1) <= 1 - b64[:, 3] - margin))
    check_range(ctx, st, fn, path, out, cb, cs, known_below)
    if path == "cmyk":
        check_k_rule(ctx, fn, cb, cs, out)
        check_cmyk_bound(ctx, fn, cb, cs, out)
    if path == "rgb":
        sp = spec_ns(fn, a64, b64)
        ok = off_discontinuity_ns(fn, a64, b64)
        st.excluded[key] = st.excluded.get(key, 0) + int((~ok).sum())
        dev = np.abs(out - sp).max(axis=1)
        viol = ok & ~(dev <= TOL_SPEC_NS[fn])
        good = dev[ok & ~viol]
        if good.size:
            st.up(st.max_spec, key, good.max())
        if viol.any():
            i = int(np.argmax(np.where(viol, dev, -1)))
            ctx.fail(classify_spec(fn, "rgb", None, None), f"{fn} differs from its published formula by {dev[i]:.4g}",
                     case_of(fn, path, cb, cs, i), out[i].tolist(), sp[i].tolist())
    elif fn in ("hue", "saturation", "color", "luminosity"):
        sp = spec_ns_cmyk(fn, a64, b64)
        okc = off_discontinuity_ns(fn, 1 - a64[:, :3], 1 - b64[:, :3])
        dev = np.abs(out[:, :3] - sp[:, :3]).max(axis=1)
        viol = okc & ~(dev <= TOL_SPEC_NS[fn])
        ctx.hist("cmyk_cmy_vs_pdf", f"{fn}:differs", int(viol.sum()))
        ctx.hist("cmyk_cmy_vs_pdf", f"{fn}:agrees", int((okc & ~viol).sum()))
        if viol.any():
            i = int(np.argmax(np.where(viol, dev, -1)))
            ctx.fail("C12/cmyk-wrapper/cmy-differs-from-pdf-procedure",
                     f"{fn} on CMYK: C, M, Y differ from the PDF 1.7 11.3.5.3 procedure by {dev[i]:.4g}",
                     case_of(fn, path, cb, cs, i), out[i].tolist(), sp[i].tolist())
    return out


KTOL = 1e-7
EPS_WRAPPER = 1e-9            # the literal of _rgb2cmy (regenerated: Generated/Blend.lean numericConstants)


def check_cmyk_bound(ctx, fn, cb, cs, out):
    """The explicit bound of the CMYK wrapper (search; no model involved; Props.C12.cmyk_range_bound / cmyk_full_k_is_zero):
    where the source's K is exactly 1 the result's C, M, Y are exactly 0; where K < 1 they are >= -K / (1 - K + eps) (and <= 1:
    check_range). The known finding C12/cmyk-wrapper/range/below-zero lives INSIDE this interval; a value below the bound - an
    unbounded blow-up at the boundary K = 1, a lost mask - is a failing input of its own signature."""
    ks = cs[:, 3].astype(np.float64)
    cmy = out[:, :3]
    fin = np.isfinite(cmy).all(axis=1)
    full = ks >= 1.0
    ctx.hist("cmyk_bound", f"{fn}:source-K=1", int(full.sum()))
    ctx.hist("cmyk_bound", f"{fn}:source-K<1", int((~full).sum()))
    bad1 = full & fin & (np.abs(cmy).max(axis=1) > RANGE_SLACK)
    with np.errstate(all="ignore"):
        lo = np.where(full, 0.0, -ks / (1.0 - ks + EPS_WRAPPER))
        slack = 1e-5 + 4e-6 / (1.0 - np.minimum(ks, 1.0) + EPS_WRAPPER) + 1e-5 * np.abs(lo)
    bad2 = ~full & fin & (cmy.min(axis=1) < lo - slack)
    for mask, sig, what, want in (
            (bad1, f"C12/cmyk-wrapper/range/{fn}/nonzero-cmy-at-source-K-1",
             f"{fn} on CMYK with the source's K = 1 (100 % black) returns C, M, Y other than 0: the wrapper leaves them at 0 where K is not below 1",
             "C = M = Y = 0 (cmyk_full_k_is_zero)"),
            (bad2, f"C12/cmyk-wrapper/range/{fn}/below-the-bound-of-cmyk_range_bound",
             f"{fn} on CMYK returns C, M or Y below -K / (1 - K + 1e-9), the lowest value the wrapper can produce from a blended RGB in [0,1]",
             "C, M, Y >= -K / (1 - K + 1e-9) (cmyk_range_bound)")):
        if mask.any():
            i = int(np.argmax(mask))
            ctx.fail(sig, what, case_of(fn, "cmyk", cb, cs, i), out[i].tolist(), want)


def cmyk_boundary_stream(near_one=False):
    """Seed-independent: every channel of backdrop AND source at its boundary values - C, M, Y in {0, 1/2, 1} x K in {0, 1/2, 1}
    (3^8 = 6561 ordered pairs; K = 0 and K = 1 exactly on both sides). near_one: the pairs whose source K is the float32
    just below 1 instead (search only: the quotient by 1 - K amplifies float32 rounding beyond any useful correspondence tolerance)."""
    g = [0.0, 0.5, 1.0]
    kk = [float(np.nextafter(np.float32(1), np.float32(0)))] if near_one else g
    cols_b = [(c, m, y, k) for c in g for m in g for y in g for k in g]
    cols_s = [(c, m, y, k) for c in g for m in g for y in g for k in kk]
    cb = [b for b in cols_b for _ in cols_s]
    cs = [s_ for _ in cols_b for s_ in cols_s]
    return np.array(cb, dtype=np.float32), np.array(cs, dtype=np.float32)


def check_k_rule(ctx, fn, cb, cs, out):
    """Which K a non-separable mode carries on 4-channel input (search; no model involved). PDF 1.7 11.3.5.3:
    the source's for Luminosity, the backdrop's for Hue, Saturation, Color. The code carries the source's for
    all six (Props.C12.cmyk_k_rule): for hue / saturation / color that is the known finding, function by
    function; for luminosity it is the published rule, so any other K is a failing input. Darker / Lighter
    Color have no published CMYK rule: the K must be one of the two inputs'."""
    kb, ks, ko = cb[:, 3].astype(np.float64), cs[:, 3].astype(np.float64), out[:, 3]
    differ = np.abs(kb - ks) > KTOL
    is_s = np.abs(ko - ks) <= KTOL
    is_b = np.abs(ko - kb) <= KTOL
    ctx.hist("cmyk_k_carried", f"{fn}:inputs-with-differing-K", int(differ.sum()))
    ctx.hist("cmyk_k_carried", f"{fn}:source-K", int((differ & is_s).sum()))
    ctx.hist("cmyk_k_carried", f"{fn}:backdrop-K", int((differ & is_b).sum()))

    def report(mask, sig, what, want):
        if mask.any():
            i = int(np.argmax(mask))
            exp = out[i].tolist()
            exp[3] = float(want[i])
            ctx.fail(sig, what, case_of(fn, "cmyk", cb, cs, i), out[i].tolist(), {"K": float(want[i]), "result_with_that_K": exp})

    if fn == "luminosity":
        report(differ & ~is_s & is_b, "C12/cmyk-wrapper/K/luminosity/carries-backdrop-K-instead-of-source-K",
               "luminosity on CMYK returns the backdrop's K; PDF 1.7 11.3.5.3 prescribes the source's (and the code carried it)", ks)
        report(~is_s & ~is_b, "C12/cmyk-wrapper/K/luminosity/neither-input-K",
               "luminosity on CMYK returns a K that is neither the source's nor the backdrop's", ks)
    elif fn in ("hue", "saturation", "color"):
        report(differ & is_s & ~is_b, f"C12/cmyk-wrapper/K-taken-from-source/{fn}",
               f"{fn} on CMYK returns the source's K; PDF 1.7 11.3.5.3 (and the comment above non_separable) say the backdrop's", kb)
        report(~is_s & ~is_b, f"C12/cmyk-wrapper/K/{fn}/neither-input-K",
               f"{fn} on CMYK returns a K that is neither the backdrop's nor the source's", kb)
    else:
        report(~is_s & ~is_b, f"C12/cmyk-wrapper/K/{fn}/neither-input-K",
               f"{fn} on CMYK returns a K that is neither the backdrop's nor the source's", ks)


def cmyk_k_stream():
    """Seed-independent CMYK pairs whose two K differ (and a few equal ones): every ordered pair of K values from
    {0, 1/255, 1/4, 1/2, 3/4, 254/255, 1} x a small set of C, M, Y colours (corners, greys, mixed)."""
    ks = [0.0, 1 / 255, 0.25, 0.5, 0.75, 254 / 255, 1.0]
    cols = [(0.0, 0.0, 0.0), (1.0, 1.0, 1.0), (0.5, 0.5, 0.5), (0.5, 0.25, 0.0), (0.0, 0.25, 0.75), (0.2, 0.6, 0.9), (1.0, 0.0, 0.5)]
    cb, cs = [], []
    for c1 in cols:
        for c2 in cols:
            for k1 in ks:
                for k2 in ks:
                    cb.append(c1 + (k1,))
                    cs.append(c2 + (k2,))
    return np.array(cb, dtype=np.float32), np.array(cs, dtype=np.float32)


def ns_identities(ctx, tab, rng, n):
    """luminosity(Cb, Cs) = SetLum(Cb, Lum(Cs)) = color(Cs, Cb) on 3-channel input (a consequence of the published
    formulas; Props.C12.luminosity_is_color_swapped); on 4-channel input the two agree when the two K are equal
    (luminosity_cmyk_eq_color_swapped_of_equal_k) - with differing K each carries its own source's (check_k_rule)."""
    cb, cs = ns_inputs(rng, n, 3)
    lb, ls = lattice_pairs(rng, n)
    cb, cs = np.concatenate([cb, lb]), np.concatenate([cs, ls])
    m = len(cb)
    with np.errstate(all="ignore"):
        a = np.asarray(tab["luminosity"](cb.reshape(m, 1, 3).copy(), cs.reshape(m, 1, 3).copy()), dtype=np.float64).reshape(m, -1)
        b = np.asarray(tab["color"](cs.reshape(m, 1, 3).copy(), cb.reshape(m, 1, 3).copy()), dtype=np.float64).reshape(m, -1)
    ctx.count(None, n=m)
    ctx.hist("identities", "luminosity_is_color_swapped:rgb", m)
    dev = np.abs(a - b).max(axis=1) if a.shape == b.shape else np.full(m, np.inf)
    if (~(dev <= 2e-6)).any():
        i = int(np.argmax(~(dev <= 2e-6)))
        ctx.fail("C12/identity/luminosity_is_color_swapped/rgb", "luminosity(Cb, Cs) != color(Cs, Cb) on RGB input",
                 case_of("luminosity", "rgb", cb, cs, i), a[i].tolist(), b[i].tolist())
    qb, qs = cmyk_k_stream()
    eq = qb[:, 3] == qs[:, 3]
    qb, qs = qb[eq], qs[eq]
    m = len(qb)
    with np.errstate(all="ignore"):
        a = np.asarray(tab["luminosity"](qb.reshape(m, 1, 4).copy(), qs.reshape(m, 1, 4).copy()), dtype=np.float64).reshape(m, -1)
        b = np.asarray(tab["color"](qs.reshape(m, 1, 4).copy(), qb.reshape(m, 1, 4).copy()), dtype=np.float64).reshape(m, -1)
    ctx.count(None, n=m)
    ctx.hist("identities", "luminosity_is_color_swapped:cmyk-equal-K", m)
    dev = np.abs(a - b).max(axis=1) if a.shape == b.shape else np.full(m, np.inf)
    tol = 2e-6 + 4e-6 / np.maximum(1 - qs[:, 3].astype(np.float64), 1e-9)
    if (~(dev <= tol)).any():
        i = int(np.argmax(~(dev <= tol)))
        ctx.fail("C12/identity/luminosity_is_color_swapped/cmyk-equal-K", "luminosity(Cb, Cs) != color(Cs, Cb) on CMYK input with equal K",
                 case_of("luminosity", "cmyk", qb, qs, i), a[i].tolist(), b[i].tolist())


def spec_tie_ns(ctx, drv, rng, n):
    cb, cs = lattice_pairs(rng, n)
    cb2, cs2 = ns_inputs(rng, n, 3)
    cb, cs = np.concatenate([cb, cb2]), np.concatenate([cs, cs2])
    a64, b64 = cb.astype(np.float64), cs.astype(np.float64)
    worst = 0.0
    for fn in NONSEP:
        flat = []
        for a, b in zip(cb, cs):
            flat += [fr(x) for x in a] + [fr(x) for x in b]
        a = drv.batch([("blend.nsspec", fn, *flat)])[0]
        if a[0] != "ok":
            ctx.disagree(f"Lean Spec.{fn} not evaluable: {a}", {"fn": fn})
            continue
        lean = np.array([[tofloat(x) for x in t.split(",")] for t in a[1].split(" ")])
        sp = spec_ns(fn, a64, b64)
        ok = off_discontinuity_ns(fn, a64, b64)
        d = np.where(ok, np.abs(lean - sp).max(axis=1), 0.0)
        worst = max(worst, float(d.max()))
        if (d > 1e-7).any():
            i = int(np.argmax(d))
            ctx.disagree(f"harness oracle for {fn} differs from Lean Spec.{fn}",
                         dict(case_of(fn, "rgb", cb, cs, i), lean=lean[i].tolist(), harness=sp[i].tolist()))
    ctx.extra["spec_tie_max_diff_nonsep"] = worst


def lattice_exhaustive(ctx, st, tab, block):
    """search only (no model): every pair of the 17^3 x 17^3 lattice on the RGB path"""
    g = (np.arange(17) / 16).astype(np.float32)
    lat = np.stack(np.meshgrid(g, g, g, indexing="ij"), -1).reshape(-1, 3)      # 4913 colours
    n = len(lat)
    sum_vs_lum = 0
    for fn in NONSEP:
        for k in range(0, n, block):
            cb = np.repeat(lat[k:k + block], n, axis=0)
            cs = np.tile(lat, (len(lat[k:k + block]), 1))
            ns_cases(ctx, st, None, tab, fn, "rgb", cb, cs, "lattice17-exhaustive", corr=False)
            if fn == "darker_color":
                a, b = cb.astype(np.float64), cs.astype(np.float64)
                sum_vs_lum += int(((a.sum(1) < b.sum(1)) != (s_lum(a) < s_lum(b))).sum())
    ctx.extra["darker_color_sum_reading_differs_from_lum_reading_on_lattice"] = sum_vs_lum
    return n * n


# ------------------------------------------------------------------------------------------
# purity: sequences of calls (search; no model involved)
# ------------------------------------------------------------------------------------------
PURITY_SCENARIOS = ["result-as-backdrop", "result-as-source", "result-as-both", "same-array-twice", "strided-views",
                    "held-result-after-second-call"]
NS_NAMES = set(NONSEP)


def blend_functions():
    """every distinct function object reachable through BLEND_FUNC (any key: BlendMode, descriptor Enum, bytes), with the first
    key that reaches it -> [(name, key repr, function)]"""
    from psd_tools.composite.blend import BLEND_FUNC
    seen, out = set(), []
    for k, f in BLEND_FUNC.items():
        if id(f) in seen:
            continue
        seen.add(id(f))
        out.append((getattr(f, "__name__", repr(f)), getattr(k, "name", None) or repr(k), f))
    return out


def purity_arrays(ch, dtype, shape=(2, 3)):
    """seed-independent inputs: boundary values of every channel and a few interior ones"""
    vals = np.array([0.0, 1.0, 0.5, 0.25, 0.75, 1 / 255, 254 / 255, 0.1, 0.9, 0.6, 0.3, 0.45])
    rs = np.random.RandomState(1200 + ch)
    return {k: rs.choice(vals, size=shape + (ch,)).astype(dtype).tolist() for k in ("a", "b", "a2", "b2")}


def _same(x, y):
    x, y = np.asarray(x), np.asarray(y)
    return x.shape == y.shape and bool(np.array_equal(x.astype(np.float64), y.astype(np.float64), equal_nan=True))


def purity_scenario(f, scenario, arrs, dtype):
    """One multi-call scenario on the real function -> None | (kind, observed, expected). The reference of every comparison is
    the SAME function on fresh copies of the same values (a single call on fresh arrays is what the grids above compare with
    the published formula), so no oracle of the values is needed here."""
    dt = np.dtype(dtype)
    a, b, a2, b2 = (np.array(arrs[k], dtype=dt) for k in ("a", "b", "a2", "b2"))
    fresh = lambda v: np.array(v, copy=True)

    def call_checked(x, y, role):
        """f(x, y): x, y must be unchanged afterwards and the value must be that of the call on fresh copies"""
        sx, sy = fresh(x), fresh(y)
        out = f(x, y)
        got = fresh(out)
        if not _same(x, sx):
            return ("modifies-Cb" + role, np.asarray(x).tolist(), sx.tolist())
        if not _same(y, sy):
            return ("modifies-Cs" + role, np.asarray(y).tolist(), sy.tolist())
        want = fresh(f(fresh(sx), fresh(sy)))
        if not _same(got, want):
            return ("value-differs-from-the-call-on-fresh-copies" + role, got.tolist(), want.tolist())
        return None

    with np.errstate(all="ignore"):
        if scenario == "result-as-backdrop":        # a layer stack: backdrop_{n+1} = B(backdrop_n, layer_n)
            x = np.asarray(f(a, b))
            r = call_checked(x, b2, "-when-the-backdrop-is-a-previous-result")
            return r or call_checked(np.asarray(f(x, b2)), a2, "-when-the-backdrop-is-a-previous-result")
        if scenario == "result-as-source":
            return call_checked(a2, np.asarray(f(a, b)), "-when-the-source-is-a-previous-result")
        if scenario == "result-as-both":
            return call_checked(np.asarray(f(a, b)), np.asarray(f(a2, b2)), "-when-both-arguments-are-previous-results")
        if scenario == "same-array-twice":
            sa = fresh(a)
            got = fresh(f(a, a))
            if not _same(a, sa):
                return ("modifies-the-array-passed-as-both-arguments", a.tolist(), sa.tolist())
            want = fresh(f(fresh(sa), fresh(sa)))
            return None if _same(got, want) else ("value-differs-from-the-call-on-fresh-copies-when-Cb-is-Cs", got.tolist(), want.tolist())
        if scenario == "strided-views":
            big_a, big_b = np.repeat(np.repeat(a, 2, axis=0), 2, axis=1), np.repeat(np.repeat(b, 2, axis=0), 2, axis=1)
            sa, sb = fresh(big_a), fresh(big_b)
            got = fresh(f(big_a[::2, ::2], big_b[::2, ::2]))
            if not (_same(big_a, sa) and _same(big_b, sb)):
                return ("modifies-the-array-an-argument-is-a-view-of", big_a.tolist(), sa.tolist())
            want = fresh(f(fresh(a), fresh(b)))
            return None if _same(got, want) else ("value-differs-for-non-contiguous-arguments", got.tolist(), want.tolist())
        if scenario == "held-result-after-second-call":
            r1 = f(a, b)
            snap = fresh(r1)
            r2 = f(a2, b2)
            if not _same(r1, snap):
                return ("earlier-result-changed-by-a-later-call", np.asarray(r1).tolist(), snap.tolist())
            if np.shares_memory(r1, r2):
                return ("results-of-two-calls-on-distinct-arguments-share-memory", True, False)
            return None
    raise ValueError(scenario)


def purity_held_all(funcs, ch, dtype):
    """every function called once (results KEPT), then every function called again on other arrays of the same shape: no kept
    result may have changed (a work plane shared between functions, or between calls of one function, shows here)
    -> [(name, observed, expected)]"""
    arrs = purity_arrays(ch, dtype)
    dt = np.dtype(dtype)
    held = []
    with np.errstate(all="ignore"):
        for name, _key, f in funcs:
            if ch == 1 and name in NS_NAMES:
                continue
            r = f(np.array(arrs["a"], dtype=dt), np.array(arrs["b"], dtype=dt))
            held.append((name, r, np.array(r, copy=True)))
        for name, _key, f in funcs:
            if ch == 1 and name in NS_NAMES:
                continue
            f(np.array(arrs["a2"], dtype=dt), np.array(arrs["b2"], dtype=dt))
    return arrs, [(name, np.asarray(r).tolist(), snap.tolist()) for name, r, snap in held if not _same(r, snap)]


def purity_battery(ctx):
    """C12's "pure", over call SEQUENCES: for every function of BLEND_FUNC x {1, 3, 4 channels} x {float32, float64} x scenario."""
    funcs = blend_functions()
    for ch in (1, 3, 4):
        for dtype in ("float32", "float64"):
            arrs = purity_arrays(ch, dtype)
            for name, key, f in funcs:
                if ch == 1 and name in NS_NAMES:
                    continue        # the non-separable modes are defined on colours (3 channels, or 4 through the CMYK wrapper)
                for sc in PURITY_SCENARIOS:
                    ctx.count(("purity", name, ch, dtype, sc), nontrivial=True)
                    ctx.hist("purity", sc)
                    inp = {"fn": name, "key": key, "path": "purity", "scenario": sc, "channels": ch, "dtype": dtype, "arrays": arrs}
                    try:
                        r = purity_scenario(f, sc, arrs, dtype)
                    except Exception as e:  # noqa
                        ctx.fail(f"C12/purity/{sc}/{name}/raises-{type(e).__name__}", f"{name} raises {type(e).__name__} in the call sequence "
                                 f"'{sc}' ({ch} channels, {dtype}): {str(e)[:120]}", inp, type(e).__name__, "a result")
                        continue
                    if r:
                        ctx.fail(f"C12/purity/{sc}/{name}/{r[0]}", f"{name} is not pure over the call sequence '{sc}' ({ch} channels, {dtype}): {r[0]}",
                                 inp, r[1], r[2])
            arrs, bad = purity_held_all(funcs, ch, dtype)
            ctx.count(("purity-held-all", ch, dtype), nontrivial=True)
            ctx.hist("purity", "held-results-after-calling-every-function")
            for name, got, want in bad[:3]:
                ctx.fail(f"C12/purity/held-results-after-calling-every-function/{name}/earlier-result-changed-by-a-later-call",
                         f"the array {name} returned changed while other blend functions were called ({ch} channels, {dtype})",
                         {"fn": name, "path": "purity", "scenario": "held-results-after-calling-every-function", "channels": ch,
                          "dtype": dtype, "arrays": arrs}, got, want)


# ------------------------------------------------------------------------------------------
# the check
# ------------------------------------------------------------------------------------------
def run(ctx: core.Run):
    gen = ctx.regenerate(extract_c12.gen_blend)
    ctx.prove(["PsdVerif.Props.C12"])
    ctx.trusted_base += [
        "Lean 4.33 kernel; axioms allowed: propext, Classical.choice, Quot.sound (audited per theorem)",
        "Model/Blend.lean is a hand transliteration of composite/blend.py over exact rationals; tied by this run's "
        "correspondence check against BLEND_FUNC on float32 (tolerance 1e-5) and by the regenerated tables "
        "(BLEND_FUNC keys, BlendMode members, non_separable k, numeric literals per function)",
        "Spec (Model/Blend.lean, namespace Spec) and the harness's float64 oracle: two transcriptions of PDF 1.7 11.3.5 / "
        "W3C Compositing and Blending 1 / Adobe's mode descriptions, compared with each other on every run",
        "harness/extract_c12.py",
        "Mathlib's ordered-field structure on core Rat",
    ]
    ctx.assumptions += [
        "float32 arithmetic of NumPy is within 1e-5 of exact arithmetic on these formulas (measured on every run, not proved)",
        "np.sqrt: the theorems take sqrt as a parameter sq with Cb <= sq Cb <= 1 (or 0 <= sq Cb and (sq Cb)^2 = Cb); "
        "the driver uses floor(sqrt(x)*10^12)/10^12",
        "offDiscontinuity (delta = 1/65535): a denominator of the published formula that is not 0 is >= delta - true of all 8/16-bit data",
        "Darker/Lighter Color: 'value' of a colour read as Lum (Photoshop's behaviour), not as the plain channel sum of Adobe's help text",
    ]
    tab = table()
    missing = [f for f in SEP + NONSEP if f not in tab]
    if missing:
        ctx.disagree("functions not reachable through a BlendMode key of BLEND_FUNC: %s" % missing, None)
        return
    _descriptor_keys(ctx, tab)
    drv = ctx.driver()
    rng = ctx.rng
    st = Stats()
    quick = ctx.quick

    # ---- corpus (past failures and the witnesses of the known findings) first
    corpus = json.loads((core.VERIF / "harness" / "corpus" / "C12.json").read_text())
    for c in corpus:
        run_case(ctx, st, drv, tab, c)

    # ---- separable: grids
    if quick:
        forced = {0, 1, 2, 5, 63, 64, 127, 128, 191, 192, 253, 254, 255}
        rows = sorted(forced | set(rng.sample(range(256), 64 - len(forced))))[:64]
        while len(rows) < 64:
            r = rng.randrange(256)
            if r not in rows:
                rows.append(r)
        rows = sorted(rows)
    else:
        rows = range(256)
        ctx.exhaustive = True
    sep_grid(ctx, st, drv, tab, 255, rows, "grid255")
    sep_grid(ctx, st, drv, tab, 64, range(65), "grid64-dyadic")
    sep_random(ctx, st, drv, tab, rng, 3000 if quick else 40000)
    identities(ctx, tab, 255)
    spec_tie_sep(ctx, drv, rng, 400)

    # ---- non-separable
    n_lat = 1500 if quick else 30000
    n_rnd = 1500 if quick else 30000
    for fn in NONSEP:
        cb, cs = lattice_pairs(rng, n_lat)
        ns_cases(ctx, st, drv, tab, fn, "rgb", cb, cs, "lattice17-sample")
        cb, cs = ns_inputs(rng, n_rnd, 3)
        ns_cases(ctx, st, drv, tab, fn, "rgb", cb, cs, "random")
        cb, cs = cmyk_k_stream()
        ns_cases(ctx, st, drv, tab, fn, "cmyk", cb, cs, "differing-K-matrix")
        cb, cs = cmyk_boundary_stream()
        ns_cases(ctx, st, drv, tab, fn, "cmyk", cb, cs, "boundary-lattice")
        cb, cs = cmyk_boundary_stream(near_one=True)
        ns_cases(ctx, st, None, tab, fn, "cmyk", cb, cs, "boundary-lattice-K-just-below-1", corr=False)
        cb, cs = ns_inputs(rng, n_rnd, 4)
        ns_cases(ctx, st, drv, tab, fn, "cmyk", cb, cs, "random")
    ns_identities(ctx, tab, rng, 2000 if quick else 30000)
    purity_battery(ctx)
    spec_tie_ns(ctx, drv, rng, 300)
    if quick:
        for fn in NONSEP:
            cb, cs = lattice_pairs(rng, 150000)
            ns_cases(ctx, st, None, tab, fn, "rgb", cb, cs, "lattice17-search-sample", corr=False)
        ctx.skipped.append("quick tier: the 17^3 x 17^3 lattice is sampled (150000 pairs per mode for the search, "
                           "1500 for the correspondence); the thorough tier runs the search on all 24 137 569 pairs")
    else:
        total = lattice_exhaustive(ctx, st, tab, 64)
        ctx.extra["lattice17_pairs_searched_per_mode"] = total

    ctx.extra["max_abs_diff_model_vs_impl"] = {k: round(v, 10) for k, v in sorted(st.max_corr.items())}
    ctx.extra["max_abs_diff_impl_vs_published"] = {k: round(v, 10) for k, v in sorted(st.max_spec.items())}
    ctx.extra["excluded_by_offDiscontinuity"] = st.excluded
    ctx.extra["near_discriminant_cases"] = st.near
    ctx.extra["max_range_overshoot_within_slack"] = st.overshoot
    ctx.extra["tolerances"] = {"model_vs_impl": TOL_CORR, "impl_vs_published_separable": TOL_SPEC_SEP,
                               "impl_vs_published_nonseparable": TOL_SPEC_NS, "delta": DELTA, "range_slack": RANGE_SLACK,
                               "near_discriminant": NEAR}
    ctx.extra["generated_tables"] = {k: (v if k != "numericConstants" else "see Generated/Blend.lean") for k, v in gen.items()}
    ctx.model_coverage = {
        "modelled": SEP + NONSEP + ["dissolve (= normal)", "_lum", "_sat", "_set_lum", "_clip_color", "_set_sat",
                                   "non_separable (CMYK wrapper)", "_cmyk2rgb", "_rgb2cmy", "BLEND_FUNC keys"],
        "opaque": ["float32 rounding", "np.sqrt", "array aliasing / in-place writes (checked by snapshots in the search)"],
    }
    ctx.rule = (
        "separable: every cell of the 8-bit grid rows listed (all 256 rows in the thorough tier, 64 rows x 256 columns in the "
        "quick tier incl. rows 0,1,63,64,127,128,254,255), the dyadic 65x65 grid (contains 0, 0.25, 0.5, 1 exactly), random float32 "
        "pairs incl. 0, 1, 0.5, 0.25 and their float32 neighbours, complementary and equal pairs; non-separable: sampled pairs of the "
        "17^3 lattice, random / grey / tied / primary triples on the RGB and the CMYK path, and a seed-independent CMYK matrix "
        "(7 colours x 7 colours x every ordered pair of K in {0, 1/255, 1/4, 1/2, 3/4, 254/255, 1}) on which the K carried, the partial "
        "range clause, the explicit bound and purity are evaluated, the boundary lattice of every CMYK channel ({0, 1/2, 1}^4 for backdrop x source: 6561 "
        "pairs, + source K just below 1), and the purity battery over call sequences (every function x 1/3/4 channels x float32/float64 x 7 scenarios); search additionally over the whole "
        "17^3 x 17^3 lattice (thorough). distinct = distinct (function, grid, row) or (function, path, batch) keys; every case "
        "is non-trivial (each is one evaluation of a blend function on the real code)."
    )
    ctx.notes += NOTES
    other = dict(gen["blendFuncOtherKeys"])
    if "b'ligherColor'" in other and "b'lighterColor'" not in other:
        ctx.notes.append("observation (outside the property's quantifier): BLEND_FUNC has the descriptor key b'ligherColor' "
                         "(sic); a lookup of b'lighterColor' falls back to normal")
    if ctx.tier == "thorough":
        ctx.recheck(["PsdVerif.Props.C12"])


NOTES = [
    "proved (Props/C12.lean): <mode>_range for all 20 separable and 6 non-separable modes (RGB path), <mode>_defined for every "
    "function that divides (all denominators > 0 on the domain), <mode>_near_spec for all 26 modes (exact equality for 17 modes and "
    "soft light after the repair; |B - Spec.B| <= tol delta = eps/delta for color dodge, color burn, vivid light, divide; exact off the "
    "line Cb + Cs = 1 for hard mix; 10 eps for color, luminosity; hueTol delta for hue, saturation), the six identities, the "
    "BLEND_FUNC / BlendMode / non_separable(k) / numeric-literal ties, offDisc_*_of_grid (the offDiscontinuity hypotheses hold on every "
    "k/N grid with N <= 65535, except (0,0) for divide and the line a + b = N for hard mix)",
    "stated in DESIGN, not proved as stated: theorems are over Rat (core Lean), not over an arbitrary ordered field K - the Model files "
    "may not import Mathlib's field classes; consequence: the sqrt hypotheses of soft_light_range are pointwise (0 <= sq Cb, "
    "(sq Cb)^2 = Cb, satisfiable at rational squares only) and the generally satisfiable form is soft_light_range_of_bounds "
    "(Cb <= sq Cb <= 1); soft_light_near_spec needs no hypothesis on sqrt (code and published formula use it in the same place)",
    "stated in DESIGN, FALSE on the code, not provable: <mode>_range and <mode>_near_spec on the CMYK path of the six non-separable "
    "modes: cmyk_range_violated (witness), cmyk_range_partial, cmyk_k_is_source_k / cmyk_k_rule; known findings C12/cmyk-wrapper/* "
    "(range below zero; C, M, Y not the PDF procedure; K of the source for hue, saturation, color - one signature per function)",
    "CMYK path, the clauses that DO hold are searched on the real code: (a) which K is carried - the source's, function by function "
    "(tied: non_separable_k_per_function / non_separable_decorated_exactly; for luminosity this is the published rule, so a luminosity "
    "that carries another K is a failing input of its own signature); (b) cmyk_range_partial - C, M, Y may only fall below zero where "
    "the blended RGB exceeds 1 - K of the source; (c) luminosity(Cb, Cs) = color(Cs, Cb) on RGB and on CMYK with equal K "
    "(luminosity_is_color_swapped, luminosity_cmyk_eq_color_swapped_of_equal_k; luminosity_cmyk_ne_color_swapped shows it fails with differing K)",
    "hue/saturation: hueTol(1/65535) = 1.33e-3 is the proved worst case (Lipschitz constant 2(1+100/11) of the published SetLum); the "
    "largest deviation observed on the 17^3 x 17^3 lattice is about 1.4e-6",
    "purity (arguments unmodified) is checked by snapshots in the search; normal and dissolve return the source array itself "
    "(result_memory histogram) - the property only forbids modifying the arguments, so this is information",
    "purity over call SEQUENCES (purity_battery; search, no model): for every function object reachable through BLEND_FUNC x {1, 3, 4 "
    "channels} x {float32, float64}: the first of two results is kept and must be unchanged after the second call - and after every other "
    "function was called (a work plane shared between calls or between functions); a result fed back as backdrop (a layer stack), as "
    "source, as both; the same array as both arguments; strided views; results of calls on distinct arguments must not share memory. The "
    "reference of every comparison is the same function on fresh copies, so no oracle of the values is involved",
    "CMYK path, explicit bound (cmyk_range_bound / cmyk_full_k_is_zero, searched by check_cmyk_bound on every CMYK case incl. the seed-"
    "independent boundary lattice {0, 1/2, 1}^4 x {0, 1/2, 1}^4 and source K just below 1): C = M = Y = 0 exactly where the source's K = 1; "
    ">= -K / (1 - K + 1e-9) elsewhere. The known finding C12/cmyk-wrapper/range/below-zero lives inside this interval; a value below it "
    "has a signature of its own (C12/cmyk-wrapper/range/<fn>/nonzero-cmy-at-source-K-1, .../below-the-bound-of-cmyk_range_bound)",
    "Darker/Lighter Color: the published definition is read with Lum as the 'value' of a colour; under the literal reading of Adobe's "
    "help text (plain sum of the channels) the code differs on 17 % of the 17^3 x 17^3 lattice pairs "
    "(darker_color_sum_reading_differs_from_lum_reading_on_lattice, thorough tier)",
]


def run_case(ctx, st, drv, tab, c):
    fn, path = c["fn"], c["path"]
    if path == "sep":
        cb = np.array(c["cb"], dtype=np.float32)
        cs = np.array(c["cs"], dtype=np.float32)
        flat = [x for a, b in zip(cb, cs) for x in (fr(a), fr(b))]
        a = drv.batch([("blend.sep", fn, *flat)])[0]
        if a[0] != "ok":
            ctx.disagree(f"{fn}: model answers {a} on corpus case", c)
            return
        vals = [t.partition(";") for t in a[1].split(" ")]
        model = np.array([tofloat(v[0]) for v in vals])
        margin = np.array([np.inf if v[2] == "-" else tofloat(v[2]) for v in vals]) if fn == "hard_mix" else None
        sep_cases(ctx, st, drv, tab, fn, cb, cs, model, margin, "corpus")
    else:
        cb = np.array([c["cb"]], dtype=np.float32)
        cs = np.array([c["cs"]], dtype=np.float32)
        ns_cases(ctx, st, drv, tab, fn, path, cb, cs, "corpus")


def replay(ctx, data):
    inp = data.get("input") or {}
    print("replaying", data.get("signature"))
    tab = table()
    fn, path = inp.get("fn"), inp.get("path")
    if fn in ("normal_src", "multiply_white", "screen_black", "darken_self", "lighten_self", "overlay_is_hardlight_swapped"):
        identities(ctx, tab, 255)
        print("identity failures:", [f["signature"] for f in ctx.failures])
        return 0
    if path == "purity":
        funcs = blend_functions()
        sc, ch, dtype = inp["scenario"], inp["channels"], inp["dtype"]
        if sc == "held-results-after-calling-every-function":
            _, bad = purity_held_all(funcs, ch, dtype)
            print("held results that changed:", [(n, got, want) for n, got, want in bad][:3] or "none")
        else:
            f = [g for n, _k, g in funcs if n == fn]
            print("no such function in BLEND_FUNC:" if not f else f"{fn} / {sc} / {ch} channels / {dtype}:",
                  fn if not f else purity_scenario(f[0], sc, inp["arrays"], dtype))
        print("expected:", data.get("expected"))
        return 0
    if fn not in tab:
        print("no such function in BLEND_FUNC:", fn)
        return 0
    cb = np.array(inp["cb"], dtype=np.float32)
    cs = np.array(inp["cs"], dtype=np.float32)
    if path == "sep":
        a, b = cb.reshape(-1, 1), cs.reshape(-1, 1)
    else:
        a, b = cb.reshape(1, 1, -1), cs.reshape(1, 1, -1)
    a0, b0 = a.copy(), b.copy()
    with np.errstate(all="ignore"):
        out = tab[fn](a, b)
    print(f"{fn}({cb.tolist()}, {cs.tolist()}) -> {np.asarray(out).reshape(-1).tolist()}")
    print("arguments modified:", not (np.array_equal(a, a0) and np.array_equal(b, b0)))
    if path == "sep":
        print("published formula:", spec_sep(fn, cb.astype(np.float64), cs.astype(np.float64)).tolist())
    elif path == "rgb":
        print("published formula:", spec_ns(fn, a0.astype(np.float64).reshape(1, 3), b0.astype(np.float64).reshape(1, 3)).tolist())
    elif fn in ("hue", "saturation", "color", "luminosity"):
        print("PDF 1.7 CMYK procedure:", spec_ns_cmyk(fn, a0.astype(np.float64).reshape(1, 4), b0.astype(np.float64).reshape(1, 4)).tolist())
    print("expected:", data.get("expected"))
    return 0
