"""C03 - written files are self-consistent: every length, count and alignment is truthful.

Proof: lean/PsdVerif/Props/C03.lean (written counts, walker acceptance, channel lengths, 8-byte key set).
Correspondence/search: the LEAN walker (Model/Walker.lean, written from the Adobe specification) is run on
bytes produced by PYTHON for every writer entry point reached here: generated structures, re-saved fixtures x
padding, API-created documents. A walker failure on Python output is a failing input by construction.
The Photoshop-written fixtures themselves are walked too: that validates the transcription of the
specification (a failure there is a disagreement, not a violation).
"""
from __future__ import annotations

import collections
import io
import struct
import time
import zlib

import core
import codec_common as cc
import extract_c01
import gen_c01
import skel
from core import hx, unhx

UNCONFIRMED = [b"FELS", b"artd", b"extd", b"extn", b"lnk3"]
OBSERVED = {b"cinf": "layers/pattern-fill.psb", b"lnkE": "placedLayer.psb", b"pths": "unicode_pathname.psb"}


# ---------------------------------------------------------------------------------------------
# Python-side checks on top of the walker's regions (pixel payloads are opaque to the Lean walker)
# ---------------------------------------------------------------------------------------------
def image_data_problem(data: bytes, hdr, region):
    """hdr = (version, channels, height, width, depth, mode); region = (offset, length) of the image data.
    -> None | (kind, observed, expected)"""
    version, channels, height, width, depth, _ = hdr
    off, ln = region
    if ln < 2:
        return ("truncated", ln, ">= 2")
    comp = struct.unpack(">H", data[off:off + 2])[0]
    body = data[off + 2:off + ln]
    rows = channels * height
    rowbytes = (width * depth + 7) // 8
    if comp == 0:
        if len(body) != rows * rowbytes:
            return ("raw-size", len(body), rows * rowbytes)
    elif comp == 1:
        w = 2 if version == 1 else 4
        if len(body) < rows * w:
            return ("rle-row-table-truncated", len(body), rows * w)
        fmt = ">%d%s" % (rows, "H" if w == 2 else "I")
        table = struct.unpack(fmt, body[:rows * w])
        if sum(table) + rows * w != len(body):
            # how many planes would make it consistent?
            planes = None
            for k in range(1, 60):
                r2 = k * height
                if len(body) >= r2 * w:
                    t2 = struct.unpack(">%d%s" % (r2, "H" if w == 2 else "I"), body[:r2 * w])
                    if sum(t2) + r2 * w == len(body):
                        planes = k
                        break
            return ("rle-row-table-sum", {"size": len(body), "planes_that_fit": planes}, {"planes": channels})
    elif comp in (2, 3):
        try:
            raw = zlib.decompress(body)
        except zlib.error:
            return ("zip-undecodable", len(body), "a zlib stream")
        if len(raw) != rows * rowbytes:
            return ("zip-size", len(raw), rows * rowbytes)
    return None


def channel_rle_problems(data: bytes):
    """per-channel RLE row tables of the layer channel data (dimensions taken from the records as psd-tools
    reads them back): the counts must sum to the compressed size. -> list of problems"""
    r = cc.read_doc(data)
    if r[0] != "ok":
        return []
    doc = r[1]
    out = []
    lam = doc.layer_and_mask_information
    infos = []
    if lam.layer_info is not None:
        infos.append(lam.layer_info)
    if lam.tagged_blocks:
        for k in (b"Lr16", b"Lr32"):
            if k in lam.tagged_blocks and hasattr(lam.tagged_blocks[k].data, "layer_records"):
                infos.append(lam.tagged_blocks[k].data)
    w = 2 if doc.header.version == 1 else 4
    for li in infos:
        if not li.layer_records or not li.channel_image_data:
            continue
        for rec, chans in zip(li.layer_records, li.channel_image_data):
            for ci, ch in zip(rec.channel_info, chans):
                if int(ch.compression) != 1:
                    continue
                cid = int(ci.id)
                if cid == -2 and rec.mask_data is not None:
                    h = max(rec.mask_data.bottom - rec.mask_data.top, 0)
                elif cid == -3 and rec.mask_data is not None and rec.mask_data.real_top is not None:
                    h = max(rec.mask_data.real_bottom - rec.mask_data.real_top, 0)
                else:
                    h = max(rec.bottom - rec.top, 0)
                body = ch.data
                if len(body) < h * w:
                    out.append(("channel-rle-row-table-truncated", len(body), h * w))
                    continue
                table = struct.unpack(">%d%s" % (h, "H" if w == 2 else "I"), body[:h * w])
                if sum(table) + h * w != len(body):
                    out.append(("channel-rle-row-table-sum", len(body), sum(table) + h * w))
    return out


def parse_walk(a):
    """driver answer -> ('ok', hdr tuple, end, regions) | ('err', section, pos, reason)"""
    if a[0] == "ok":
        hdr = tuple(int(x) for x in a[1].split())
        regs = []
        for t in (a[3].split() if len(a) > 3 else []):
            o, l, k = t.split(":", 2)
            regs.append((int(o), int(l), k))
        return ("ok", hdr, int(a[2]), regs)
    return ("err", a[1], int(a[2]), a[3])


def slug(s):
    return "".join(c if c.isalnum() else "-" for c in s.lower()).strip("-")[:60]


def odd_record_block(doc):
    lam = doc.layer_and_mask_information
    if lam.layer_info is None or not lam.layer_info.layer_records:
        return False
    v = doc.header.version
    for rec in lam.layer_info.layer_records:
        for t in skel.tagged_items(rec.tagged_blocks):
            if len(skel.payload_bytes(t.data, padding=4, version=v)) % 2:
                return True
    return False


def unconfirmed_key(doc):
    if doc.header.version != 2:
        return None
    lam = doc.layer_and_mask_information
    blocks = []
    if lam.tagged_blocks:
        blocks += skel.tagged_items(lam.tagged_blocks)
    if lam.layer_info is not None and lam.layer_info.layer_records:
        for rec in lam.layer_info.layer_records:
            blocks += skel.tagged_items(rec.tagged_blocks)
    for t in blocks:
        if skel.keyv(t.key) in UNCONFIRMED:
            return skel.keyv(t.key)
    return None


def run(ctx: core.Run):
    t0 = time.time()
    tables = ctx.regenerate(extract_c01.gen_codec) or {}     # a reshaped source is a broken tie, never exit 2
    import c03_modes
    import logging as _logging
    _lvl = _logging.root.manager.disable
    _logging.disable(_logging.CRITICAL)          # the creation entry points log a warning per call
    try:
        creation = ctx.regenerate(c03_modes.gen_creation) or []
    finally:
        _logging.disable(_lvl)
    ctx.extra["creation_table_rows"] = len(creation)
    ctx.extra["save_shape"] = ctx.regenerate(c03_modes.gen_save_shape)
    ctx.prove(["PsdVerif.Props.C03", "PsdVerif.Props.C03Pixels", "PsdVerif.Props.C03Creation", "PsdVerif.Props.C03Payload"])
    import c03_payload
    recorder = c03_payload.Recorder().install()      # every file the skeleton walker accepts goes to the payload walkers too
    ctx._payload_recorder = recorder
    try:
        _run_rest(ctx, tables, creation, t0, c03_modes, _logging, _lvl)
        c03_payload.run(ctx, cc.fixtures(), recorder)
    finally:
        recorder.remove()


def _run_rest(ctx, tables, creation, t0, c03_modes, _logging, _lvl):
    ctx.trusted_base += [
        "Lean 4.33 kernel; axioms allowed: propext, Classical.choice, Quot.sound (audited per theorem)",
        "Model/Walker.lean: my transcription of the Adobe Photoshop File Formats Specification (sources and the three "
        "deviations from its text are recorded in the file header); validated on every run against the Photoshop-written fixtures",
        "Model/Psd.lean as the model of the writer: tied to psd-tools by the C01 correspondence (run ./check C01)",
        "harness/extract_c01.py: TaggedBlock._BIG_KEYS and the signature/compression tables regenerated from the live classes",
        "harness/c03_modes.py: the creation table (one row per creation entry point x accepted mode) is MEASURED on the live "
        "code with a 9 x 1 RAW raster, not derived from the source text; Model/Creation.lean's colour-plane table is my "
        "transcription of the specification's header table",
    ]
    ctx.trusted_base += [
        "Model/WalkerPayload.lean: my transcription of the payload layouts of the Adobe specification (descriptor structure, "
        "strings, effects layer, patterns, linked layers, filter effects, paths, slices, type tool ...); eight recorded deviations "
        "(D1..D8 in the file header); validated on every run against every payload of the Photoshop-written fixtures",
        "harness/c03_payload.py: a rejection inside a block whose data the caller supplied as raw bytes (recorded by wrapping "
        "TaggedBlock.write / ImageResource.write in-process) is attributed to the caller, not to the library",
    ]
    ctx.assumptions += [
        "payload interiors of the classes without a walker (fixed layouts, free text: engine data, annotations, adjustment "
        "records, compressed pixels) are walked only to their declared length",
        "RLE row tables and merged-image plane counts are checked by Python code in this harness, not by a theorem (C04/C17 own them)",
    ]
    quick = ctx.quick
    rng = ctx.rng
    import warnings
    warnings.simplefilter("ignore")

    jobs = []       # (label, scenario, bytes, doc-or-None, expected-signature-or-None)

    # ------------------------------------------------------------------ corpus of past failures / witnesses
    corpus_file = core.VERIF / "harness" / "corpus" / "C03.json"
    if corpus_file.exists():
        import json
        for k, e in enumerate(json.loads(corpus_file.read_text())):
            jobs.append(("corpus#%d:%s" % (k, e.get("note", "")), "corpus", unhx(e["file"]), e.get("expect"), False))

    # ------------------------------------------------------------------ generated structures
    fx_all = cc.fixtures()
    fx_small = [f for f in fx_all if f.stat().st_size <= 60000]
    pool = gen_c01.harvest(fx_small[: (40 if quick else 300)])
    g = gen_c01.Gen(rng, pool)
    n = 60 if quick else 1500
    for i in range(n):
        doc, enc, _ = g.document(typed=(i % 2 == 0))
        pad = [1, 2, 4][i % 3]
        w = cc.write_doc(doc, enc, pad)
        if w[0] != "ok":
            ctx.hist("generated_write_failed", w[1])
            continue
        exp = None
        try:
            uk = unconfirmed_key(doc)
            if uk:
                exp = "C03/bigkeys/unconfirmed-8-byte-key"
            elif odd_record_block(doc):
                exp = "C03/tagged-block/odd-length-in-layer-record"
        except Exception:
            pass
        jobs.append(("generated#%d" % i, "generated/v%d/pad%d" % (doc.header.version, pad), w[1], exp, False))

    # ------------------------------------------------------------------ fixtures: originals and re-saved
    fx = fx_small[:20] if quick else fx_all
    for f in fx:
        b = f.read_bytes()
        jobs.append((f.name, "fixture-original", b, None, True))
        r = cc.read_doc(b)
        if r[0] != "ok":
            continue
        for pad in ((4,) if quick else (1, 2, 4)):
            w = cc.write_doc(r[1], "macroman", pad)
            if w[0] == "ok":
                jobs.append((f.name, "fixture-resaved/pad%d" % pad, w[1], None, True))

    # ------------------------------------------------------------------ API-created documents
    for label, scen, b in api_documents(ctx, fx_small):
        jobs.append((label, scen, b, None, True))

    answers = cc.pbatch([("psd.walk", hx(j[2])) for j in jobs])
    for (label, scen, b, exp, pixels), a in zip(jobs, answers):
        ctx.corr_cases += 1
        ctx.count((scen.split("/")[0], label, len(b)), nontrivial=True)
        ctx.hist("scenario", scen.split("#")[0])
        r = parse_walk(a)
        original = scen == "fixture-original"
        if r[0] == "ok" and r[2] == len(b):
            ctx.hist("walker", "accepts")
            if exp and not original:
                ctx.hist("walker", "accepts-although-outside-SpecShaped")
            # pixel-level consistency (Python only): merged image against the header, channel row tables
            if pixels:
                hdr = r[1]
                img = [x for x in r[3] if x[2] == "image-data"]
                prob = image_data_problem(b, hdr, img[0][:2]) if img else ("no-image-data-region", None, None)
                probs = [prob] if prob else []
                probs += channel_rle_problems(b)[:1]
                for pr in probs:
                    if original:
                        ctx.disagree("pixel check fails on a Photoshop-written fixture (the check is wrong)",
                                     {"file": label, "problem": pr})
                        continue
                    plane = hdr[2] * ((hdr[3] * hdr[4] + 7) // 8)
                    # a whole number of planes, but not header.channels of them
                    one_more = (pr[0] == "rle-row-table-sum" and isinstance(pr[1], dict)
                                and pr[1].get("planes_that_fit") not in (None, hdr[1])) or \
                               (pr[0] in ("raw-size", "zip-size") and plane > 0 and isinstance(pr[1], int)
                                and pr[1] % plane == 0 and pr[1] // plane != hdr[1])
                    if one_more and scen.startswith("api/edit-then-save"):
                        sig = "C03/merged-image/plane-count-mismatch-after-edit"
                    else:
                        sig = f"C03/pixels/{pr[0]}/{scen.split('/')[0]}"
                    ctx.fail(sig, "size of stored pixel data disagrees with what the header / record declares",
                             {"scenario": scen, "label": label, "file": hx(b) if len(b) < 200000 else None},
                             {"problem": pr[0], "observed": pr[1]}, pr[2])
            continue
        # the walker fell off (or did not end at the end of the file)
        if r[0] == "ok":
            sect, pos, reason = "end", r[2], "walk ends before the end of the file"
        else:
            _, sect, pos, reason = r
        ctx.hist("walker", f"falls-off:{sect}")
        if original:
            ctx.disagree("the specification walker rejects a Photoshop-written fixture (transcription of the spec is wrong)",
                         {"file": label, "section": sect, "pos": pos, "reason": reason})
            continue
        sig = exp or f"C03/walker/{sect}/{slug(reason)}"
        ctx.fail(sig, "the format walker falls off a file written by psd-tools",
                 {"scenario": scen, "label": label, "file": hx(b) if len(b) < 200000 else None},
                 {"section": sect, "pos": pos, "reason": reason}, "walker visits every section and stops at the file size")

    # ------------------------------------------------------------------ witnesses of the two known findings, every run
    for name, mk in (("odd-block", witness_odd_block), ("unconfirmed-key", witness_unconfirmed_key)):
        doc, sig = mk(g)
        w = cc.write_doc(doc, "macroman", 4)
        a = cc.pbatch([("psd.walk", hx(w[1]))])[0]
        r = parse_walk(a)
        ctx.corr_cases += 1
        ctx.hist("witness", name + (":rejected" if r[0] == "err" else ":accepted"))
        if r[0] == "err":
            ctx.fail(sig, "the format walker falls off a file written by psd-tools",
                     {"scenario": "witness/" + name, "file": hx(w[1])},
                     {"section": r[1], "pos": r[2], "reason": r[3]}, "walker visits every section and stops at the file size")

    # ------------------------------------------------------------------ evidence for the observed 8-byte keys
    ev = observed_key_evidence()
    ctx.extra["observed_8_byte_keys_evidence"] = ev
    for k, e in ev.items():
        if not e.get("eight_byte_confirmed"):
            ctx.disagree("fixture evidence for an observed 8-byte key is gone", {"key": k, "evidence": e})
    code_big = set(tables.get("bigKeys", []))
    ctx.extra["bigKeys"] = {
        "code (_BIG_KEYS)": sorted(code_big),
        "adobe_spec_text": "LMsk Lr16 Lr32 Layr Mt16 Mt32 Mtrn Alph FMsk lnk2 FEid FXid PxSD".split(),
        "observed_in_photoshop_fixtures": sorted(k.decode() for k in OBSERVED),
        "unconfirmed (in code only)": sorted(k.decode() for k in UNCONFIRMED),
    }
    ctx.rule = (
        "one case = one file written by Python and walked by the Lean walker: generated documents (real classes, version 1/2 x "
        "padding 1/2/4, typed payloads in every second one), fixtures re-saved x padding, API-created documents (PSDImage.new / "
        "frompil x colour modes, PixelLayer.frompil, Group.new, edit-then-save of an opened fixture), plus the Photoshop-written "
        "fixtures themselves (validation of the walker). All cases are non-trivial; distinct = distinct (scenario, label, size).")
    ctx.model_coverage = {
        "walked by length only (opaque)": ["tagged-block data of keys without a payload walker", "image-resource data of ids "
                                           "without a payload walker", "mask data / blending ranges interiors",
                                           "channel data", "image data"],
        "payload interiors walked (Model/WalkerPayload.lean) - proved against the PCodec writers (Props/C03Payload.lean)": [
            "unicode / Pascal strings", "descriptor keys", "descriptor structure, all 25 OSType classes",
            "DescriptorBlock / DescriptorBlock2 payloads", "effects layer (lrFX)", "unicode-string block (luni)"],
        "payload interiors walked - correspondence and search only": [
            "Lr16 / Lr32 / Layr nested layer info (every level: walkDeep)", "patterns + virtual memory arrays", "linked layers",
            "filter effects", "path records (resources 2000-2997, 1025; vmsk / vsms)", "slices", "URL list", "alpha names",
            "layer group / selection ids", "grid and guides", "version info", "thumbnails", "type tool", "smart-object / placed "
            "layer data", "metadata items (shmd)", "stroke content (vscg)", "colour lookup (clrL)"],
        "proved on the composed models (Props/C03Pixels.lean) and checked in Python on real files": [
            "merged image RLE row table (channels*height entries)", "layer channel RLE row tables", "channel lengths vs stored data"],
    }
    ctx.notes += [
        "Props/C03Payload.lean: payload_walker_accepts_* (walker o writer for strings, keys, the whole descriptor family, "
        "descriptor-block payloads, effects layer, luni), payload_lengths_truthful_*, typed_block_payload_walks_* (every Lr16/Lr32 "
        "nesting level) and lengths_truthful_typed; five `*_rejected` witnesses (astral count in characters, clamped Pascal length, "
        "4-byte for 8-byte length, count including a trailer, descriptor count off by one). Stated in the task, not proved: "
        "walker acceptance for patterns / linked layers / filter effects / paths / slices / type tool / LayerInfoBlock payloads and "
        "the recursion of walkDeep - those are tied by running the same Lean walkers on fixtures and on library-written bytes.",
        "The payload walkers do not judge values (version numbers, enum members): only what decides where the next field is. "
        "Instances of payload-gen that the library itself does not read back as written (a count attribute contradicting its own "
        "list, a zero-length descriptor key) are not offered to the walkers: the format cannot hold them (C01 owns them).",
        "walker_accepts is partial: it needs SpecShaped (even-length tagged blocks in layer records; in a PSB no key outside "
        "the specification's + fixture-observed 8-byte list). Witness theorems walker_rejects_* and two known findings cover the rest.",
        "bigKeys_match_spec at full strength is false at this commit (bigKeys_not_spec): _BIG_KEYS has 5 keys (FELS, artd, extd, "
        "extn, lnk3) with no support in the specification or in a Photoshop-written fixture; 3 more (cinf, lnkE, pths) are "
        "absent from the Adobe text but stored with 8-byte lengths in fixtures (evidence re-checked by this run).",
        "C03/merged-image/plane-count-mismatch-after-edit is C17's defect (PSDImage.save after a structural edit of an RGB "
        "document stores 4 planes in a 3-channel file); it is registered as known here only for the edit-then-save scenario.",
        "Now theorems (Props/C03Pixels.lean, composing the C03/C04/C05/C17 models): rle_rowtable_shape (+ rle_rows_expand, "
        "channel_set_data_rle, image_set_data_rle: exactly h / channels*h big-endian entries of 2|4 bytes, entry i = size of the "
        "PackBits row i, sum = compressed size - table, rows expand to rowSize bytes), channel_length_is_stored_size and "
        "walker_channel_boundaries (ChannelInfo.length = 2 + stored data after _update_channel_length; the walker's channel "
        "steps delimit exactly compression ++ data and land on the next channel), sections_add_up, lengths_truthful (the walker "
        "reports exactly the regions of fileSpans and each delimits the encoding of its sub-value), prefix_* (every length "
        "prefix = size of what follows up to the documented padding), merged_rle_table (channels*height entries after an "
        "edit-then-save with RLE). The Python readings of row tables / plane counts in c03_extra.py remain as the search oracle.",
        "lengths_truthful carries the hypotheses of walker_accepts (WF, SpecShaped; witness lengths_truthful_needs_shape); "
        "rle_rows_expand carries the row geometry of C04 (witness rle_short_raster_row); channel_length_is_stored_size carries "
        "LayerInfo.WF (witness channel_length_stale_without_data: zip semantics leave a stale length on a channel info without data).",
    ]
    # ------------------------------------------------------------------ widened entry points and oracles (c03_extra.py)
    import c03_extra
    c03_extra.run_extra(ctx, tables, fx_all, jobs, answers)
    ctx.extra["phase_seconds"] = round(time.time() - t0, 1)
    if ctx.tier == "thorough":
        ctx.recheck(["PsdVerif.Props.C03", "PsdVerif.Props.C03Pixels", "PsdVerif.Props.C03Creation", "PsdVerif.Props.C03Payload"])
    # ---- the written-count clause on type-directed payload variants; more writer entry points (deep documents with
    # re-encoded channels, documents with extra channels edited then saved)
    # (the payload walkers take the payload-gen instances through c03_payload.run_generated, which keeps the instances the
    # format can hold: not through the recorder)
    c03_payload_recorder = getattr(ctx, "_payload_recorder", None)
    if c03_payload_recorder is not None:
        c03_payload_recorder.enabled = False
    try:
        __import__("payload_gen").run_c03(ctx)
    finally:
        if c03_payload_recorder is not None:
            c03_payload_recorder.enabled = True
    __import__("c03_writers").run(ctx, fx_all)
    # ---- Pascal strings at the limit of their length byte, at every call site of the writers
    t1 = time.time()
    _logging.disable(_logging.CRITICAL)
    try:
        __import__("c03_pascal").run(ctx, fx_all)
    finally:
        _logging.disable(_lvl)
    ctx.extra["pascal_seconds"] = round(time.time() - t1, 1)
    # ---- every creation entry point x every mode it accepts x depth x compression x PSD/PSB
    t1 = time.time()
    _logging.disable(_logging.CRITICAL)
    try:
        c03_modes.run(ctx)
    finally:
        _logging.disable(_lvl)
    ctx.extra["creation_matrix_seconds"] = round(time.time() - t1, 1)
    ctx.notes.append(
        "Props/C03Creation.lean: creation_planes_match_header / creation_header_rule / creation_color_channels_tied are decided "
        "over Generated/Creation.lean (every creation entry point x every mode it accepts, measured on the live code); "
        "created_raw_size lifts the agreement to the stored size on the compression model, short_planes_raw / short_planes_rle "
        "show what its failure looks like (a plane short; a row table whose last `height` entries are 0).")


def api_documents(ctx, fx_small):
    """files produced through the high-level API -> (label, scenario, bytes)"""
    out = []
    try:
        from PIL import Image
        from psd_tools import PSDImage
        from psd_tools.api.layers import Group, PixelLayer
    except Exception as e:  # noqa
        ctx.skipped.append("API scenarios skipped: %r" % e)
        return out

    def save(psd, **kw):
        f = io.BytesIO()
        psd.save(f, **kw)
        return f.getvalue()

    def attempt(label, scen, fn):
        try:
            out.append((label, scen, fn()))
        except Exception as e:  # noqa
            ctx.hist("api_scenario_raised", f"{scen}:{type(e).__name__}")

    rng = ctx.rng
    for mode, size, depth in [("RGB", (4, 3), 8), ("L", (5, 2), 16), ("CMYK", (3, 3), 8), ("RGB", (1, 1), 8), ("L", (7, 1), 8)]:
        attempt(f"new-{mode}-{size}", "api/new", lambda: save(PSDImage.new(mode, size, depth=depth)))
    for mode in ("RGB", "RGBA", "CMYK", "L", "LA", "1"):
        w, h = rng.choice([(1, 1), (3, 2), (6, 5), (17, 3)])
        attempt(f"frompil-{mode}-{w}x{h}", "api/frompil", lambda: save(PSDImage.frompil(Image.new(mode, (w, h)))))

    def layered(pad=None):
        p = PSDImage.frompil(Image.new("RGB", (6, 5), (10, 20, 30)))
        p.append(PixelLayer.frompil(Image.new("RGB", (2, 2), (9, 9, 9)), p, "lay", 1, 1))
        gr = Group.new("grp", parent=p)
        gr.append(PixelLayer.frompil(Image.new("RGBA", (3, 2), (9, 9, 9, 9)), p, "lay2"))
        inner = Group.new("inner", parent=gr)
        inner.append(PixelLayer.frompil(Image.new("RGB", (1, 1), (1, 2, 3)), p, "é-odd"))
        return save(p, **({"padding": pad} if pad else {}))
    attempt("layers+groups", "api/layers", layered)
    for pad in (1, 2):
        attempt(f"layers+groups-pad{pad}", "api/layers", lambda pad=pad: layered(pad))
    # structural edit of opened fixtures, then save (KNOWN: C17's merged-image defect for RGB documents)
    names = ["pixel-layer.psd", "layer-name-emoji.psd", "2layer_8ele_tblocks.psd", "1layer.psd", "clip-opacity.psd",
             "2layers.psd", "group.psd", "gray0.psd", "1layer.psb"]
    cands = sorted((f for f in fx_small if f.name in names), key=lambda f: names.index(f.name))
    if not ctx.quick:
        cands += [f for f in fx_small if f not in cands]
    for f in cands[: (4 if ctx.quick else 400)]:
        def edit(f=f):
            p = PSDImage.open(f)
            p.append(PixelLayer.frompil(Image.new("RGB", (2, 2), (9, 9, 9)), p, "added"))
            return save(p)
        attempt(f"edit:{f.name}", "api/edit-then-save", edit)
    return out


def witness_odd_block(g):
    doc, enc, _ = g.document(version=1, typed=False)
    lam = doc.layer_and_mask_information
    doc.layer_and_mask_information = lam = g.LM.LayerAndMaskInformation(
        g.layer_info(1, "ascii", n=1, typed=False, ntb=0), g.LM.GlobalLayerMaskInfo(), g.TB.TaggedBlocks())
    lam.layer_info.layer_records[0].tagged_blocks = g.TB.TaggedBlocks(
        [(b"abcd", g.TB.TaggedBlock(key=b"abcd", data=b"xyz"))])
    lam.layer_info.layer_records[0].name = "w"
    return doc, "C03/tagged-block/odd-length-in-layer-record"


def witness_unconfirmed_key(g):
    doc, enc, _ = g.document(version=2, typed=False)
    doc.layer_and_mask_information = g.LM.LayerAndMaskInformation(
        g.LM.LayerInfo(), g.LM.GlobalLayerMaskInfo(),
        g.TB.TaggedBlocks([(b"artd", g.TB.TaggedBlock(key=b"artd", data=b"\x01\x02\x03\x04"))]))
    return doc, "C03/bigkeys/unconfirmed-8-byte-key"


def observed_key_evidence():
    """Photoshop-written PSB fixtures store cinf / lnkE / pths with an 8-byte length: with a 4-byte length the
    field would read 0 and the next four bytes would not be a block signature."""
    root = core.REPO / "tests" / "psd_files"
    out = {}
    for key, rel in OBSERVED.items():
        f = root / rel
        e = {"file": rel}
        if not f.exists():
            e["eight_byte_confirmed"] = False
            out[key.decode()] = e
            continue
        b = f.read_bytes()
        hits = []
        for sig in (b"8BIM", b"8B64"):
            i = b.find(sig + key)
            while i >= 0:
                hits.append(i)
                i = b.find(sig + key, i + 1)
        ok = False
        for i in hits:
            l8 = struct.unpack(">Q", b[i + 8:i + 16])[0]
            l4 = struct.unpack(">I", b[i + 8:i + 12])[0]
            nxt8 = i + 16 + l8 + (-l8 % 4)
            after8 = b[nxt8:nxt8 + 4]
            after4 = b[i + 12 + l4 + (-l4 % 4):][:4]
            if l4 == 0 and after4 not in (b"8BIM", b"8B64") and (after8 in (b"8BIM", b"8B64") or nxt8 <= len(b)) and l8 > 0:
                ok = True
                e.update({"offset": i, "length_as_8_bytes": l8, "length_as_4_bytes": l4,
                          "next_signature_with_8": after8.decode("latin1"), "next_with_4": after4.hex()})
                break
        e["eight_byte_confirmed"] = ok
        out[key.decode()] = e
    return out


def replay(ctx, data):
    inp = data.get("input") or {}
    print("replaying", data.get("signature"), inp.get("scenario"))
    if inp.get("class"):
        __import__("payload_gen").replay_c03(inp)
    if inp.get("file"):
        b = unhx(inp["file"])
        a = cc.pbatch([("psd.walk", hx(b))])[0]
        r = parse_walk(a)
        print("walker:", r[0], r[1:3] if r[0] == "ok" else r[1:])
        if r[0] == "ok":
            img = [x for x in r[3] if x[2] == "image-data"]
            print("image data:", image_data_problem(b, r[1], img[0][:2]) if img else None)
            print("image data (row lengths too):", __import__("c03_extra").merged_problem(b, r[1], r[3]))
            print("channel row tables:", channel_rle_problems(b)[:3])
            import c03_extra
            print("layer channels (specification reading):", c03_extra.layer_channel_problems(b, r[1], r[3])[:3])
        if str(inp.get("entry", "")).startswith("walkp"):
            import c03_payload
            pr = c03_payload.parse_deep(cc.pbatch([("walkp.deep", hx(b))])[0])
            print("payload walkers (skeleton, then every payload at every nesting level):",
                  pr[0], pr[1:4] if pr[0] == "ok" else pr[1:])
        rr = cc.read_doc(b)
        print("psd-tools reads it back:", rr[0], rr[1] if rr[0] == "err" else "")
    elif str(inp.get("entry", "")) in ("walkp.block", "walkp.resource") and inp.get("bytes"):
        # the payload the class wrote, standalone through the walker of its key / id
        key = inp.get("key", "")
        print("recorded payload of", inp.get("class"), "under", key, "- walker now:")
        try:
            import importlib
            mod, nm = inp["class"].rsplit(".", 1)
            K = getattr(importlib.import_module(mod), nm)
            x = K.frombytes(unhx(inp["bytes"]), **(inp.get("kwargs") or {}))
            print("  the library reads the recorded bytes back as", type(x).__name__, "and writes", len(x.tobytes()), "bytes")
        except Exception as e:  # noqa
            print("  the library does not read the recorded bytes back:", repr(e)[:160])
    elif inp.get("entry") in ("compress", "ChannelData.set_data") and "raw" in inp:
        # re-run the compression entry point on the recorded raw plane
        import c03_extra
        from psd_tools.compression import compress
        from psd_tools.constants import Compression
        w, h, depth, version = inp["width"], inp["height"], inp["depth"], inp["version"]
        body = compress(unhx(inp["raw"]), Compression(inp["compression"]), w, h, depth, version)
        print("stored now:", hx(body)[:200], "| recorded:", str(inp.get("stored"))[:200])
        print("problem now:", c03_extra.channel_problem(body, inp["compression"], w, h, depth, version))
    print("expected:", data.get("expected"))
    return 0
