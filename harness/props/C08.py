"""C08 - the layer tree mirrors the file's record order, and saving restores that order."""
from __future__ import annotations

import copy
import io
import itertools
import json
import multiprocessing
import time
from concurrent.futures import ProcessPoolExecutor
from pathlib import Path

import core
import docbuild as db
import extract_c08
import extract_c09
from core import err_class

DIVCH = {None: "-", "OTHER": "0", "OPEN_FOLDER": "1", "CLOSED_FOLDER": "2", "BOUNDING_SECTION_DIVIDER": "3"}
DIVNAMES = [None, "OTHER", "OPEN_FOLDER", "CLOSED_FOLDER", "BOUNDING_SECTION_DIVIDER"]
ARTKEYS = ["ARTBOARD_DATA1", "ARTBOARD_DATA2", "ARTBOARD_DATA3"]

# ---- the kind table, written here independently of the library and of the model -----------------
# (priority order; a fill layer with vector data and pixel_data_irrelevant is a shape)
T_TYPE = ["TYPE_TOOL_OBJECT_SETTING", "TYPE_TOOL_INFO"]
T_SMART = ["SMART_OBJECT_LAYER_DATA1", "SMART_OBJECT_LAYER_DATA2", "PLACED_LAYER1", "PLACED_LAYER2"]
T_FILL = [("SOLID_COLOR_SHEET_SETTING", "solidcolorfill"), ("PATTERN_FILL_SETTING", "patternfill"),
          ("GRADIENT_FILL_SETTING", "gradientfill")]
T_ADJ = [("CONTENT_GENERATOR_EXTRA_DATA", "brightnesscontrast"), ("CURVES", "curves"), ("EXPOSURE", "exposure"),
         ("LEVELS", "levels"), ("VIBRANCE", "vibrance"), ("HUE_SATURATION", "huesaturation"),
         ("COLOR_BALANCE", "colorbalance"), ("BLACK_AND_WHITE", "blackandwhite"), ("PHOTO_FILTER", "photofilter"),
         ("CHANNEL_MIXER", "channelmixer"), ("COLOR_LOOKUP", "colorlookup"), ("INVERT", "invert"),
         ("POSTERIZE", "posterize"), ("THRESHOLD", "threshold"), ("SELECTIVE_COLOR", "selectivecolor"),
         ("GRADIENT_MAP", "gradientmap")]
T_VECTOR = ["VECTOR_ORIGINATION_DATA", "VECTOR_MASK_SETTING1", "VECTOR_MASK_SETTING2", "VECTOR_STROKE_DATA",
            "VECTOR_STROKE_CONTENT_DATA"]
ALL_KIND_KEYS = T_TYPE + T_SMART + [k for k, _ in T_FILL + T_ADJ] + T_VECTOR


def table_kind(keys, pdi) -> str:
    ks = set(keys)
    vector = bool(pdi) and any(k in ks for k in T_VECTOR)
    if any(k in ks for k in T_TYPE):
        return "type"
    if any(k in ks for k in T_SMART):
        return "smartobject"
    for k, v in T_FILL:
        if k in ks:
            return "shape" if vector else v
    for k, v in T_ADJ:
        if k in ks:
            return v
    return "shape" if vector else "pixel"


# ---- tokens for the model driver ---------------------------------------------------------------
def tok_of_spec(spec) -> str:
    sds, nsds = db._divider_fields(spec)
    return DIVCH[sds] + DIVCH[nsds] + ("1" if spec.get("artboard") else "0")


def tok_of_record(rec) -> str:
    """Token read off a real LayerRecord (fixtures)."""
    from psd_tools.constants import Tag
    b = rec.tagged_blocks
    s = b.get_data(Tag.SECTION_DIVIDER_SETTING, None)
    n = b.get_data(Tag.NESTED_SECTION_DIVIDER_SETTING, None)
    art = any(Tag[k] in b for k in ARTKEYS)
    f = lambda d: "-" if d is None else str(int(d.kind))
    return f(s) + f(n) + ("1" if art else "0")


def keys_of_record(rec):
    from psd_tools.constants import Tag
    out = []
    for k in rec.tagged_blocks.keys():
        try:
            out.append(Tag(k).name)
        except ValueError:
            out.append("x" + bytes(k).hex())
    return out


def forest_str(shape) -> str:
    def node(n):
        if n[0] == "L":
            return "L%d" % n[1]
        return "%s%d.%d[%s]" % (n[0], n[1], n[2], " ".join(node(c) for c in n[3]))
    return " ".join(node(n) for n in shape) if shape else "-"


# ---- generators -----------------------------------------------------------------------------------
def bracketings(n):
    """All well-nested sequences of exactly n records over L / B…C, as strings."""
    if n == 0:
        yield ""
        return
    for rest in bracketings(n - 1):
        yield "L" + rest
    for k in range(0, n - 1):
        for inner in bracketings(k):
            for rest in bracketings(n - 2 - k):
                yield "B" + inner + "C" + rest


NCH = (0, 1, 2, 4, 5)          # channel counts given to every record kind (fixtures: bounding records have 2-5)
CHANNEL_SHAPES = ("LBLCL", "BLLCL", "BBCLC", "BC", "LBBLCBCCL")

GROUP_VARIANTS = [dict(folder=f, via=v, bvia=bv, artboard=a)
                  for f in ("open", "closed") for v in ("sds", "nsds", "both", "nsds-over-other")
                  for bv in ("sds", "nsds", "both") for a in ([], ["ARTBOARD_DATA1"])]
ART_VARIANTS = [[], ["ARTBOARD_DATA1"], ["ARTBOARD_DATA2"], ["ARTBOARD_DATA3"], ["ARTBOARD_DATA1", "ARTBOARD_DATA3"], ARTKEYS]

KIND_POOL = [([], False), (["TYPE_TOOL_OBJECT_SETTING"], False), (["SMART_OBJECT_LAYER_DATA1"], False),
             (["SOLID_COLOR_SHEET_SETTING"], False), (["CURVES"], False), (["VECTOR_MASK_SETTING1"], True),
             (["GRADIENT_FILL_SETTING", "VECTOR_STROKE_DATA"], True), (["PLACED_LAYER2"], False),
             (["LEVELS", "VECTOR_ORIGINATION_DATA"], True), (["TYPE_TOOL_INFO", "CURVES"], True),
             (["INVERT"], False), (["PATTERN_FILL_SETTING"], True), (["VECTOR_MASK_SETTING2"], False)]


def recipe_from(seq: str, clip_bits: int, gv, kind_off: int):
    """Recipe for a role string over L/B/C (not necessarily balanced). gv: one group variant for all
    groups or a list (one per B / per C occurrence, cycled)."""
    out = []
    nb = nc = 0
    for i, ch in enumerate(seq):
        clip = bool((clip_bits >> i) & 1)
        if ch == "L":
            keys, pdi = KIND_POOL[(kind_off + i) % len(KIND_POOL)]
            out.append({"t": "leaf", "keys": list(keys), "pdi": pdi, "clip": clip})
        elif ch == "B":
            v = gv[nb % len(gv)] if isinstance(gv, list) else gv
            nb += 1
            out.append({"t": "bound", "via": v["bvia"], "clip": clip})
        else:
            v = gv[nc % len(gv)] if isinstance(gv, list) else gv
            nc += 1
            out.append({"t": "close", "folder": v["folder"], "via": v["via"], "artboard": list(v["artboard"]), "clip": clip})
    return out


def random_tree(rng, depth, budget):
    """Random nested description (docbuild.nested format), depth <= `depth`."""
    out = []
    n = rng.randrange(0, 5)
    for _ in range(n):
        if budget[0] <= 0:
            break
        budget[0] -= 1
        if depth > 0 and rng.random() < 0.45:
            v = rng.choice(GROUP_VARIANTS)
            out.append({"g": random_tree(rng, depth - 1, budget), "folder": v["folder"], "via": v["via"], "bvia": v["bvia"],
                        "artboard": list(rng.choice(ART_VARIANTS)) if rng.random() < 0.3 else [],
                        "clip": rng.random() < 0.3, "keys": rng.sample(ALL_KIND_KEYS, rng.randrange(0, 2))})
        else:
            k = rng.randrange(0, 4)
            spec = {"keys": rng.sample(ALL_KIND_KEYS, k), "pdi": rng.random() < 0.5, "clip": rng.random() < 0.3}
            if rng.random() < 0.15:      # a divider of kind OTHER must be ignored
                spec["sds"] = "OTHER"
                if rng.random() < 0.5:
                    spec["nsds"] = "OTHER"
            out.append(spec)
    return out


def deep_chain(rng, depth):
    """A chain of `depth` nested groups with leaves sprinkled in."""
    node = [{"keys": []}]
    for d in range(depth):
        v = rng.choice(GROUP_VARIANTS)
        g = {"g": node, "folder": v["folder"], "via": v["via"], "bvia": v["bvia"], "artboard": list(v["artboard"])}
        node = ([{"keys": ["CURVES"]}] if rng.random() < 0.5 else []) + [g] + ([{"keys": []}] if rng.random() < 0.5 else [])
    return node


# ---- observation of the real implementation -------------------------------------------------------
def observe(recipe):
    """Open the recipe with the real PSDImage; returns dict(outcome, forest, flatten, image, recs, chans)."""
    from psd_tools.api.psd_image import _build_record_tree
    try:
        img, recs, chans = db.make_image(recipe)
    except RecursionError:
        return {"outcome": "err", "cls": "RecursionError"}
    except Exception as e:  # noqa
        return {"outcome": "err", "cls": err_class(e)}
    try:
        return observe_image(img, recs, chans)
    except RecursionError:
        return {"outcome": "err", "cls": "RecursionError", "stage": "inspect"}
    except Exception as e:  # noqa  (the document opened, but walking / flattening it raises)
        return {"outcome": "err", "cls": err_class(e), "stage": "inspect"}


def observe_image(img, recs, chans):
    from psd_tools.api.psd_image import _build_record_tree
    ids = {id(r): i for i, r in enumerate(recs)}
    cids = {id(c): i for i, c in enumerate(chans)}
    shape = db.shape_of(img, ids)
    lr, cd = _build_record_tree(img)
    return {"outcome": "ok", "shape": shape, "forest": forest_str(shape),
            "flat_r": [ids.get(id(r), -1) for r in lr], "flat_c": [cids.get(id(c), -1) for c in cd],
            "img": img, "recs": recs, "chans": chans, "lr": lr, "cd": cd}


def check_property(ctx, obs, toks, describe, kinds_expected=None):
    """The property itself on the real objects, with oracles that do not use the model.
    toks: role string over L/B/C/A (harness-side reading of the records) - only used to know the
    sequence is well nested; everything else is identity of objects."""
    from psd_tools.api.layers import Artboard, Group
    img, recs, chans = obs["img"], obs["recs"], obs["chans"]
    n = len(recs)
    # (1) flattening gives back the same objects in the same order
    lr, cd = obs["lr"], obs["cd"]
    if len(lr) != n or any(a is not b for a, b in zip(lr, recs)):
        what = "lost" if len(lr) < n else "duplicated" if len(lr) > n else "reordered"
        ctx.fail(f"C08/flatten/records-{what}", "_build_record_tree does not return the original record objects in order",
                 describe, obs["flat_r"], list(range(n)))
    if len(cd) != n or any(a is not b for a, b in zip(cd, chans)):
        what = "lost" if len(cd) < n else "duplicated" if len(cd) > n else \
            "reordered" if sorted(obs["flat_c"]) == list(range(n)) else "replaced"
        # slot by slot: what sits in the slot of record i (an object of another slot, None, a foreign object)
        slots = []
        for i, c in enumerate(cd[:n]):
            if c is not chans[i]:
                j = obs["flat_c"][i]
                held = "None" if c is None else ("the channel list of record %d (%d channels)" % (j, len(c)) if j >= 0 else
                                                 "a foreign %s (%s channels)" % (type(c).__name__, len(c) if hasattr(c, "__len__") else "?"))
                slots.append({"slot": i, "record": getattr(recs[i], "name", None), "read_from_the_file": "%d channels" % len(chans[i]),
                              "flattened": held})
        ctx.fail(f"C08/flatten/channels-{what}", "_build_record_tree does not return the original channel objects in order "
                 "(slot by slot against the (record, channel list) pairs read from the file)",
                 describe, {"flatten_channel_ids": obs["flat_c"], "slots_that_differ": slots[:8]}, list(range(n)))
    # (2) nesting: every group contains exactly the records strictly between its dividers, bottom to top
    pos = {id(r): i for i, r in enumerate(recs)}
    cpos = {id(c): i for i, c in enumerate(chans)}

    def span(layer):
        """(first, last) record positions covered by a layer; checks the subtree on the way."""
        own = pos.get(id(layer._record))
        if own is None or cpos.get(id(layer._channels)) != own:
            ctx.fail("C08/nesting/record-channel-mismatch", "a layer's record and channels are not the pair read from the file",
                     describe, [own, cpos.get(id(layer._channels))], "same position")
            return (own or 0, own or 0)
        if not isinstance(layer, Group):
            return (own, own)
        b = pos.get(id(layer._bounding_record))
        if b is None or cpos.get(id(layer._bounding_channels)) != b or b >= own:
            ctx.fail("C08/nesting/bounding-record-wrong", "a group's bounding record is not a record below its own record",
                     describe, [b, own], "bounding < own")
            return (own, own)
        expect = b + 1
        for ch in layer:
            if ch._parent is not layer:
                ctx.fail("C08/nesting/parent-pointer", "child's parent is not the group that lists it", describe,
                         _srepr(ch._parent), _srepr(layer))
            lo, hi = span(ch)
            if lo != expect:
                ctx.fail("C08/nesting/children-not-contiguous-in-order",
                         "children of a group are not exactly the records between its dividers, bottom to top",
                         describe, [lo, expect], "next child starts right after the previous one")
            expect = hi + 1
        if expect != own:
            ctx.fail("C08/nesting/children-do-not-fill-the-span",
                     "children of a group are not exactly the records between its dividers", describe, [expect, own], "equal")
        return (b, own)

    expect = 0
    for l in img:
        if l._parent is not img:
            ctx.fail("C08/nesting/parent-pointer", "top-level layer's parent is not the document", describe,
                     _srepr(l._parent), "the PSDImage")
        lo, hi = span(l)
        if lo != expect:
            ctx.fail("C08/nesting/top-level-not-contiguous-in-order", "top-level layers do not cover the records in order",
                     describe, [lo, expect], "equal")
        expect = hi + 1
    if expect != n:
        ctx.fail("C08/nesting/records-missing-from-tree", "the tree does not cover all records", describe, [expect, n], "equal")
    # (3) kinds vs the table
    for l in db.walk(img):
        i = pos.get(id(l._record))
        if i is None:
            continue
        if isinstance(l, Group):
            art = toks[i] == "A"
            exp = "artboard" if art else "group"
        else:
            exp = table_kind(keys_of_record(recs[i]), recs[i].flags.pixel_data_irrelevant)
        if l.kind != exp:
            ctx.fail(f"C08/kind/{exp}-reported-as-{l.kind}", "layer kind does not follow from its blocks", describe,
                     l.kind, exp)
        ctx.hist("kind", l.kind)


def channel_content(ch):
    """what a channel list holds, as plain data"""
    return [(int(getattr(c, "compression", -1)), bytes(getattr(c, "data", b"") or b"")) for c in ch]


def save_reopen(ctx, obs, describe):
    """the UNEDITED tree: flattened by `_update_record` (what `save` does first), written, opened again -> the same tree
    shape over the same records, slot by slot the same channel list content (count, compression, bytes) and name."""
    from psd_tools.api.psd_image import PSDImage
    img, recs, chans = obs["img"], obs["recs"], obs["chans"]
    want = [(r.name, channel_content(c)) for r, c in zip(recs, chans)]
    # reference: the ORIGINAL (record, channel list) sequence written as it is and opened. Block payloads of a recipe are
    # placeholders ("presence matters"); a sequence whose placeholders do not survive write + read is not a storable
    # document and is left out of this clause
    try:
        ref = io.BytesIO()
        db.make_psd(list(recs), list(chans)).write(ref)
        PSDImage.open(io.BytesIO(ref.getvalue()))
    except RecursionError:
        return
    except Exception:  # noqa
        ctx.hist("save_reopen", "recipe-not-storable")
        return
    try:
        img._updated_layers = True
        img._update_record()
        buf = io.BytesIO()
        img._record.write(buf)
    except RecursionError:
        return
    except Exception as e:  # noqa
        ctx.fail("C08/save/unedited-tree-raises-" + err_class(e), "saving the unedited tree (flatten + write) raises",
                 describe, "%s: %s" % (type(e).__name__, str(e)[:160]), "the bytes of a document with the same records")
        return
    try:
        img2 = PSDImage.open(io.BytesIO(buf.getvalue()))
        pairs2 = list(img2._record._iter_layers())
        shape2 = db.shape_of(img2, {id(r): i for i, (r, _) in enumerate(pairs2)})
    except RecursionError:
        return
    except Exception as e:  # noqa
        ctx.fail("C08/save-reopen/reopen-raises-" + err_class(e), "the saved unedited tree cannot be opened again",
                 describe, "%s: %s" % (type(e).__name__, str(e)[:160]), "the same tree")
        return
    got = [(r.name, channel_content(c)) for r, c in pairs2]
    if [len(c) for _, c in got] != [len(c) for _, c in want]:
        ctx.fail("C08/save-reopen/channel-counts-differ", "after save + reopen of the unedited tree the records do not carry the "
                 "channel lists they were read with", describe, [len(c) for _, c in got], [len(c) for _, c in want])
    elif got != want:
        k = next(i for i in range(len(want)) if got[i] != want[i])
        ctx.fail("C08/save-reopen/record-content-differs", "after save + reopen of the unedited tree a record's name or "
                 "channel bytes differ", describe, {"slot": k, "got": repr(got[k])[:200]}, repr(want[k])[:200])
    if forest_str(shape2) != obs["forest"]:
        ctx.fail("C08/save-reopen/tree-differs", "after save + reopen of the unedited tree the nesting differs", describe,
                 forest_str(shape2)[:300], obs["forest"][:300])
    ctx.hist("save_reopen", "done")


def storable_keys():
    """kind / artboard keys whose placeholder payload (docbuild.block_data) survives write + read in a one-leaf document"""
    from psd_tools.api.psd_image import PSDImage
    ok = set()
    for k in ALL_KIND_KEYS + ARTKEYS:
        try:
            recs, chans = db.build([{"t": "leaf", "keys": [k]}])
            buf = io.BytesIO()
            db.make_psd(recs, chans).write(buf)
            PSDImage.open(io.BytesIO(buf.getvalue()))
            ok.add(k)
        except Exception:  # noqa
            pass
    return ok


def _srepr(x):
    try:
        return repr(x)
    except Exception as e:  # noqa  (a detached object may not even print)
        return "<%s: repr raises %s>" % (type(x).__name__, type(e).__name__)


def role_string(toks):
    """Harness-side reading of the 3-char tokens into L/B/C/A (nested key overrides, OTHER ignored)."""
    out = []
    for t in toks:
        d = t[1] if t[1] != "-" else t[0]
        out.append("B" if d == "3" else ("A" if t[2] == "1" else "C") if d in "12" else "L")
    return "".join(out)


def depth_outcome(roles: str) -> str:
    d = 0
    for ch in roles:
        if ch == "B":
            d += 1
        elif ch in "CA":
            if d == 0:
                return "AssertionError"
            d -= 1
    return "ok" if d == 0 else "AttributeError"



# ---- the kind clause on SEQUENCES -------------------------------------------------------------------
# "each layer's kind follows from its record's blocks and flags": from ITS record, whatever was opened before.
# A base is one leaf record (a fixture record that carries a kind key, or a synthetic one); for every LayerFlags
# field the base is taken with the field off (A) and on (B) - identical tagged blocks, different flags - and put
#   * into ONE document in the orders SEQ_ORDERS, and
#   * into one document per record, opened one after another in the same process, in the same orders.
# The oracle is the table above applied to each record on its own.  The battery runs in the check's process (after
# everything else was opened there) and in two fresh interpreters (off-first / on-first), where every block layout is
# seen for the first time inside its own sequence.
SEQ_ORDERS = {"off-first": ["AB", "AABA"], "on-first": ["BA", "BBA"]}


def flag_fields():
    """boolean fields of LayerFlags, from the attrs class (renamed / added flags are picked up)"""
    import attr
    from psd_tools.psd.layer_and_mask import LayerFlags
    try:
        return [f.name for f in attr.fields(LayerFlags) if isinstance(getattr(LayerFlags(), f.name), bool)]
    except Exception:  # noqa
        return ["pixel_data_irrelevant"]


def fixture_files(max_bytes=None):
    fs = sorted((core.REPO / "tests" / "psd_files").rglob("*.ps[db]"), key=lambda p: (p.stat().st_size, str(p)))
    return [f for f in fs if max_bytes is None or f.stat().st_size <= max_bytes]


def read_psd(path):
    from psd_tools.psd import PSD
    with open(path, "rb") as fp:
        return PSD.read(fp)


def harvest_bases(files):
    """-> ([base], {id: (record, channels)}): one base per distinct tuple of block keys among the LEAF records of the
    fixtures that carry at least one kind key"""
    bases, objs, seen = [], {}, set()
    for f in files:
        rel = str(f.relative_to(core.REPO))
        try:
            psd = read_psd(f)
            pairs = list(psd._iter_layers())
        except Exception:  # noqa  (the reader is not C08's subject)
            continue
        for i, (r, c) in enumerate(pairs):
            try:
                if role_string([tok_of_record(r)]) != "L":
                    continue
                keys = keys_of_record(r)
            except Exception:  # noqa
                continue
            if not any(k in ALL_KIND_KEYS for k in keys) or tuple(keys) in seen:
                continue
            seen.add(tuple(keys))
            b = {"fixture": rel, "record": i}
            bases.append(b)
            objs[json.dumps(b, sort_keys=True)] = (r, c)
    return bases, objs


def synthetic_bases():
    out = [{"keys": []}] + [{"keys": [k]} for k in ALL_KIND_KEYS]
    for v in T_VECTOR[:2]:
        out += [{"keys": [k, v]} for k in [T_FILL[0][0], T_FILL[2][0], T_ADJ[1][0], T_TYPE[0], T_SMART[0]]]
    return out


def materialise(base, flags, objs):
    """a fresh (record, channels) pair of `base` with the given LayerFlags fields set"""
    if "fixture" in base:
        key = json.dumps({"fixture": base["fixture"], "record": base["record"]}, sort_keys=True)
        if key not in objs:
            psd = read_psd(core.REPO / base["fixture"])
            objs[key] = list(psd._iter_layers())[base["record"]]
        # a new record object with its own flags; the tagged blocks and the channel data are shared with the
        # fixture's record (opening does not modify them), which keeps "identical blocks" literal
        r0, c = objs[key]
        r = copy.copy(r0)
        r.flags = copy.copy(r0.flags)
        for k, v in flags.items():
            if hasattr(r.flags, k):
                setattr(r.flags, k, bool(v))
        return r, c
    return db.make_record({"t": "leaf", "keys": list(base["keys"]), "flags": dict(flags)})


def eval_sequence(seq, mode, objs):
    """seq: [{"base": ..., "flags": {...}}]; mode "one-doc" | "docs" -> [(observed kind | "raises X", expected kind)]"""
    from psd_tools.api.psd_image import PSDImage
    pairs = [materialise(it["base"], it["flags"], objs) for it in seq]
    exp = [table_kind(keys_of_record(r), r.flags.pixel_data_irrelevant) for r, _ in pairs]
    got = []
    try:
        if mode == "one-doc":
            img = PSDImage(db.make_psd([r for r, _ in pairs], [c for _, c in pairs]))
            by = {id(l._record): l.kind for l in db.walk(img)}
            got = [by.get(id(r), "absent from the tree") for r, _ in pairs]
        else:
            for r, c in pairs:
                img = PSDImage(db.make_psd([r], [c]))
                ls = list(db.walk(img))
                got.append(ls[0].kind if len(ls) == 1 and ls[0]._record is r else "absent from the tree")
    except RecursionError:
        got = ["raises RecursionError"] * len(pairs)
    except Exception as e:  # noqa  (library code raising on a well-nested sequence of leaves: a failing input)
        got = ["raises " + err_class(e)] * len(pairs)
    return list(zip(got, exp))


def sequence_battery(which, bases, objs, flags):
    """-> (failures [(signature, what, input, observed, expected)], number of sequences, number of records)"""
    fails, nseq, nrec = [], 0, 0
    for base in bases:
        for fl in flags:
            for order in SEQ_ORDERS[which]:
                seq = [{"base": base, "flags": {fl: ch == "B"}} for ch in order]
                for mode in ("one-doc", "docs"):
                    res = eval_sequence(seq, mode, objs)
                    nseq += 1
                    nrec += len(res)
                    for k, (g, e) in enumerate(res):
                        if g != e:
                            inp = {"sequence": seq, "mode": mode, "position": k}
                            if g.startswith("raises"):
                                fails.append(("C08/kind-sequence/%s" % g.replace(" ", "-"),
                                              "opening a sequence of leaf records raises", inp, g, e))
                            else:
                                fails.append(("C08/kind-sequence/%s-reported-as-%s" % (e, g),
                                              "a layer's kind does not follow from its OWN record's blocks and flags "
                                              "(records with the same blocks and other flags were opened before it)",
                                              inp, [x for x, _ in res], [x for _, x in res]))
                            break
    return fails, nseq, nrec


def sequence_worker(arg):
    """fresh interpreter: harvest, then the battery of one order"""
    which, max_bytes = arg
    import logging
    import warnings
    logging.disable(logging.CRITICAL)
    warnings.simplefilter("ignore")
    try:
        bases, objs = harvest_bases(fixture_files(max_bytes))
        fails, nseq, nrec = sequence_battery(which, synthetic_bases() + bases, objs, flag_fields())
        return {"which": which, "fails": fails[:40], "nfail": len(fails), "sequences": nseq, "records": nrec,
                "bases": len(bases)}
    except Exception as e:  # noqa  (library code raised while a case was being prepared: reported by the parent)
        import traceback
        tb = traceback.extract_tb(e.__traceback__)
        return {"which": which, "error": "%s: %s" % (type(e).__name__, str(e)[:200]),
                "in_repo": any(str(core.REPO) in fr.filename for fr in tb),
                "tail": ["%s:%d %s" % (fr.filename, fr.lineno, fr.name) for fr in tb[-4:]]}


def run_sequences(ctx, quick):
    t0 = time.time()
    max_bytes = 1_000_000 if quick else None
    pool = ProcessPoolExecutor(2, mp_context=multiprocessing.get_context("spawn"))
    futs = [pool.submit(sequence_worker, (w, max_bytes)) for w in ("off-first", "on-first")]
    bases, objs = harvest_bases(fixture_files(max_bytes))
    allb = synthetic_bases() + bases
    flags = flag_fields()
    tot_seq = tot_rec = 0
    for which in ("off-first", "on-first"):
        fails, nseq, nrec = sequence_battery(which, allb, objs, flags)
        tot_seq += nseq
        tot_rec += nrec
        for sig, what, inp, obs, exp in fails:
            ctx.fail(sig, what, dict(inp, process="the check's own process"), obs, exp)
    for fu in futs:
        try:
            r = fu.result(timeout=600)
        except Exception as e:  # noqa
            raise core.Infra("sequence worker did not answer: %r" % (e,))
        if "error" in r:
            if r.get("in_repo"):
                ctx.disagree("the implementation raised inside the sequence battery (%s): %s" % (r["which"], r["error"]),
                             {"traceback_tail": r["tail"]})
                continue
            raise core.Infra("sequence worker failed: %s %s" % (r["error"], r["tail"]))
        tot_seq += r["sequences"]
        tot_rec += r["records"]
        for sig, what, inp, obs, exp in r["fails"]:
            ctx.fail(sig, what, dict(inp, process="fresh interpreter, order " + r["which"]), obs, exp)
        for _ in range(max(0, r["nfail"] - len(r["fails"]))):
            ctx.fail(r["fails"][0][0], "", None)
    pool.shutdown()
    for b in allb:
        ctx.count(("kind-sequence", json.dumps(b, sort_keys=True)), nontrivial=True)
    ctx.corr_cases += tot_seq
    ctx.hist("stream", "kind-sequence", tot_seq)
    ctx.extra["kind_sequences"] = {"bases_from_fixtures": len(bases), "synthetic_bases": len(allb) - len(bases),
                                   "flags_toggled": flags, "orders": SEQ_ORDERS, "modes": ["one-doc", "docs"],
                                   "sequences": tot_seq, "records_judged": tot_rec,
                                   "processes": ["check process", "fresh interpreter off-first", "fresh interpreter on-first"],
                                   "seconds": round(time.time() - t0, 1)}
    return flags


# ---- the same records in every place the reader may look ------------------------------------------
# (where the records are, which other place is present but empty); "ordinary" = layer_and_mask_information.layer_info
PLACES = [("ordinary", None), ("ordinary", "LAYER_16"), ("ordinary", "LAYER_32"), ("LAYER_16", None),
          ("LAYER_32", None), ("LAYER_16", "LAYER_32"), ("LAYER_32", "LAYER_16")]
DEPTHS = (8, 16, 32)
VERSIONS = (1, 2)


def place_name(place):
    return place[0] + ("+empty-" + place[1] if place[1] else "")


def relocate(psd, depth, version, place):
    """The document `psd` (a psd_tools.psd.PSD, consumed) with header depth / version set and its records moved to
    `place`, written with the library's writer -> bytes."""
    from psd_tools.constants import Tag
    from psd_tools.psd.layer_and_mask import LayerInfo, LayerInfoBlock
    from psd_tools.psd.tagged_blocks import TaggedBlock, TaggedBlocks
    lam = psd.layer_and_mask_information
    pairs = stored_pairs(psd) or []
    recs = [r for r, _ in pairs]
    chans = [c for _, c in pairs]
    if lam.tagged_blocks is None:
        lam.tagged_blocks = TaggedBlocks()
    for k in (Tag.LAYER_16, Tag.LAYER_32):
        if k in lam.tagged_blocks:
            del lam.tagged_blocks[k]
    where, empty = place
    from psd_tools.psd.layer_and_mask import ChannelImageData, LayerRecords

    def info(cls, rs, cs):
        return cls(layer_count=len(rs), layer_records=LayerRecords(list(rs)), channel_image_data=ChannelImageData(list(cs)))

    blocks = []
    if where == "ordinary":
        lam.layer_info = info(LayerInfo, recs, chans)
    else:
        lam.layer_info = LayerInfo()
        blocks.append((Tag[where], info(LayerInfoBlock, recs, chans)))
    if empty:
        blocks.append((Tag[empty], info(LayerInfoBlock, [], [])))
    # Photoshop writes Lr16 / Lr32 as the first block of the section
    old = list(lam.tagged_blocks.items())
    for k, _ in old:
        del lam.tagged_blocks[k]
    for k, d in sorted(blocks, key=lambda kd: kd[0].name):
        lam.tagged_blocks[k] = TaggedBlock(key=k, data=d)
    for k, v in old:
        lam.tagged_blocks[k] = v
    psd.header.depth = depth
    psd.header.version = version
    buf = io.BytesIO()
    psd.write(buf)
    return buf.getvalue()


def stored_pairs(psd):
    """the (record, channels) pairs of the one place of `psd` that holds records (harness-side reading of the three
    places; [] when none does, None when more than one does)"""
    from psd_tools.constants import Tag
    lam = psd.layer_and_mask_information
    found = []
    cands = [lam.layer_info]
    tb = lam.tagged_blocks
    if tb is not None:
        for k in (Tag.LAYER_16, Tag.LAYER_32):
            if k in tb:
                cands.append(tb.get_data(k))
    for li in cands:
        rs = getattr(li, "layer_records", None)
        cs = getattr(li, "channel_image_data", None)
        if rs is not None and cs is not None and len(rs):
            found.append(list(zip(rs, cs)))
    if len(found) > 1:
        return None
    return found[0] if found else []


def placement_case(path, depth, version, place):
    """-> dict(outcome=..., ...) : build the relocated file, read it back, open it"""
    from psd_tools.api.psd_image import PSDImage, _build_record_tree
    from psd_tools.psd import PSD
    try:
        data = relocate(read_psd(path), depth, version, place)
        psd2 = PSD.read(io.BytesIO(data))
    except Exception as e:  # noqa  (writer / reader, not C08's subject: C01 / C02 / C03 own them)
        return {"outcome": "not-built", "cls": err_class(e)}
    pairs = stored_pairs(psd2)
    if not pairs:
        return {"outcome": "not-built", "cls": "records not found in the re-read file" if pairs is not None else "two places hold records"}
    recs = [r for r, _ in pairs]
    chans = [c for _, c in pairs]
    toks = [tok_of_record(r) for r in recs]
    try:
        img = PSDImage(psd2)
        obs = observe_image(img, recs, chans)
    except RecursionError:
        obs = {"outcome": "err", "cls": "RecursionError"}
    except Exception as e:  # noqa
        obs = {"outcome": "err", "cls": err_class(e)}
    obs["toks"] = toks
    obs["bytes"] = len(data)
    return obs


def pick_placement_fixtures(quick):
    """small fixtures by what they are, not by name: per (depth, version) of the ORIGINAL file the smallest ones with
    at least two records, those with a group first"""
    by = {}
    for f in fixture_files(300_000):
        try:
            psd = read_psd(f)
            pairs = stored_pairs(psd)
        except Exception:  # noqa
            continue
        if not pairs or len(pairs) < 2:
            continue
        roles = role_string([tok_of_record(r) for r, _ in pairs])
        if depth_outcome(roles) != "ok":
            continue
        by.setdefault((psd.header.depth, psd.header.version), []).append(("B" not in roles, f.stat().st_size, str(f), f))
    out = []
    for key in sorted(by):
        lst = sorted(by[key])
        out += [x[3] for x in lst[:(2 if quick else 12)]]
    return out


def run_placements(ctx, drv, quick):
    t0 = time.time()
    files = pick_placement_fixtures(quick)
    shadow_sig = {}
    ncase = 0
    mreq, mexp = [], []
    for f in files:
        rel = str(f.relative_to(core.REPO))
        for depth in DEPTHS:
            for version in VERSIONS:
                for place in PLACES:
                    obs = placement_case(f, depth, version, place)
                    brief = {"fixture": rel, "depth": depth, "version": version, "place": list(place)}
                    ctx.hist("placement", place_name(place) + ":" + obs["outcome"])
                    if obs["outcome"] == "not-built":
                        ctx.hist("placement_not_built", obs["cls"])
                        continue
                    ncase += 1
                    ctx.corr_cases += 1
                    roles = role_string(obs["toks"])
                    ctx.count(("placement", rel, depth, version, place_name(place)), nontrivial=True)
                    n = len(obs["toks"])
                    # model: Reopen.storedPayloads on the three places (n records in `where`, 0 in `empty`, absent else)
                    # (the ordinary layer info is always present: LayerInfo() when the records are elsewhere)
                    slot = ["0", "-", "-"]
                    idx = {"ordinary": 0, "LAYER_16": 1, "LAYER_32": 2}
                    slot[idx[place[0]]] = str(n)
                    if place[1]:
                        slot[idx[place[1]]] = "0"
                    mreq.append(("tree.stored", *slot))
                    seen = len(obs["flat_r"]) if obs["outcome"] == "ok" else None
                    mexp.append((brief, place, n, seen, obs))
                    if obs["outcome"] != "ok":
                        ctx.fail("C08/placement/%s/open-raises-%s" % (place_name(place), obs["cls"]),
                                 "a document whose (well-nested) records sit in this place of the layer section cannot be opened",
                                 brief, obs["cls"], "a tree over the %d records" % n)
                        continue
                    if obs["flat_r"] != list(range(n)):
                        what = "lost" if len(obs["flat_r"]) < n else "duplicated" if len(obs["flat_r"]) > n else "reordered"
                        ctx.fail("C08/placement/%s/records-%s" % (place_name(place), what),
                                 "the records of the file are not the records of the opened tree", brief,
                                 {"records_in_the_tree": len(obs["flat_r"]), "flatten": obs["flat_r"][:20]},
                                 "all %d records of the file, in file order" % n)
                        continue
                    check_property(ctx, obs, roles, brief)
    if mreq:
        for (brief, place, n, seen, obs), a in zip(mexp, drv.batch(mreq)):
            if a[0] != "ok":
                raise core.Infra("driver: " + "\t".join(a))
            m_n = 0 if a[2] == "-" else len(a[2].split(" "))
            if seen is not None and m_n != seen:
                ctx.disagree("number of records the reader finds differs from the model (Reopen.storedPayloads)",
                             dict(brief, model_slot=a[1], model=m_n, impl=seen))
    ctx.extra["placements"] = {"fixtures": [str(f.relative_to(core.REPO)) for f in files], "depths": list(DEPTHS),
                               "versions": list(VERSIONS), "places": [place_name(p) for p in PLACES], "cases": ncase,
                               "seconds": round(time.time() - t0, 1)}


# ---- the check -------------------------------------------------------------------------------------
def run(ctx: core.Run):
    gen = ctx.regenerate(extract_c08.gen_tree_kinds)
    gen_r = ctx.regenerate(extract_c09.gen_reopen)      # where the reader looks for the records (shared with C09)
    ctx.prove(["PsdVerif.Props.C08"])
    ctx.trusted_base += [
        "Lean 4.33 kernel; axioms allowed: propext, Classical.choice, Quot.sound (audited per theorem)",
        "Model/TreeParse.lean is a hand transliteration of PSDImage._init / _build_record_tree; tied by this run's correspondence check",
        "harness/extract_c08.py: AST reader of _init (dispatch chain, key lists, divider kinds; flags / tags / mutable state read by "
        "the dispatch closure) and dump of api.adjustments.TYPES; harness/extract_c09.py: AST reader of PSD._get_layer_info",
        "harness/docbuild.py: builds psd_tools.psd.PSD structures in memory; object identity <-> payload ids by position",
        "payload opacity: a record and its channel list are one id in the model (the code moves them in parallel; checked by `is` on both lists)",
    ]
    ctx.assumptions += [
        "record objects in a file's list are pairwise distinct (true for every list the reader builds); group_contents_exact needs it",
        "assert statements are active (python -O would turn the AssertionError outcome into a corrupted tree)",
    ]
    quick = ctx.quick
    rng = ctx.rng
    drv = ctx.driver()
    cases = []          # (label, recipe)

    # corpus first
    corpus = core.VERIF / "harness" / "corpus" / "C08.json"
    if corpus.exists():
        for c in json.loads(corpus.read_text()):
            cases.append(("corpus", c["recipe"]))

    # (a) exhaustive bracketings x uniform divider variants, x all clipping assignments
    nmax = 5 if quick else 7
    nb = 0
    for n in range(0, nmax + 1):
        for seq in bracketings(n):
            nb += 1
            if "B" in seq:
                for vi, gv in enumerate(GROUP_VARIANTS):
                    cases.append(("bracketing", recipe_from(seq, 0, gv, nb + vi)))
            for bits in range(1 << n):
                cases.append(("bracketing-clip", recipe_from(seq, bits, GROUP_VARIANTS[0], nb + bits)))
            # mixed divider kinds per group + random clipping
            for _ in range(2 if quick else 4):
                gvs = [rng.choice(GROUP_VARIANTS) for _ in range(4)]
                cases.append(("bracketing-mixed", recipe_from(seq, rng.getrandbits(n) if n else 0, gvs, rng.randrange(99))))
            # records that are equal field for field (same name, geometry, blocks): identity, not equality, must decide
            cases.append(("bracketing-twins", [dict(sp, name="twin") for sp in recipe_from(seq, 0, GROUP_VARIANTS[0], 0)]))
    ctx.extra["bracketings"] = nb
    # (b) every artboard key combination, every (sds, nsds, artboard) combination of a single record in three contexts
    for art in ART_VARIANTS:
        cases.append(("artboard", db.nested([{"g": [{"keys": []}, {"g": [{"keys": ["CURVES"]}], "artboard": art}], "artboard": []}])))
    for s in DIVNAMES:
        for nn in DIVNAMES:
            for a in ([], ["ARTBOARD_DATA2"]):
                x = {"t": "leaf", "sds": s, "nsds": nn, "artboard": a, "keys": ["CURVES"]}
                for ctxt in ([x], [{"t": "bound"}, x], [{"t": "bound"}, {"t": "leaf"}, x, {"t": "close"}],
                             [{"t": "leaf"}, x, {"t": "leaf"}, {"t": "close"}]):
                    cases.append(("role", [dict(r) for r in ctxt]))
    # (c) random deeper trees
    for _ in range(150 if quick else 3000):
        cases.append(("random", db.nested(random_tree(rng, rng.randrange(1, 9), [rng.randrange(5, 60)]))))
    for _ in range(20 if quick else 200):
        cases.append(("deep", db.nested(deep_chain(rng, rng.randrange(4, 9)))))
    # (d) malformed stream: every sequence over L/B/C up to a length, and random longer ones
    mmax = 5 if quick else 7
    for n in range(1, mmax + 1):
        for tup in itertools.product("LBC", repeat=n):
            seq = "".join(tup)
            cases.append(("malformed-exhaustive", recipe_from(seq, 0, GROUP_VARIANTS[n % len(GROUP_VARIANTS)], n)))
    for _ in range(200 if quick else 3000):
        n = rng.randrange(3, 30)
        seq = "".join(rng.choice("LLBC") for _ in range(n))
        cases.append(("malformed-random", recipe_from(seq, rng.getrandbits(n), [rng.choice(GROUP_VARIANTS) for _ in range(3)], rng.randrange(99))))

    # (e) NUMBER OF CHANNELS of every record kind: bounding dividers, group records, leaves over NCH (0 = an empty channel
    #     list, as minimal third-party writers store for dividers), uniformly per kind on fixed shapes x plain group /
    #     artboard, then record by record at random
    storable = storable_keys()
    ctx.extra["storable_placeholder_keys"] = sorted(storable)

    def keep_storable(rc):
        for sp in rc:
            if "keys" in sp:
                sp["keys"] = [k for k in sp["keys"] if k in storable]
        return rc
    for seq in CHANNEL_SHAPES:
        for art in ([], ["ARTBOARD_DATA1"]):
            gv = dict(GROUP_VARIANTS[0], artboard=art)
            for nb_, nc_, nl_ in itertools.product(NCH, repeat=3):
                rc = recipe_from(seq, 0, gv, 0)
                for sp in rc:
                    sp["nch"] = {"bound": nb_, "close": nc_, "leaf": nl_}[sp["t"]]
                cases.append(("channels", keep_storable(rc)))
    for _ in range(150 if quick else 1500):
        rc = db.nested(random_tree(rng, rng.randrange(1, 6), [rng.randrange(4, 30)]))
        for sp in rc:
            sp["nch"] = rng.choice(NCH)
        cases.append(("channels-random", keep_storable(rc)))

    # ---- run: model in one batch, implementation case by case
    reqs = [("tree.open", " ".join(tok_of_spec(s) for s in rc) or "-") for _, rc in cases]
    answers = drv.batch(reqs)
    kind_reqs = {}
    n_ok = 0
    for (label, rc), ans in zip(cases, answers):
        toks = [tok_of_spec(s) for s in rc]
        roles = role_string(toks)
        obs = observe(rc)
        ctx.corr_cases += 1
        ctx.count((label, json.dumps(rc, sort_keys=True)), nontrivial=("B" in roles or "C" in roles or "A" in roles))
        ctx.hist("stream", label)
        ctx.hist("records", min(len(rc), 40) // 5 * 5)
        brief = {"recipe": rc}
        if ans[0] == "ok":
            m_roles, m_forest, m_flat = ans[1].replace(" ", "").replace("-", "").translate({ord(c): None for c in "0123456789"}), ans[2], ans[3]
            if obs["outcome"] != "ok":
                ctx.disagree("model builds a tree, implementation raises " + obs["cls"], brief)
            else:
                if obs["forest"] != m_forest:
                    ctx.disagree("tree shape differs", {"recipe": rc, "impl": obs["forest"], "model": m_forest})
                flat = " ".join("%s%d" % (ro, i) for ro, i in zip(roles, obs["flat_r"])) or "-"
                if flat != m_flat or obs["flat_r"] != obs["flat_c"]:
                    ctx.disagree("_build_record_tree output differs", {"recipe": rc, "impl": flat, "model": m_flat})
            if m_roles != roles:
                ctx.disagree("classification of records differs (model classify vs harness reading)", {"recipe": rc, "model": ans[1], "harness": roles})
        elif ans[0] == "err":
            if obs["outcome"] != "err" or obs["cls"] != ans[1]:
                ctx.disagree("model raises %s, implementation: %s" % (ans[1], obs.get("cls", "builds a tree")), brief)
        else:
            raise core.Infra("driver: " + "\t".join(ans))
        ctx.hist("outcome", obs["cls"] if obs["outcome"] == "err" else "ok")
        expect = depth_outcome(roles)
        if obs["outcome"] == "ok":
            if expect != "ok":
                ctx.disagree("implementation accepts a sequence that is not well nested", brief)
            # --- the property on the real objects
            check_property(ctx, obs, roles, brief)
            # _update_record after a no-op "edit": layer_info gets the same objects
            img = obs["img"]
            img._updated_layers = True
            img._update_record()
            li = img._record.layer_and_mask_information.layer_info
            if li.layer_count != len(rc) or len(li.layer_records) != len(rc) or \
                    any(a is not b for a, b in zip(li.layer_records, obs["recs"])) or \
                    any(a is not b for a, b in zip(li.channel_image_data, obs["chans"])):
                ctx.fail("C08/update-record/not-identical", "_update_record does not store the original sequence", brief,
                         li.layer_count, len(rc))
            for l in db.walk(img):
                if not hasattr(l, "_layers"):
                    r = l._record
                    key = ("1" if r.flags.pixel_data_irrelevant else "0", ",".join(keys_of_record(r)) or "-")
                    kind_reqs.setdefault(key, (l.kind, rc))
            # save + reopen of the unedited tree (every channel-count case, every 5th of the others)
            n_ok += 1
            if label.startswith("channels") or n_ok % 5 == 0:
                save_reopen(ctx, obs, brief)
        elif expect == "ok":
            # well nested and refused: the property's domain, so this is a failing input
            ctx.fail("C08/open/well-nested-sequence-refused/" + obs["cls"], "PSDImage refuses a well-nested record sequence",
                     brief, obs["cls"], "a tree")
        elif expect != obs["cls"]:
            ctx.disagree("outcome class on malformed input differs from the depth rule", brief)
        if label == "random" and len(ctx.samples) < 3:
            ctx.sample({"stream": label, "tokens": " ".join(toks), "impl": obs.get("forest", obs.get("cls"))})

    # ---- kinds: exhaustive single keys / pairs x pdi, random subsets; model vs impl vs table
    key_sets = [[]] + [[k] for k in ALL_KIND_KEYS] + [list(p) for p in itertools.combinations(ALL_KIND_KEYS, 2)]
    if not quick:
        key_sets += [list(p) for p in itertools.combinations(ALL_KIND_KEYS, 3) if rng.random() < 0.25]
    for _ in range(200 if quick else 2000):
        key_sets.append(rng.sample(ALL_KIND_KEYS, rng.randrange(3, 8)))
    key_sets.append(list(ALL_KIND_KEYS))
    kcases = [(ks, pdi) for ks in key_sets for pdi in (False, True)]
    # order of insertion of the blocks must not matter: shuffle half of them
    kreq = []
    for ks, pdi in kcases:
        ks2 = list(ks)
        if rng.random() < 0.5:
            rng.shuffle(ks2)
        img, recs, _ = db.make_image([{"t": "leaf", "keys": ks2, "pdi": pdi}])
        kind = img[0].kind
        exp = table_kind(ks, pdi)
        ctx.count(("kind", tuple(sorted(ks)), pdi), nontrivial=len(ks) >= 1)
        ctx.corr_cases += 1
        if kind != exp:
            ctx.fail(f"C08/kind/{exp}-reported-as-{kind}", "layer kind does not follow from its blocks",
                     {"recipe": [{"t": "leaf", "keys": ks2, "pdi": pdi}]}, kind, exp)
        kreq.append((("1" if pdi else "0", ",".join(ks2) or "-"), kind))
    for key, (kind, rc) in kind_reqs.items():
        kreq.append((key, kind))
    ans = drv.batch([("tree.kind", k[0], k[1]) for k, _ in kreq])
    for (k, kind), a in zip(kreq, ans):
        if a[0] != "ok" or a[1] != kind:
            ctx.disagree("kind differs", {"pdi": k[0], "keys": k[1], "impl": kind, "model": a[1:]})
    ctx.extra["kind_cases"] = len(kreq)

    # ---- fixtures
    fixtures = sorted((core.REPO / "tests" / "psd_files").rglob("*.ps[db]"))
    if quick:
        fixtures = sorted(fixtures, key=lambda p: p.stat().st_size)[:30]
    run_fixtures(ctx, drv, fixtures)

    # ---- kinds on sequences (same blocks, other flags; one document and documents opened one after another)
    toggled = run_sequences(ctx, quick)
    reads = gen["reads"] or {}
    not_toggled = [f for f in (reads.get("flags") or []) if f not in toggled]
    if not_toggled:
        ctx.disagree("the dispatch reads record flags that are not fields of LayerFlags (not toggled by the sequence battery)",
                     {"flags_read": reads.get("flags"), "LayerFlags": toggled})

    # ---- the same records in every place the reader may look x depth x version
    run_placements(ctx, drv, quick)

    ctx.rule = (
        "every well-nested sequence of <= %d records (%d bracketings) x 48 uniform divider variants (open/closed folder x "
        "key in lsct/lsdk/both/lsdk-over-OTHER x bounding key variant x artboard) and x all 2^n clipping assignments, mixed "
        "per-group variants; every (lsct kind, lsdk kind, artboard) combination of one record in four contexts; random trees "
        "(depth <= 8, <= 60 records) and deep chains; malformed: every sequence over L/B/C of length <= %d and random longer "
        "ones; kinds: every single key and pair of kind keys x pixel_data_irrelevant, random larger subsets; fixtures: %d files. "
        "KIND ON SEQUENCES: every leaf record of every fixture (<= 1 MB in the quick tier) that carries a kind key, one per "
        "distinct block layout (%d), and %d synthetic ones (every single kind key, vector key x fill / adjustment / type / "
        "smart-object key), each taken with every LayerFlags field off (A) and on (B) - identical blocks, other flags - in the "
        "orders AB, AABA, BA, BBA, in ONE document and in documents opened one after another in the same process; judged "
        "record by record against the kind table; run in the check's process and in two fresh interpreters (off-first, "
        "on-first). PLACEMENT: %d fixtures (the smallest well-nested ones per original depth and version, groups first) x "
        "depth 8/16/32 x PSD/PSB x the records in the ordinary layer info, in Lr16, in Lr32, each alone and next to an empty "
        "other block (7 layouts), rebuilt with the library's low-level classes, written, read back, opened: the tree must "
        "hold exactly the file's records (then every clause above). "
        "A tree case is non-trivial when it contains a divider record; distinct = distinct recipes."
        % (nmax, nb, mmax, len(fixtures), ctx.extra["kind_sequences"]["bases_from_fixtures"],
           ctx.extra["kind_sequences"]["synthetic_bases"], len(ctx.extra["placements"]["fixtures"])))
    ctx.notes += [
        "in Python a group is appended to its parent's list when pushed and filled while on the stack; the model appends the "
        "finished group when it is popped (same list: nothing else is appended to the parent in between) - checked by correspondence",
        "a never-closed group makes the constructor fail in _compute_clipping_layers (AttributeError on _record None), a closing "
        "record at depth 0 fails the `assert not isinstance(layer, PSDImage)`; both are modelled and proved (parse_outcome)",
    ]
    ctx.notes += [
        "the kind clause is evaluated on sequences (same blocks, other flags; one document, documents opened one after another, "
        "both orders, fresh interpreters): the model's kindOf is a function of one record, and dispatch_reads_tied states from "
        "the AST that the source reads nothing else and keeps no state (flags read: %s; state touched: %s)"
        % ((gen["reads"] or {}).get("flags"), (gen["reads"] or {}).get("state")),
        "records_found_iff: with the records in one place of the layer section and none elsewhere, the reader finds them iff no "
        "block it prefers is present; an EMPTY Lr16 / Lr32 block hides records kept elsewhere (empty_block_shadows, three "
        "layouts, replayed on the real code by the placement battery: known findings). The accessor reads neither depth nor "
        "version (records_location_tied), the battery still runs every depth x version.",
    ]
    ctx.exhaustive = True
    ctx.model_coverage = {
        "modelled": ["_init loop (push/pop/append, assertion on popping the document, Artboard._move re-typing)",
                     "failure of _compute_clipping_layers on a never-closed group", "_build_record_tree", "classification by lsct/lsdk",
                     "kind dispatch chain and api.adjustments.TYPES (regenerated)",
                     "PSD._get_layer_info / _iter_layers: which of layer_info, Lr16, Lr32 feeds _init (Model/Reopen.lean Sections, shared with C09)"],
        "opaque": ["record and channel payloads (an id)", "_update_record's choice of LayerInfo container (C09)"],
    }
    ctx.extra["generated_tables"] = {"chain": (gen["init"] or {}).get("chain"),
                                     "registry_keys": [e["key"] for e in (gen["registry"] or [])],
                                     "dispatch_reads": gen["reads"], "reader": gen_r["reader"]}
    if ctx.tier == "thorough":
        ctx.recheck(["PsdVerif.Props.C08"])


def run_fixtures(ctx, drv, files):
    from psd_tools.api.psd_image import PSDImage
    from psd_tools.psd import PSD
    reqs, obs_list = [], []
    for f in files:
        rel = str(f.relative_to(core.REPO))
        try:
            with open(f, "rb") as fp:
                psd = PSD.read(fp)
        except Exception as e:  # noqa: the reader, not _init
            ctx.skipped.append(f"{rel}: reader raised {type(e).__name__} (not part of C08)")
            continue
        pairs = list(psd._iter_layers())
        recs = [r for r, _ in pairs]
        chans = [c for _, c in pairs]
        toks = [tok_of_record(r) for r in recs]
        try:
            img = PSDImage(psd)
            obs = observe_image(img, recs, chans)
        except Exception as e:  # noqa
            obs = {"outcome": "err", "cls": err_class(e)}
        reqs.append(("tree.open", " ".join(toks) or "-"))
        obs_list.append((rel, toks, obs))
    answers = drv.batch(reqs)
    kreq = []
    for (rel, toks, obs), ans in zip(obs_list, answers):
        roles = role_string(toks)
        ctx.corr_cases += 1
        ctx.count(("fixture", rel), nontrivial=("B" in roles))
        ctx.hist("stream", "fixture")
        brief = {"fixture": rel}
        if ans[0] == "ok":
            if obs["outcome"] != "ok":
                ctx.disagree("fixture: model builds a tree, implementation raises " + obs["cls"], brief)
            else:
                flat = " ".join("%s%d" % (ro, i) for ro, i in zip(roles, obs["flat_r"])) or "-"
                if obs["forest"] != ans[2] or flat != ans[3] or obs["flat_r"] != obs["flat_c"]:
                    ctx.disagree("fixture: tree or flattening differs", {"fixture": rel, "impl": obs["forest"][:200], "model": ans[2][:200]})
        elif ans[0] == "err":
            if obs["outcome"] != "err" or obs["cls"] != ans[1]:
                ctx.disagree("fixture: model raises %s, implementation: %s" % (ans[1], obs.get("cls", "tree")), brief)
        if obs["outcome"] == "ok":
            check_property(ctx, obs, roles, brief)
            for l in db.walk(obs["img"]):
                if not hasattr(l, "_layers"):
                    r = l._record
                    kreq.append((("1" if r.flags.pixel_data_irrelevant else "0", ",".join(keys_of_record(r)) or "-"), l.kind, rel))
        elif depth_outcome(roles) == "ok":
            ctx.fail("C08/open/well-nested-sequence-refused/" + obs["cls"], "PSDImage refuses a well-nested fixture", brief, obs["cls"], "a tree")
    seen = {}
    for k, kind, rel in kreq:
        seen.setdefault((k, kind), rel)
    items = list(seen.items())
    ans = drv.batch([("tree.kind", k[0], k[1]) for (k, _), _ in items])
    for ((k, kind), rel), a in zip(items, ans):
        if a[0] != "ok" or a[1] != kind:
            ctx.disagree("fixture: kind differs", {"fixture": rel, "pdi": k[0], "keys": k[1], "impl": kind, "model": a[1:]})
    ctx.extra["fixtures"] = len(obs_list)
    ctx.extra["fixture_leaf_kind_cases"] = len(items)


def replay(ctx, data):
    inp = data.get("input") or {}
    print("replaying", data.get("signature"))
    if "recipe" in inp:
        obs = observe(inp["recipe"])
        print("tokens:", " ".join(tok_of_spec(s) for s in inp["recipe"]))
        print("implementation:", obs.get("forest", obs.get("cls")))
        if obs["outcome"] == "ok":
            print("flatten (record ids):", obs["flat_r"], "(channel ids):", obs["flat_c"])
            print("kinds:", [l.kind for l in db.walk(obs["img"])])
    elif "sequence" in inp:
        res = eval_sequence(inp["sequence"], inp.get("mode", "one-doc"), {})
        for it, (g, e) in zip(inp["sequence"], res):
            print("record", json.dumps(it["base"]), "flags", it["flags"], "-> kind", g, "| table:", e, "" if g == e else "  <-- differs")
        if inp.get("process", "").startswith("fresh"):
            print("(found in a fresh interpreter; this replay process is fresh as well)")
    elif "place" in inp:
        obs = placement_case(core.REPO / inp["fixture"], inp["depth"], inp["version"], tuple(inp["place"]))
        print("records put in:", place_name(tuple(inp["place"])), "depth", inp["depth"], "version", inp["version"])
        print("file: %s bytes; records in the file: %d; outcome: %s" % (obs.get("bytes"), len(obs.get("toks", [])), obs["outcome"]))
        if obs["outcome"] == "ok":
            print("tree:", obs["forest"], "| flatten (record ids):", obs["flat_r"])
        else:
            print("class:", obs.get("cls"))
    elif "fixture" in inp:
        from psd_tools import PSDImage
        img = PSDImage.open(core.REPO / inp["fixture"])
        print(img)
    print("observed:", data.get("observed"), "expected:", data.get("expected"))
    return 0
