"""C14 - read-only operations are pure; derived values are never stale."""
from __future__ import annotations

import io
import json
import time

import core
import treeops as T
from core import err_class


def corpus(name):
    p = core.VERIF / "harness" / "corpus" / (name + ".json")
    if not p.exists():
        return []
    return [(tuple(c["recipe"]), T.ops_from_json(c["ops"])) for c in json.loads(p.read_text())]


MODEL_OBS = ["bbox", "bbox", "size", "repr", "desc", "len", "isvis"]
OPAQUE = list(T.OPAQUE)
DOC_ONLY = ("save",)


def opaque_pool(w, k):
    C, X = w.conts(), w.layers()
    if k in DOC_ONLY:
        return w.docs()
    if k in ("composite", "numpy", "topil"):
        return w.docs() + X
    if k in T.FILTERS:
        return w.docs() + w.groups() + X[:1]
    if k in ("find", "iterate"):
        return C
    if k in ("mask_effects", "clip_layers"):
        return X
    return C + X


def observation(w, rng, opaque_ok):
    """one read-only call on a random live object"""
    C, X = w.conts(), w.layers()
    if opaque_ok and rng.random() < 0.4:
        k = rng.choice(OPAQUE)
        return ("opaque", k, rng.choice(opaque_pool(w, k)))
    k = rng.choice(MODEL_OBS)
    if k in ("desc", "len"):
        return ("obs", k, rng.choice(C))
    if k == "isvis":
        return ("obs", k, rng.choice(X))
    return ("obs", k, rng.choice(C + X))


def is_observation(op):
    return op[0] in ("obs", "opaque")


def interleave(recipe, ops, rng, opaque_ok, per_step=2):
    """the same history with read-only calls before / after every edit (ids are stable: observations
    allocate nothing). Generated against a scratch world so that the targets exist."""
    w = T.build(recipe)
    out = []
    for op in ops:
        for _ in range(rng.randrange(1, per_step + 1)):
            out.append(observation(w, rng, opaque_ok))
        out.append(op)
        T.apply_real(w, op)
    for _ in range(per_step):
        out.append(observation(w, rng, opaque_ok))
    return out


def sandwiches(recipe, rng, n_prefix=2):
    """read-only call between a structural edit and attribute edits: for EVERY kind of read-only call,
    `structural prefix, [call], attribute edits` - what the call computed or cached must not survive the
    attribute edits. Yields (history without the call, history with it)."""
    w = T.build(recipe)
    prefix = []
    for _ in range(60):
        if len(prefix) >= n_prefix:
            break
        op = T.random_op(w, rng, p_unguarded=0.0, p_attr=0.0)
        if op[0] in ("clear", "delslice", "newlayer", "pop", "delitem", "remove", "delete"):
            continue          # keep the pictures non-empty
        if op[0] in T.INSERTING and T.already_listed(op, w.listed()):
            continue          # outside the guard of the theorems (known finding C10/<op>/already-listed)
        out = T.apply_real(w, op)
        if not out.startswith("err:"):
            prefix.append(op)
    X = [x for x in w.layers() if x in T.attached(w)]
    if not X:
        return
    tails = []
    for _ in range(2):
        tail = []
        for _ in range(rng.randrange(1, 3)):
            k = rng.choice(["vis", "left", "opacity", "clip", "vis"])
            if k == "vis":
                x = rng.choice(X)
                tail.append(("vis", x, not bool(w.objs[x].visible)))
            elif k == "left":
                pl = [x for x in w.plain_leaves() if x in X]
                if pl:
                    tail.append((rng.choice(["left", "top"]), rng.choice(pl), rng.choice([0, 3, 5])))
            elif k == "opacity":
                tail.append(("opacity", rng.choice(X), rng.choice([0, 120])))
            else:
                # the bottom layer of a container has nothing to clip to; elsewhere the layer joins a base
                g = rng.choice([c for c in w.conts() if c in T.attached(w) and w.objs[c]._layers])
                kids = [w.idof(l) for l in w.objs[g]._layers]
                x = kids[0] if rng.random() < 0.6 else rng.choice(kids)
                tail.append(("clip", x, not bool(w.objs[x].clipping_layer)))
        if tail:
            tails.append(tail)
    # ... and structural edits as deep in the tree as possible: what a call on the document or on a group IN BETWEEN
    # cached must not survive an edit further down (ids of objects the tail creates are not used by the calls)
    att = T.attached(w)
    deep = sorted((c for c in w.conts() if c in att), key=lambda c: -depth_of(w, c))
    for g in deep[:2]:
        kids = [w.idof(l) for l in w.objs[g]._layers]
        det = [x for x in w.detached() if not isinstance(w.objs[x], T.Group)]
        tail = []
        if kids:
            tail.append(("delete", kids[0]) if rng.random() < 0.5 else ("move", kids[0], w.docs()[0]))
        if det:
            tail.append(("append", g, det[0]))
        else:
            tail.append(("newgroup", g))
        if tail:
            tails.append(tail)
    d = w.docs()[0]
    calls = [("opaque", k, d) for k in ("save", "composite", "layer_composite", "topil", "numpy", "pretty")]
    calls += [("opaque", k, d) for k in T.FILTERS]
    calls += [("obs", "bbox", d), ("obs", "desc", d)]
    some = [X[0], X[-1]]
    calls += [("opaque", k, x) for k in ("clip_layers", "composite", "mask_effects") for x in dict.fromkeys(some)]
    groups = [g for g in w.groups() if g in att]
    calls += [("obs", "bbox", g) for g in groups[:2]]
    calls += [("opaque", "find", c) for c in [d] + groups]
    calls += [("opaque", "composite_all", g) for g in groups[:2]]
    # every container asked at once (the same history, saturated with one kind of read-only call)
    calls += [[("opaque", "find", c) for c in [d] + groups],
              [("opaque", "composite_all", c) for c in [d] + groups]]
    calls = [c if isinstance(c, list) else [c] for c in calls]
    for tail in tails:
        # the call in the middle ...
        for c in calls:
            yield prefix + tail, prefix + c + tail
        # ... and, for edits of the clipping flag, read-only calls AFTER the edit (the answers afterwards must
        # not depend on which of them came first)
        after = [("opaque", "save", d), ("obs", "bbox", d), ("obs", "desc", d)]
        after += [("opaque", k, x) for k in ("clip_layers", "mask_effects") for x in dict.fromkeys(some)]
        for c in after:
            yield prefix + tail, prefix + tail + [c]
        yield prefix + tail, prefix + tail + after[1:]


def depth_of(w, c):
    n, o = 0, w.objs[c]
    while isinstance(o, T.Layer) and getattr(o, "_parent", None) is not None and n < 100:
        o, n = o._parent, n + 1
    return n


guarded = T.guarded


def _img(r):
    return None if r is None else (r.mode, r.size, T._digest(r.tobytes()))


def battery(w):
    """the answers a user can get afterwards + the bytes save() writes. The rendering comes first (nothing
    but the history precedes it), is asked again at the end (the same read-only call twice gives the same
    answer) and the bytes are written twice."""
    ans = {}

    def ask(key, f):
        try:
            ans[key] = f()
        except RecursionError:
            ans[key] = "err:RecursionError"
        except Exception as e:  # noqa
            ans[key] = "err:" + err_class(e)

    docs = w.docs()
    for d in docs:
        ask((d, "composite"), lambda: _img(w.objs[d].composite(force=True)))
    for i in w.ids():
        o = w.objs[i]
        ask((i, "bbox"), lambda: tuple(o.bbox))
        ask((i, "size"), lambda: tuple(o.size))
        ask((i, "visible"), lambda: bool(o.is_visible()))
        ask((i, "desc"), lambda: [w.idof(x) for x in o.descendants()] if hasattr(o, "descendants") else None)
        if isinstance(o, T.GroupMixin):
            ask((i, "find"), lambda: T.find_answers(w, o))
            try:
                ans[(i, "find-walk")] = T.walk_answers(w, o)
            except Exception:  # noqa
                ans[(i, "find-walk")] = None
        if isinstance(o, T.Layer):
            ask((i, "clip_layers"), lambda: ([w.idof(x) for x in o.clip_layers], bool(o.clipping_layer)))
    for i in docs + w.groups():
        for k in ("composite_all", "composite_shown") if i in docs else ("composite_all",):
            ask((i, k), lambda: T.opaque_answer(w, k, i))
    for d in docs:
        psd = w.objs[d]
        ask((d, "composite-again"), lambda: _img(psd.composite(force=True)))
        ask((d, "composite-default"), lambda: _img(psd.composite()))

        def saved():
            buf = io.BytesIO()
            psd.save(buf)
            return buf.getvalue()
        ask((d, "saved"), saved)
        ask((d, "saved-again"), saved)
        ask((d, "topil"), lambda: _img(psd.topil()))
    return ans


TWICE = (("composite", "composite-again"), ("saved", "saved-again"))
DOC_PICTURE = ("composite", "composite-again", "composite-default", "saved", "saved-again", "topil", "composite_all",
               "composite_shown")


def _is_err(v):
    return isinstance(v, str) and v.startswith("err:")


def emptied(w, d):
    """a document without layers (it is rendered from its stored merged image)"""
    o = w.objs[d] if d < len(w.objs) else None
    return isinstance(o, T.PSDImage) and len(o._layers) == 0



_PLAIN: dict = {}


def purity_problems(recipe, plain, observed):
    """run the history without and with read-only calls; returns [(signature, what)]"""
    kw = dict(check_inv=False, check_shadow=False, check_fresh=False, stop_on_problem=False)
    key = (tuple(recipe), tuple(plain))
    if key not in _PLAIN:                # the same plain history is paired with many observed ones
        if len(_PLAIN) > 400:
            _PLAIN.clear()
        a = T.run_history(recipe, plain, **kw)
        _PLAIN[key] = (a, battery(a.world))
    a, ba = _PLAIN[key]
    b = T.run_history(recipe, observed, **kw)
    bb = battery(b.world)
    out = []
    for tag, B in (("without", ba), ("with", bb)):
        for first, second in TWICE:
            for (i, name), v in B.items():
                if name == first and B.get((i, second)) != v:
                    out.append(("C14/impure/%s-twice-differs" % first,
                                "%s of object %d asked twice in a row (history %s read-only calls) answers %r, then %r"
                                % (first, i, tag, _short(v), _short(B.get((i, second))))))
    for k in ba:
        if ba[k] != bb.get(k):
            i, name = k
            if name in ("topil", "composite-default") and _is_err(ba.get((i, "saved"))) and _is_err(bb.get((i, "saved"))):
                continue      # the stored image is compared after the battery's save(): here that save() raises
            sig = "C14/impure/%s" % name.replace("-again", "")
            if name == "find":
                fresh = bb.get((i, "find-walk"))
                bad = [(x, y) for x, y in zip(bb.get(k) or [], fresh or []) if x != y] if not _is_err(bb.get(k)) else []
                out.append((sig, "find / findall from container %d differ when read-only calls are interleaved; with them "
                            "(name, find, findall) = %r, an independent walk of the lists gives %r"
                            % (i, [x for x, _ in bad][:3] or _short(bb.get(k)), [y for _, y in bad][:3] or _short(ba[k]))))
                continue
            if name in ("bbox", "size", "composite_all") and T.stale_detached(b.world, i):     # (rendered inside its box)
                sig = "C14/bbox-stale/detached-node-with-stale-parent"
            elif name in DOC_PICTURE and emptied(a.world, i) and emptied(b.world, i) and any(
                    o[0] == "opaque" and o[1] == "save" and o[2] == i for o in observed):
                sig = "C14/impure/emptied-document-shows-stored-merged-image"
            out.append((sig, "%s of object %d differs when read-only calls are interleaved: %r vs %r"
                        % (name, i, _short(ba[k]), _short(bb.get(k)))))
    for p in a.problems + b.problems:       # e.g. the same opaque call twice in a row inside the history
        if p[0] == "C14" and "/impure/" in p[1]:
            out.append((p[1], p[2]))
    return out


def shrink_purity(recipe, observed, sig):
    """ddmin on the history WITH read-only calls (the plain history is what remains without them)"""
    def test(sub):
        plain = [o for o in sub if not is_observation(o)]
        if len(plain) == len(sub) or len(guarded(recipe, plain)) != len(plain):
            return False
        return any(s == sig for s, _ in purity_problems(recipe, plain, list(sub)))

    def test_plain(sub):
        plain = [o for o in sub if not is_observation(o)]
        if len(guarded(recipe, plain)) != len(plain):
            return False
        return any(s == sig for s, _ in purity_problems(recipe, list(sub), list(sub)))
    try:
        if sig.endswith("-twice-differs"):
            # a repeated call that answers differently needs no other read-only call: try the plain history
            plain = [o for o in observed if not is_observation(o)]
            for cand in (plain, list(observed)):
                if cand and test_plain(cand):
                    return core.ddmin(cand, test_plain)
        return core.ddmin(list(observed), test)
    except core.Infra:
        raise
    except Exception:  # noqa
        return list(observed)


def run(ctx: core.Run):
    ctx.prove(["PsdVerif.Props.C14"])
    ctx.trusted_base += T.TRUSTED
    ctx.assumptions += T.ASSUME + [
        "purity of numpy / topil / composite w.r.t. NumPy and PIL buffers is checked by the harness (answers and saved "
        "bytes with and without the calls), not modelled; the caches such a call fills are replayed in the model as a "
        "`touch` observation",
    ]
    ctx.model_coverage = T.MODEL_COVERAGE
    rng = ctx.rng
    traces = []
    phase, t_last = {}, [time.time()]

    def lap(name):
        phase[name] = round(time.time() - t_last[0], 1)
        t_last[0] = time.time()
    ctx.extra["phase_s"] = phase
    # 1. corpus: the witnesses of the Lean counterexamples, replayed on the real code
    for recipe, ops in corpus("C14"):
        traces.append(T.run_history(recipe, ops, check_inv=False))
    n_corpus = len(traces)
    # 2. exhaustive: every history of <= 2 candidate operations (attribute setters included) with a bbox / repr
    #    read of every container before each operation
    depth = 2
    for recipe in T.SMALL_TREES[:2] if ctx.quick else T.SMALL_TREES:
        hs = T.exhaustive_histories(recipe, depth, level=2, limit=4000 if ctx.quick else 30000, rng=rng)
        w0 = T.build(recipe)
        reads = [("obs", "bbox", c) for c in w0.conts()]
        for h in hs:
            seq = list(reads)
            for op in h:
                seq.append(op)
                seq += [("obs", "repr", c) for c in w0.conts()[:3]]
            traces.append(T.run_history(recipe, seq, check_inv=False, check_shadow=False))
        ctx.hist("exhaustive_histories", "%s depth %d with reads" % (recipe[0], depth), len(hs))
    lap("exhaustive")
    # 2b. visibility x position: every history of <= 2 operations that hide / show groups and move groups between
    #     containers (inherited visibility: the box of a group depends on its ancestors), every container read (bbox)
    #     before the first and (repr) after every operation - boxes cached under a hidden ancestor included
    vm_pairs = []
    for recipe, lim in ((("hid", "RGB", 8), 500 if ctx.quick else 6000), (("nest", "RGB", 8), 150 if ctx.quick else 3000)):
        w0 = T.build(recipe)
        hs = T.visibility_move_histories(recipe, 1) + T.visibility_move_histories(recipe, 2, limit=lim, rng=rng)
        if not ctx.quick:
            hs += T.visibility_move_histories(recipe, 3, limit=lim, rng=rng)
        for h in hs:
            traces.append(T.run_history(recipe, T.read_everything(w0, h), check_inv=False, check_shadow=False))
        for h in rng.sample(hs, min(len(hs), 12 if ctx.quick else 150)):
            h = guarded(recipe, h)
            vm_pairs.append((recipe, h, T.read_everything(w0, h, kinds=("bbox", "repr")), "visibility-move"))
        ctx.hist("exhaustive_histories", "%s visibility x position with reads" % recipe[0], len(hs))
    lap("visibility-move")
    # 3. random walks with an observe transition at (almost) every step
    recipes = T.walk_recipes()
    n_walks, max_len = (150, 12) if ctx.quick else (1200, 60)
    for k in range(n_walks):
        recipe = recipes[k % len(recipes)]
        ops = T.random_walk(recipe, rng, rng.randrange(3, max_len + 1), p_unguarded=0.02, p_attr=0.3)
        opaque_ok = recipe[0] != "fixture" or recipe[1] in ("clipping-mask.psd", "group.psd")
        traces.append(T.run_history(recipe, interleave(recipe, ops, rng, opaque_ok, per_step=1), check_inv=False))
    lap("walks")
    T.compare_with_model(ctx, traces, what="C14")
    lap("model")
    T.coverage(ctx, traces)
    T.report(ctx, traces, props=("C14",))
    lap("report")
    # 4. purity: answers and saved bytes with and without read-only calls
    #    (a) random histories with random read-only calls interleaved; (b) sandwiches: every kind of read-only
    #    call between a structural edit and attribute edits, and after them
    n_pure = 40 if ctx.quick else 400
    n_sand = 6 if ctx.quick else 40
    pure_recipes = [("small", "L", 8), ("flat", "RGB", 8), ("nest", "RGB", 8), ("nest", "L", 8), ("two", "RGB", 8, "L"),
                    ("fixture", "clipping-mask.psd"), ("fixture", "group.psd"), ("fixture", "16bit5x5.psd"),
                    ("nest", "CMYK", 8), ("nest", "RGB", 16), ("board", "RGB", 8), ("dup", "RGB", 8), ("hid", "RGB", 8)]
    sand_recipes = [("flat", "RGB", 8), ("board", "RGB", 8), ("nest", "L", 8), ("small", "L", 8), ("nest", "CMYK", 8),
                    ("nest", "RGB", 16), ("two", "RGB", 8, "L"), ("dup", "RGB", 8)]
    off = rng.randrange(len(sand_recipes))
    # nested groups / hidden ancestors always, the other trees in a seeded rotation
    sand_recipes = [("nest", "RGB", 8), ("hid", "RGB", 8)] + sand_recipes[off:] + sand_recipes[:off]
    pairs = []
    cp = core.VERIF / "harness" / "corpus" / "C14.json"
    for c in (json.loads(cp.read_text()) if cp.exists() else []):
        if "with_observations" in c:
            pairs.append((tuple(c["recipe"]), T.ops_from_json(c["ops"]), T.ops_from_json(c["with_observations"]), "corpus"))
    # boundary cases first: sandwiches, then the visibility x position family, then random interleavings
    for k in range(n_sand):
        recipe = sand_recipes[k % len(sand_recipes)]
        for plain, observed in sandwiches(recipe, rng):
            pairs.append((recipe, plain, observed, "sandwich"))
    pairs += vm_pairs
    for k in range(n_pure):
        recipe = pure_recipes[k % len(pure_recipes)]
        ops = guarded(recipe, T.random_walk(recipe, rng, rng.randrange(2, (10 if ctx.quick else 30)),
                                            p_unguarded=0.0, p_attr=0.35))
        pairs.append((recipe, ops, interleave(recipe, ops, rng, True), "random"))
    seen = {}
    for recipe, plain, observed, how in pairs:
        probs = purity_problems(recipe, plain, observed)
        ctx.count(("pure", recipe, tuple(observed)), nontrivial=True)
        ctx.hist("purity", "%s %s" % (how, "same" if not probs else "differs"))
        for c in observed:
            if is_observation(c):
                ctx.hist("purity_calls", c[1])
        for sig, what in probs:
            if sig in seen:
                seen[sig]["count"] += 1
                continue
            small = shrink_purity(recipe, observed, sig)
            plain_small = [o for o in small if not is_observation(o)]
            again = [w_ for s_, w_ in purity_problems(recipe, plain_small, small) if s_ == sig]
            if not again:
                small, plain_small, again = list(observed), list(plain), [what]
            seen[sig] = {"count": 1}
            ctx.fail(sig, again[0],
                     {"recipe": list(recipe), "ops": T.ops_to_json(plain_small), "with_observations": T.ops_to_json(small)},
                     observed=again[0], expected="the same answers and the same saved bytes with and without the read-only "
                     "calls; the same answer when a read-only call is repeated")
    for sig, dct in seen.items():
        for f in ctx.failures:
            if f["signature"] == sig:
                f["count"] = dct["count"]
    ctx.extra["purity_cases"] = len(pairs)
    lap("purity")
    for t in traces[:n_corpus] + traces[-2:]:
        ctx.sample({"recipe": list(t.world.recipe), "ops": [T.op_str(o) for o in t.ops[:10]], "outs": t.outs[:10]})
    ctx.rule = ("a case is one (initial tree, history of edits and read-only calls); non-trivial = at least one operation. "
                "After EVERY step every cached box of the object graph is compared with a fresh Group.extract_bbox and the "
                "full dump (caches included) with the model. Exhaustive: all histories of <= 2 candidate operations "
                "(structure edits, visible, left) with bbox / repr reads around each; the visibility x position family (hide / "
                "show every group, move every group to every other container, detach / re-attach; trees with groups below a "
                "hidden and below a visible group) with every container read before and after each operation; random: %d walks "
                "of <= %d edits with read-only calls (bbox, size, repr, descendants, len, is_visible, composite, composite with "
                "a custom layer_filter - the same function object reused, an equivalent of the default, a fresh lambda -, numpy, "
                "topil, save to a throw-away buffer, find / findall - compared with a walk of the lists -, iteration, "
                "clip_layers, mask / effects; each opaque call made twice in a row and the two answers compared) interleaved; "
                "purity: %d histories (every kind of read-only call - on the document, on groups, find / filtered composite "
                "on EVERY container at once - between a structural edit and attribute edits (visible, offset, opacity, clipping "
                "flag) or structural edits as deep in the tree as possible, and after them; visibility x position histories "
                "with and without reads; random interleavings) run with and without the read-only calls, later answers "
                "(composite first and again at the end, bbox, size, is_visible, descendants, find / findall of every name in use "
                "and an absent one from EVERY container, clip_layers, filtered composite of the document and of every group, "
                "default composite, topil) and the bytes written by save() (twice) compared." % (n_walks, max_len, len(pairs)))
    ctx.notes += NOTES
    if ctx.tier == "thorough":
        ctx.recheck(["PsdVerif.Props.C14"])


NOTES = [
    "proved (Props/C14.lean): fresh_init, fresh_step (every operation; guard of the inserting operations; recursion limit "
    "not hit), fresh_history, answers_fresh_history, observe_pure, observe_keeps_fresh, answers_fresh, later_answers_same; "
    "snapshot counterexamples: legacy_append_after_read_stale, legacy_document_bbox_stale, "
    "legacy_hidden_group_below_stale; known finding proved on a witness: detached_stale_parent_witness",
    "Fresh speaks about containers that are in a document; for detached containers with a stale parent pointer the "
    "statement is false (detached_stale_parent_witness, known finding C14/bbox-stale/detached-node-with-stale-parent)",
    "stated in DESIGN, not proved: 'saved bytes unchanged by observations' (observable of DESIGN includes the bytes "
    "save() writes; proved: nothing but caches changes, and caches stay fresh; the bytes are compared by the harness); "
    "lazily created mask / vector mask / origination / effects views and ShapeLayer._bbox are not modelled",
    "memoised answers the model does not know (a name index, a per-filter group box, ...) are caught only by the search: "
    "purity pairs (with / without the read-only call before an edit), the same call repeated, find compared with a walk of "
    "the lists; the model's caches are the _bbox fields only",
    "save() is documented to refresh the stored merged image when the structure was edited; topil() (the stored image) and "
    "the default composite() are therefore compared after the battery's own save(), the forced rendering before it. A "
    "document that was EMPTIED is rendered from that stored image, so there an earlier save() shows through (known finding "
    "C14/impure/emptied-document-shows-stored-merged-image)",
]


def _short(v):
    if isinstance(v, (bytes, bytearray)):
        return "<%s bytes>" % T._digest(v)
    if isinstance(v, tuple) and v and isinstance(v[-1], (bytes, bytearray)):
        return v[:-1] + ("<%d bytes>" % len(v[-1]),)
    return v


def replay(ctx, data):
    T.replay_print(data)
    inp = data.get("input") or {}
    if "with_observations" in inp:
        recipe = tuple(inp["recipe"])
        for sig, what in purity_problems(recipe, T.ops_from_json(inp["ops"]), T.ops_from_json(inp["with_observations"])):
            print("  ", sig, ":", what[:300])
    return 0
