"""C14 - read-only operations are pure; derived values are never stale."""
from __future__ import annotations

import io
import json

import core
import treeops as T
from core import err_class


def corpus(name):
    p = core.VERIF / "harness" / "corpus" / (name + ".json")
    if not p.exists():
        return []
    return [(tuple(c["recipe"]), T.ops_from_json(c["ops"])) for c in json.loads(p.read_text())]


MODEL_OBS = ["bbox", "bbox", "size", "repr", "desc", "len", "isvis"]
OPAQUE = ["composite", "numpy", "topil", "find", "iterate", "pretty", "layer_composite", "mask_effects"]


def observation(w, rng, opaque_ok):
    """one read-only call on a random live object"""
    C, X = w.conts(), w.layers()
    if opaque_ok and rng.random() < 0.4:
        k = rng.choice(OPAQUE)
        if k in ("composite", "numpy", "topil"):
            pool = w.docs() + X
        elif k in ("find", "iterate"):
            pool = C
        elif k == "mask_effects":
            pool = X
        else:
            pool = C + X
        return ("opaque", k, rng.choice(pool))
    k = rng.choice(MODEL_OBS)
    if k in ("desc", "len"):
        return ("obs", k, rng.choice(C))
    if k == "isvis":
        return ("obs", k, rng.choice(X))
    return ("obs", k, rng.choice(C + X))


def interleave(recipe, ops, rng, opaque_ok, per_step=2):
    """the same history with read-only calls before / after every edit (ids are stable: observations
    allocate nothing). Generated against a scratch world so that the targets exist."""
    w = T.build(recipe)
    out = []
    for op in ops:
        for _ in range(rng.randrange(1, per_step + 1)):
            out.append(observation(w, rng, opaque_ok))
        out.append(op)
        T.apply_real(w, op)
    for _ in range(per_step):
        out.append(observation(w, rng, opaque_ok))
    return out


def battery(w):
    """the answers a user can get afterwards + the bytes save() writes"""
    ans = {}
    for i in w.ids():
        o = w.objs[i]
        for name, f in (("bbox", lambda: tuple(o.bbox)), ("size", lambda: tuple(o.size)),
                        ("visible", lambda: bool(o.is_visible())),
                        ("desc", lambda: [w.idof(x) for x in o.descendants()] if hasattr(o, "descendants") else None)):
            try:
                ans[(i, name)] = f()
            except RecursionError:
                ans[(i, name)] = "err:RecursionError"
            except Exception as e:  # noqa
                ans[(i, name)] = "err:" + err_class(e)
    for d in w.docs():
        psd = w.objs[d]
        try:
            im = psd.composite(force=True)
            ans[(d, "composite")] = None if im is None else (im.mode, im.size, im.tobytes())
        except Exception as e:  # noqa
            ans[(d, "composite")] = "err:" + err_class(e)
        buf = io.BytesIO()
        try:
            psd.save(buf)
            ans[(d, "saved")] = buf.getvalue()
        except Exception as e:  # noqa
            ans[(d, "saved")] = "err:" + err_class(e)
    return ans


def purity_case(ctx, recipe, ops, rng, opaque_ok):
    """history with and without observations: later answers and saved bytes must be the same"""
    a = T.run_history(recipe, ops, check_inv=False, check_shadow=False, stop_on_problem=False)
    obs_ops = interleave(recipe, ops, rng, opaque_ok)
    b = T.run_history(recipe, obs_ops, check_inv=False, check_shadow=False, stop_on_problem=False)
    ba, bb = battery(a.world), battery(b.world)
    diffs = [k for k in ba if ba[k] != bb.get(k)]
    return a, b, obs_ops, diffs, ba, bb


def run(ctx: core.Run):
    ctx.prove(["PsdVerif.Props.C14"])
    ctx.trusted_base += T.TRUSTED
    ctx.assumptions += T.ASSUME + [
        "purity of numpy / topil / composite w.r.t. NumPy and PIL buffers is checked by the harness (answers and saved "
        "bytes with and without the calls), not modelled; the caches such a call fills are replayed in the model as a "
        "`touch` observation",
    ]
    ctx.model_coverage = T.MODEL_COVERAGE
    rng = ctx.rng
    traces = []
    # 1. corpus: the witnesses of the Lean counterexamples, replayed on the real code
    for recipe, ops in corpus("C14"):
        traces.append(T.run_history(recipe, ops, check_inv=False))
    n_corpus = len(traces)
    # 2. exhaustive: every history of <= 2 candidate operations (attribute setters included) with a bbox / repr
    #    read of every container before each operation
    depth = 2
    for recipe in T.SMALL_TREES[:2] if ctx.quick else T.SMALL_TREES:
        hs = T.exhaustive_histories(recipe, depth, level=2, limit=4000 if ctx.quick else 30000, rng=rng)
        w0 = T.build(recipe)
        reads = [("obs", "bbox", c) for c in w0.conts()]
        for h in hs:
            seq = list(reads)
            for op in h:
                seq.append(op)
                seq += [("obs", "repr", c) for c in w0.conts()[:3]]
            traces.append(T.run_history(recipe, seq, check_inv=False, check_shadow=False))
        ctx.hist("exhaustive_histories", "%s depth %d with reads" % (recipe[0], depth), len(hs))
    # 3. random walks with an observe transition at (almost) every step
    recipes = T.walk_recipes()
    n_walks, max_len = (150, 12) if ctx.quick else (1200, 60)
    for k in range(n_walks):
        recipe = recipes[k % len(recipes)]
        ops = T.random_walk(recipe, rng, rng.randrange(3, max_len + 1), p_unguarded=0.02, p_attr=0.3)
        opaque_ok = recipe[0] != "fixture" or recipe[1] in ("clipping-mask.psd", "group.psd")
        traces.append(T.run_history(recipe, interleave(recipe, ops, rng, opaque_ok, per_step=1), check_inv=False))
    T.compare_with_model(ctx, traces, what="C14")
    T.coverage(ctx, traces)
    T.report(ctx, traces, props=("C14",))
    # 4. purity: answers and saved bytes with and without observations
    n_pure = 60 if ctx.quick else 500
    pure_recipes = [("small", "L", 8), ("flat", "RGB", 8), ("nest", "RGB", 8), ("nest", "L", 8), ("two", "RGB", 8, "L"),
                    ("fixture", "clipping-mask.psd"), ("fixture", "group.psd"), ("fixture", "16bit5x5.psd"),
                    ("nest", "CMYK", 8), ("nest", "RGB", 16)]
    impure = 0
    for k in range(n_pure):
        recipe = pure_recipes[k % len(pure_recipes)]
        ops = T.random_walk(recipe, rng, rng.randrange(2, (10 if ctx.quick else 30)), p_unguarded=0.0, p_attr=0.3)
        a, b, obs_ops, diffs, ba, bb = purity_case(ctx, recipe, ops, rng, opaque_ok=True)
        ctx.count(("pure", recipe, tuple(ops)), nontrivial=True)
        ctx.hist("purity", "same" if not diffs else "differs")
        if diffs:
            impure += 1
            i, name = diffs[0]
            what = "%s of object %d differs when read-only calls are interleaved: %r vs %r" % (
                name, i, _short(ba[(i, name)]), _short(bb.get((i, name))))
            ctx.fail("C14/impure/%s" % name, what,
                     {"recipe": list(recipe), "ops": T.ops_to_json(ops), "with_observations": T.ops_to_json(obs_ops)},
                     observed=what, expected="the same answers and the same saved bytes")
    ctx.extra["purity_cases"] = n_pure
    for t in traces[:n_corpus] + traces[-2:]:
        ctx.sample({"recipe": list(t.world.recipe), "ops": [T.op_str(o) for o in t.ops[:10]], "outs": t.outs[:10]})
    ctx.rule = ("a case is one (initial tree, history of edits and read-only calls); non-trivial = at least one operation. "
                "After EVERY step every cached box of the object graph is compared with a fresh Group.extract_bbox and the "
                "full dump (caches included) with the model. Exhaustive: all histories of <= 2 candidate operations "
                "(structure edits, visible, left) with bbox / repr reads around each; random: %d walks of <= %d edits with "
                "read-only calls (bbox, size, repr, descendants, len, is_visible, composite, numpy, topil, find, iteration, "
                "mask / effects) interleaved; purity: %d histories run with and without the read-only calls, later answers "
                "(bbox, size, is_visible, descendants, composite) and the bytes written by save() compared."
                % (n_walks, max_len, n_pure))
    ctx.notes += NOTES
    if ctx.tier == "thorough":
        ctx.recheck(["PsdVerif.Props.C14"])


NOTES = [
    "proved (Props/C14.lean): fresh_init, fresh_step (every operation; guard of the inserting operations; recursion limit "
    "not hit), fresh_history, answers_fresh_history, observe_pure, observe_keeps_fresh, answers_fresh, later_answers_same; "
    "snapshot counterexamples: legacy_append_after_read_stale, legacy_document_bbox_stale, "
    "legacy_hidden_group_below_stale; known finding proved on a witness: detached_stale_parent_witness",
    "Fresh speaks about containers that are in a document; for detached containers with a stale parent pointer the "
    "statement is false (detached_stale_parent_witness, known finding C14/bbox-stale/detached-node-with-stale-parent)",
    "stated in DESIGN, not proved: 'saved bytes unchanged by observations' (observable of DESIGN includes the bytes "
    "save() writes; proved: nothing but caches changes, and caches stay fresh; the bytes are compared by the harness); "
    "lazily created mask / vector mask / origination / effects views and ShapeLayer._bbox are not modelled",
]


def _short(v):
    if isinstance(v, (bytes, bytearray)):
        return "<%d bytes>" % len(v)
    if isinstance(v, tuple) and v and isinstance(v[-1], (bytes, bytearray)):
        return v[:-1] + ("<%d bytes>" % len(v[-1]),)
    return v


def replay(ctx, data):
    T.replay_print(data)
    inp = data.get("input") or {}
    if "with_observations" in inp:
        recipe = tuple(inp["recipe"])
        a = T.run_history(recipe, T.ops_from_json(inp["ops"]), check_inv=False, check_shadow=False, stop_on_problem=False)
        b = T.run_history(recipe, T.ops_from_json(inp["with_observations"]), check_inv=False, check_shadow=False,
                          stop_on_problem=False)
        ba, bb = battery(a.world), battery(b.world)
        for k in ba:
            if ba[k] != bb.get(k):
                print("  differs:", k, _short(ba[k]), "vs", _short(bb.get(k)))
    return 0
