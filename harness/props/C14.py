"""C14 - read-only operations are pure; derived values are never stale."""
from __future__ import annotations

import io
import json
import time

import core
import derived as D
import extract_c14
import freshtable
import members as M
import treeops as T
from core import err_class


def corpus(name):
    p = core.VERIF / "harness" / "corpus" / (name + ".json")
    if not p.exists():
        return []
    return [(tuple(c["recipe"]), T.ops_from_json(c["ops"])) for c in json.loads(p.read_text())]


MODEL_OBS = ["bbox", "bbox", "size", "repr", "desc", "len", "isvis"]
OPAQUE = list(T.OPAQUE)
DOC_ONLY = ("save",)


def opaque_pool(w, k):
    C, X = w.conts(), w.layers()
    if k in DOC_ONLY:
        return w.docs()
    if k in ("composite", "numpy", "topil"):
        return w.docs() + X
    if k in T.FILTERS:
        return w.docs() + w.groups() + X[:1]
    if k in ("find", "iterate"):
        return C
    if k in ("mask_effects", "clip_layers"):
        return X
    return C + X


def observation(w, rng, opaque_ok):
    """one read-only call on a random live object"""
    C, X = w.conts(), w.layers()
    if opaque_ok and rng.random() < 0.4:
        k = rng.choice(OPAQUE)
        return ("opaque", k, rng.choice(opaque_pool(w, k)))
    k = rng.choice(MODEL_OBS)
    if k in ("desc", "len"):
        return ("obs", k, rng.choice(C))
    if k == "isvis":
        return ("obs", k, rng.choice(X))
    return ("obs", k, rng.choice(C + X))


def is_observation(op):
    return op[0] in ("obs", "opaque")


def interleave(recipe, ops, rng, opaque_ok, per_step=2):
    """the same history with read-only calls before / after every edit (ids are stable: observations
    allocate nothing). Generated against a scratch world so that the targets exist."""
    w = T.build(recipe)
    out = []
    for op in ops:
        for _ in range(rng.randrange(1, per_step + 1)):
            out.append(observation(w, rng, opaque_ok))
        out.append(op)
        T.apply_real(w, op)
    for _ in range(per_step):
        out.append(observation(w, rng, opaque_ok))
    return out


def sandwiches(recipe, rng, n_prefix=2):
    """read-only call between a structural edit and attribute edits: for EVERY kind of read-only call,
    `structural prefix, [call], attribute edits` - what the call computed or cached must not survive the
    attribute edits. Yields (history without the call, history with it)."""
    w = T.build(recipe)
    prefix = []
    for _ in range(60):
        if len(prefix) >= n_prefix:
            break
        op = T.random_op(w, rng, p_unguarded=0.0, p_attr=0.0)
        if op[0] in ("clear", "delslice", "newlayer", "pop", "delitem", "remove", "delete"):
            continue          # keep the pictures non-empty
        if op[0] in T.INSERTING and T.already_listed(op, w.listed()):
            continue          # outside the guard of the theorems (known finding C10/<op>/already-listed)
        out = T.apply_real(w, op)
        if not out.startswith("err:"):
            prefix.append(op)
    X = [x for x in w.layers() if x in T.attached(w)]
    if not X:
        return
    tails = []
    for _ in range(2):
        tail = []
        for _ in range(rng.randrange(1, 3)):
            k = rng.choice(["vis", "left", "opacity", "clip", "vis"])
            if k == "vis":
                x = rng.choice(X)
                tail.append(("vis", x, not bool(w.objs[x].visible)))
            elif k == "left":
                pl = [x for x in w.plain_leaves() if x in X]
                if pl:
                    tail.append((rng.choice(["left", "top"]), rng.choice(pl), rng.choice([0, 3, 5])))
            elif k == "opacity":
                tail.append(("opacity", rng.choice(X), rng.choice([0, 120])))
            else:
                # the bottom layer of a container has nothing to clip to; elsewhere the layer joins a base
                g = rng.choice([c for c in w.conts() if c in T.attached(w) and w.objs[c]._layers])
                kids = [w.idof(l) for l in w.objs[g]._layers]
                x = kids[0] if rng.random() < 0.6 else rng.choice(kids)
                tail.append(("clip", x, not bool(w.objs[x].clipping_layer)))
        if tail:
            tails.append(tail)
    # ... and structural edits as deep in the tree as possible: what a call on the document or on a group IN BETWEEN
    # cached must not survive an edit further down (ids of objects the tail creates are not used by the calls)
    att = T.attached(w)
    deep = sorted((c for c in w.conts() if c in att), key=lambda c: -depth_of(w, c))
    for g in deep[:2]:
        kids = [w.idof(l) for l in w.objs[g]._layers]
        det = [x for x in w.detached() if not isinstance(w.objs[x], T.Group)]
        tail = []
        if kids:
            tail.append(("delete", kids[0]) if rng.random() < 0.5 else ("move", kids[0], w.docs()[0]))
        if det:
            tail.append(("append", g, det[0]))
        else:
            tail.append(("newgroup", g))
        if tail:
            tails.append(tail)
    d = w.docs()[0]
    calls = [("opaque", k, d) for k in ("save", "composite", "layer_composite", "topil", "numpy", "pretty")]
    calls += [("opaque", k, d) for k in T.FILTERS]
    calls += [("obs", "bbox", d), ("obs", "desc", d)]
    some = [X[0], X[-1]]
    calls += [("opaque", k, x) for k in ("clip_layers", "composite", "mask_effects") for x in dict.fromkeys(some)]
    groups = [g for g in w.groups() if g in att]
    calls += [("obs", "bbox", g) for g in groups[:2]]
    calls += [("opaque", "find", c) for c in [d] + groups]
    calls += [("opaque", "composite_all", g) for g in groups[:2]]
    # every container asked at once (the same history, saturated with one kind of read-only call)
    calls += [[("opaque", "find", c) for c in [d] + groups],
              [("opaque", "composite_all", c) for c in [d] + groups]]
    calls = [c if isinstance(c, list) else [c] for c in calls]
    for tail in tails:
        # the call in the middle ...
        for c in calls:
            yield prefix + tail, prefix + c + tail
        # ... and, for edits of the clipping flag, read-only calls AFTER the edit (the answers afterwards must
        # not depend on which of them came first)
        after = [("opaque", "save", d), ("obs", "bbox", d), ("obs", "desc", d)]
        after += [("opaque", k, x) for k in ("clip_layers", "mask_effects") for x in dict.fromkeys(some)]
        for c in after:
            yield prefix + tail, prefix + tail + [c]
        yield prefix + tail, prefix + tail + after[1:]


def depth_of(w, c):
    n, o = 0, w.objs[c]
    while isinstance(o, T.Layer) and getattr(o, "_parent", None) is not None and n < 100:
        o, n = o._parent, n + 1
    return n


guarded = T.guarded


def _img(r):
    return None if r is None else (r.mode, r.size, T._digest(r.tobytes()))


def battery(w, pixels=True):
    """the answers a user can get afterwards + the bytes save() writes. The rendering comes first (nothing
    but the history precedes it), is asked again at the end (the same read-only call twice gives the same
    answer) and the bytes are written twice. pixels=False (large canvases): no renderings, everything else."""
    ans = {}

    def ask(key, f):
        if not pixels and key[1] in DOC_PICTURE and not key[1].startswith("saved"):
            return
        try:
            ans[key] = f()
        except RecursionError:
            ans[key] = "err:RecursionError"
        except Exception as e:  # noqa
            ans[key] = "err:" + err_class(e)

    docs = w.docs()
    for d in docs:
        ask((d, "composite"), lambda: _img(w.objs[d].composite(force=True)))
    for i in w.ids():
        o = w.objs[i]
        ask((i, "bbox"), lambda: tuple(o.bbox))
        ask((i, "size"), lambda: tuple(o.size))
        ask((i, "visible"), lambda: bool(o.is_visible()))
        ask((i, "desc"), lambda: [w.idof(x) for x in o.descendants()] if hasattr(o, "descendants") else None)
        if isinstance(o, T.GroupMixin):
            ask((i, "find"), lambda: T.find_answers(w, o))
            try:
                ans[(i, "find-walk")] = T.walk_answers(w, o)
            except Exception:  # noqa
                ans[(i, "find-walk")] = None
        if isinstance(o, T.Layer):
            ask((i, "clip_layers"), lambda: ([w.idof(x) for x in o.clip_layers], bool(o.clipping_layer)))
    for i in docs + w.groups():
        for k in ("composite_all", "composite_shown") if i in docs else ("composite_all",):
            ask((i, k), lambda: T.opaque_answer(w, k, i))
    for d in docs:
        psd = w.objs[d]
        ask((d, "composite-again"), lambda: _img(psd.composite(force=True)))
        ask((d, "composite-default"), lambda: _img(psd.composite()))

        def saved():
            buf = io.BytesIO()
            psd.save(buf)
            return buf.getvalue()
        ask((d, "saved"), saved)
        ask((d, "saved-again"), saved)
        ask((d, "topil"), lambda: _img(psd.topil()))
    return ans


TWICE = (("composite", "composite-again"), ("saved", "saved-again"))
DOC_PICTURE = ("composite", "composite-again", "composite-default", "saved", "saved-again", "topil", "composite_all",
               "composite_shown")


def _is_err(v):
    return isinstance(v, str) and v.startswith("err:")


def emptied(w, d):
    """a document without layers (it is rendered from its stored merged image)"""
    o = w.objs[d] if d < len(w.objs) else None
    return isinstance(o, T.PSDImage) and len(o._layers) == 0



_PLAIN: dict = {}


def purity_problems(recipe, plain, observed):
    """run the history without and with read-only calls; returns [(signature, what)]"""
    kw = dict(check_inv=False, check_shadow=False, check_fresh=False, stop_on_problem=False)
    key = (tuple(recipe), tuple(plain))
    if key not in _PLAIN:                # the same plain history is paired with many observed ones
        if len(_PLAIN) > 400:
            _PLAIN.clear()
        a = T.run_history(recipe, plain, **kw)
        _PLAIN[key] = (a, battery(a.world))
    a, ba = _PLAIN[key]
    b = T.run_history(recipe, observed, **kw)
    bb = battery(b.world)
    out = []
    for tag, B in (("without", ba), ("with", bb)):
        for first, second in TWICE:
            for (i, name), v in B.items():
                if name == first and B.get((i, second)) != v:
                    out.append(("C14/impure/%s-twice-differs" % first,
                                "%s of object %d asked twice in a row (history %s read-only calls) answers %r, then %r"
                                % (first, i, tag, _short(v), _short(B.get((i, second))))))
    for k in ba:
        if ba[k] != bb.get(k):
            i, name = k
            if name in ("topil", "composite-default") and _is_err(ba.get((i, "saved"))) and _is_err(bb.get((i, "saved"))):
                continue      # the stored image is compared after the battery's save(): here that save() raises
            sig = "C14/impure/%s" % name.replace("-again", "")
            if name == "find":
                fresh = bb.get((i, "find-walk"))
                bad = [(x, y) for x, y in zip(bb.get(k) or [], fresh or []) if x != y] if not _is_err(bb.get(k)) else []
                out.append((sig, "find / findall from container %d differ when read-only calls are interleaved; with them "
                            "(name, find, findall) = %r, an independent walk of the lists gives %r"
                            % (i, [x for x, _ in bad][:3] or _short(bb.get(k)), [y for _, y in bad][:3] or _short(ba[k]))))
                continue
            if name in ("bbox", "size", "composite_all") and T.stale_detached(b.world, i):     # (rendered inside its box)
                sig = "C14/bbox-stale/detached-node-with-stale-parent"
            elif name in DOC_PICTURE and emptied(a.world, i) and emptied(b.world, i) and any(
                    o[0] == "opaque" and o[1] == "save" and o[2] == i for o in observed):
                sig = "C14/impure/emptied-document-shows-stored-merged-image"
            out.append((sig, "%s of object %d differs when read-only calls are interleaved: %r vs %r"
                        % (name, i, _short(ba[k]), _short(bb.get(k)))))
    for p in a.problems + b.problems:       # e.g. the same opaque call twice in a row inside the history
        if p[0] == "C14" and "/impure/" in p[1]:
            out.append((p[1], p[2]))
    return out


def shrink_purity(recipe, observed, sig):
    """ddmin on the history WITH read-only calls (the plain history is what remains without them)"""
    def test(sub):
        plain = [o for o in sub if not is_observation(o)]
        if len(plain) == len(sub) or len(guarded(recipe, plain)) != len(plain):
            return False
        return any(s == sig for s, _ in purity_problems(recipe, plain, list(sub)))

    def test_plain(sub):
        plain = [o for o in sub if not is_observation(o)]
        if len(guarded(recipe, plain)) != len(plain):
            return False
        return any(s == sig for s, _ in purity_problems(recipe, list(sub), list(sub)))
    try:
        if sig.endswith("-twice-differs"):
            # a repeated call that answers differently needs no other read-only call: try the plain history
            plain = [o for o in observed if not is_observation(o)]
            for cand in (plain, list(observed)):
                if cand and test_plain(cand):
                    return core.ddmin(cand, test_plain)
        return core.ddmin(list(observed), test)
    except core.Infra:
        raise
    except Exception:  # noqa
        return list(observed)


# fixtures whose layers carry the views the API-built trees cannot have (effects, masks, strokes, vector masks, smart
# objects); the other files of tests/psd_files are sampled (quick) / all taken (thorough)
MEMBER_FIXTURES = ["layer_effects.psd", "mask-disabled.psd", "stroke.psd", "layers/curves-with-vectormask.psd",
                   "placedLayer.psd", "empty-group.psd"]
MEMBER_FIXTURES_THOROUGH = ["hidden-groups.psd", "clipping-mask2.psd", "effects/stroke-effects.psd", "artboard.psd"]


def member_recipes(ctx, rng):
    """fixture layers of every kind + layers and documents made through the API"""
    api = [("nest", "RGB", 8), ("board", "RGB", 8), ("two", "RGB", 8, "L"), ("small", "L", 8), ("clips", "CMYK", 8)]
    fx = list(T.FIXTURES) + MEMBER_FIXTURES
    if ctx.quick:
        fx = [f for f in fx if f != "artboard.psd"]        # (a large canvas; the Artboard class is in the `board` tree)
    else:
        api += [("hid", "RGB", 8), ("nest", "CMYK", 8), ("nest", "L", 16), ("dup", "RGB", 8), ("flat", "RGB", 32)]
        fx += MEMBER_FIXTURES_THOROUGH
    fx = [f for f in fx if (T.FIX / f).exists()]
    # + a seeded sample of the other fixture files of the checkout (all of them in the thorough tier)
    rest = sorted(str(p.relative_to(T.FIX)) for p in T.FIX.rglob("*.psd")
                  if p.stat().st_size <= 300_000)
    rest = [f for f in rest if f not in fx]
    rng.shuffle(rest)
    fx += rest[:2] if ctx.quick else rest[:20]
    return api + [("fixture", f) for f in dict.fromkeys(fx)]


def member_prefix(recipe, rng):
    """a short history that creates objects through the API (Group.new, PixelLayer.frompil, group_layers) and puts
    them into the tree: the members are then read on these objects too"""
    w = T.build(recipe)
    d = w.docs()[0]
    ops = [("newgroup", d), ("newlayer", d, (1, 1, 3, 3))]
    out = []
    for op in ops:
        r = T.apply_real(w, op)
        out.append(op)
        if op[0] == "newlayer" and r.startswith("id:"):
            tgt = rng.choice([d] + [g for g in w.groups() if g in T.attached(w)])
            out.append(("append", tgt, int(r[3:])))
            T.apply_real(w, out[-1])
    return out, w


def heavy(w, i, path):
    """renderings of large canvases take seconds each: on those, the pixel members are read on the document and on
    two layers only (every other member on every object)"""
    if not any(path.startswith(p) for p in ("composite", "numpy", "topil", "thumbnail", "mask.topil")):
        return False
    big = [d for d in w.docs() if w.objs[d].width * w.objs[d].height > 40000]
    if not big:
        return False
    return i not in w.docs()[:1] + w.layers()[:2]


def member_sweep(ctx, rng, pairs):
    traces = []
    classes = {}
    exercised = {}
    new_attrs = set()
    n_calls = 0
    for recipe in member_recipes(ctx, rng):
        try:
            prefix, w0 = member_prefix(recipe, rng) if recipe[0] != "fixture" or rng.random() < 0.5 else ([], T.build(recipe))
        except Exception as e:  # noqa
            ctx.notes.append("members: fixture %r cannot be opened (%s)" % (recipe, err_class(e)))
            continue
        calls = []
        for i in w0.ids():
            o = w0.objs[i]
            cls = type(o)
            if cls.__name__ not in classes:
                g, z, one, hooks, skipped = M.classify(cls)
                classes[cls.__name__] = {"property_getters": g, "zero_argument_queries": z,
                                         "one_argument_queries": [n for n, _ in one], "display_hooks": hooks,
                                         "not_called_mutators": ["%s (%s)" % x for x in skipped]}
            for p in M.catalog(w0, o):
                if heavy(w0, i, p):
                    continue
                calls.append(("opaque", "m:" + p, i))
                exercised.setdefault(cls.__name__, set()).add(T._member_name("m:" + p))
        cap = 500 if ctx.quick else 3000
        if len(calls) > cap:
            # every member of every object itself; of the members of its views (`effects/0.color`, ...) a seeded sample
            deep = [k for k, c in enumerate(calls) if "." in c[1].split("(")[0]]
            drop = set(rng.sample(deep, min(len(deep), len(calls) - cap)))
            calls = [c for k, c in enumerate(calls) if k not in drop]
        n_calls += len(calls)
        t = T.run_history(recipe, prefix + calls, check_inv=False, check_shadow=False, stop_on_problem=False)
        new_attrs |= t.new_attributes
        traces.append(t)
        # the unobserved twin: the same world without the calls; later answers and the saved bytes (when they differ
        # the pair goes through the purity machinery, which shrinks it to the call that matters)
        twin = T.run_history(recipe, prefix, check_inv=False, check_shadow=False, check_fresh=False,
                             stop_on_problem=False)
        small = all(w0.objs[d].width * w0.objs[d].height <= 40000 for d in w0.docs())
        same = battery(twin.world, small) == battery(t.world, small)
        ctx.count(("members", recipe), nontrivial=True)
        ctx.hist("purity", "members %s" % ("same" if same else "differs"))
        if not same:
            pairs.append((recipe, prefix, prefix + calls, "members"))
    ctx.extra["members"] = {"classes": classes, "calls": n_calls,
                            "exercised": {k: sorted(v) for k, v in sorted(exercised.items())},
                            "attributes_created_by_reads": sorted("%s.%s by %s" % x for x in new_attrs)[:80]}
    return traces


def shape_across_documents(ctx):
    """Purity pairs on layers whose box is derived from the canvas of their document (shape layers drawn by a vector mask
    only): `bbox` read / not read before the layer (or the group holding it) is moved into a document of another size;
    every later answer must be the same."""
    from psd_tools import PSDImage
    from psd_tools.api.layers import Group, ShapeLayer
    n = 0
    for name in ("vector-mask.psd", "layers-minimal/shape-layer.psd", "vector-mask2.psd", "note.psd"):
        f = T.FIX / name
        if not f.exists():
            continue
        for size in ((400, 300), (16, 16)):
            for wrap in (False, True):
                answers = []
                for read in (True, False):
                    a, b = PSDImage.open(f), PSDImage.new("RGB", size)
                    shapes = [l for l in a.descendants() if isinstance(l, ShapeLayer)]
                    if not shapes:
                        break
                    l = shapes[0]
                    mover = Group.group_layers([l], parent=l.parent) if wrap else l
                    if read:
                        _ = (l.bbox, mover.bbox, a.bbox)
                    try:
                        mover.move_to_group(b)
                        answers.append((tuple(l.bbox), tuple(mover.bbox), tuple(b.bbox), tuple(l.size)))
                    except Exception as e:  # noqa
                        answers.append(("raises", err_class(e)))
                if len(answers) != 2:
                    continue
                n += 1
                ctx.count(("shape-across", name, size, wrap), nontrivial=True)
                if answers[0] != answers[1]:
                    ctx.fail("C14/impure/shape-bbox-across-documents",
                             "reading bbox before a shape layer is moved into a document of another size changes the later answers",
                             {"fixture": name, "target_size": list(size), "inside_a_new_group": wrap,
                              "calls": "shape.bbox [read or not]; move_to_group(PSDImage.new('RGB', size)); shape.bbox, moved.bbox, target.bbox, shape.size"},
                             observed={"with_read": answers[0], "without_read": answers[1]},
                             expected="the same answers with and without the earlier read-only call")
    ctx.extra["shape_across_documents_pairs"] = n


def report_stale(ctx, stale):
    """one failure per signature, the history shrunk (ddmin) with the fresh-twin oracle"""
    seen = {}
    for recipe, ops, probs, fam in stale:
        for sig, what, step in probs:
            ctx.hist("problems_seen", sig)
            if sig in seen:
                seen[sig] += 1
                continue
            seen[sig] = 1
            sub = list(ops[:step + 1])

            def test(cand, recipe=recipe, sig=sig):
                return any(s_ == sig for s_, _, _ in D.run(recipe, list(cand), pixels="auto"))
            try:
                small = core.ddmin(sub, test)
                again = [w_ for s_, w_, _ in D.run(recipe, list(small), pixels="auto") if s_ == sig]
            except core.Infra:
                raise
            except Exception:  # noqa
                small, again = sub, []
            if not again:
                small, again = sub, [what]
            ctx.fail(sig, again[0], {"recipe": list(recipe), "ops": T.ops_to_json(small), "oracle": "fresh-twin",
                                     "family": fam},
                     observed=again[0], expected="every derived value equals the value of the same document written and "
                     "opened again (computed from the records alone)")
    for sig, n in seen.items():
        for f in ctx.failures:
            if f["signature"] == sig:
                f["count"] = n


def run(ctx: core.Run):
    # the invalidation structure of the public mutators, regenerated from the source (Generated/FreshTable.lean):
    # `current_tree_kept_fresh`, `every_invalidation_needed` and `invalidate_tied` are re-checked against it
    table = ctx.regenerate(extract_c14.gen_fresh_table) or {"rows": [], "climb": "other"}
    ctx.extra["fresh_table"] = {"climb": table.get("climb"), "rows": {n: [[_eff_str(e) for e in seg] for seg in segs]
                                                                     for n, segs in table.get("rows", [])}}
    ctx.prove(["PsdVerif.Props.C14"])
    ctx.trusted_base += T.TRUSTED
    ctx.assumptions += T.ASSUME + [
        "purity of numpy / topil / composite w.r.t. NumPy and PIL buffers is checked by the harness (answers and saved "
        "bytes with and without the calls), not modelled; the caches such a call fills are replayed in the model as a "
        "`touch` observation",
    ]
    ctx.model_coverage = T.MODEL_COVERAGE
    ctx.trusted_base += [
        "harness/extract_c14.py (on the abstract interpreter of extract_c15.py): which object an owner expression names "
        "(textual substitution of self / parameters / aliases), the summary of a loop over <o>.descendants() / <o> / "
        "<o>._layers[:] whose body only acts on the loop variable as ONE effect with scope descendants / children, the "
        "classification of _layers mutations into shrink / relist, the recognition of the climb of Layer._invalidate_bbox",
        "harness/freshtable.py: the tests of a segment and its owner expressions evaluated on the recorded state before the "
        "call (eval of the normalised source text over read-only proxies)",
    ]
    ctx.assumptions += [
        "kept_fresh: C09's invariants at the start of every covered block and its side conditions on the raw mutations "
        "(GuardedHist: what leaves a list was a member; what arrives is detached and does not contain the container; no "
        "repetition; recursion limit not hit; a rectangle is moved on a plain layer), no exception between a raw mutation "
        "and the invalidations of its block, no cache filled inside a mutator except by the reads the table lists; writes "
        "that bypass the public mutators (layer._record…, _layers directly) are outside the claim",
    ]
    rng = ctx.rng
    traces = []
    phase, t_last = {}, [time.time()]

    def lap(name):
        phase[name] = round(time.time() - t_last[0], 1)
        t_last[0] = time.time()
    ctx.extra["phase_s"] = phase
    # 1. corpus: the witnesses of the Lean counterexamples, replayed on the real code
    for recipe, ops in corpus("C14"):
        traces.append(T.run_history(recipe, ops, check_inv=False))
    n_corpus = len(traces)
    # 2. exhaustive: every history of <= 2 candidate operations (attribute setters included) with a bbox / repr
    #    read of every container before each operation
    depth = 2
    for recipe in T.SMALL_TREES[:2] if ctx.quick else T.SMALL_TREES:
        hs = T.exhaustive_histories(recipe, depth, level=2, limit=4000 if ctx.quick else 30000, rng=rng)
        w0 = T.build(recipe)
        reads = [("obs", "bbox", c) for c in w0.conts()]
        for h in hs:
            seq = list(reads)
            for op in h:
                seq.append(op)
                seq += [("obs", "repr", c) for c in w0.conts()[:3]]
            traces.append(T.run_history(recipe, seq, check_inv=False, check_shadow=False))
        ctx.hist("exhaustive_histories", "%s depth %d with reads" % (recipe[0], depth), len(hs))
    lap("exhaustive")
    i_vm = len(traces)
    # 2b. visibility x position: every history of <= 2 operations that hide / show groups and move groups between
    #     containers (inherited visibility: the box of a group depends on its ancestors), every container read (bbox)
    #     before the first and (repr) after every operation - boxes cached under a hidden ancestor included
    vm_pairs = []
    for recipe, lim in ((("hid", "RGB", 8), 500 if ctx.quick else 6000), (("nest", "RGB", 8), 150 if ctx.quick else 3000)):
        w0 = T.build(recipe)
        hs = T.visibility_move_histories(recipe, 1) + T.visibility_move_histories(recipe, 2, limit=lim, rng=rng)
        if not ctx.quick:
            hs += T.visibility_move_histories(recipe, 3, limit=lim, rng=rng)
        for h in hs:
            traces.append(T.run_history(recipe, T.read_everything(w0, h), check_inv=False, check_shadow=False))
        for h in rng.sample(hs, min(len(hs), 12 if ctx.quick else 150)):
            h = guarded(recipe, h)
            vm_pairs.append((recipe, h, T.read_everything(w0, h, kinds=("bbox", "repr")), "visibility-move"))
        ctx.hist("exhaustive_histories", "%s visibility x position with reads" % recipe[0], len(hs))
    lap("visibility-move")
    i_walks = len(traces)
    # 3. random walks with an observe transition at (almost) every step
    recipes = T.walk_recipes()
    n_walks, max_len = (150, 12) if ctx.quick else (1200, 60)
    for k in range(n_walks):
        recipe = recipes[k % len(recipes)]
        ops = T.random_walk(recipe, rng, rng.randrange(3, max_len + 1), p_unguarded=0.02, p_attr=0.3)
        opaque_ok = recipe[0] != "fixture" or recipe[1] in ("clipping-mask.psd", "group.psd")
        traces.append(T.run_history(recipe, interleave(recipe, ops, rng, opaque_ok, per_step=1), check_inv=False))
    lap("walks")
    # 3b. derived values against a FRESH document (written and opened again: no history behind any value): after
    #     EVERY edit of histories that end in degenerate states (the last clipping layer released / deleted / moved
    #     away, the last visible layer hidden, the last child of a group removed, the document emptied, the only mask
    #     disabled) and at the end of every random walk
    stale = []        # (recipe, ops, [(sig, what, step)])
    deg_recipes = [("clips", "RGB", 8), ("nest", "RGB", 8), ("hid", "RGB", 8), ("board", "RGB", 8), ("two", "RGB", 8, "L"),
                   ("small", "L", 8), ("clips", "L", 16), ("fixture", "mask.psd"), ("fixture", "masks/2.psd")]
    if not ctx.quick:
        deg_recipes += [("fixture", "mask-disabled.psd"), ("clips", "CMYK", 8), ("nest", "CMYK", 8), ("dup", "RGB", 8), ("nest", "RGB", 16),
                        ("fixture", "masks3.psd"), ("fixture", "clipping-mask2.psd"), ("fixture", "group.psd"),
                        ("fixture", "hidden-groups.psd")]
    deg_recipes = [r for r in deg_recipes if r[0] != "fixture" or (T.FIX / r[1]).exists()]
    n_deg = 0
    i_deg = len(traces)
    for recipe in deg_recipes:
        for rep in range(1 if ctx.quick else 2):
            for fam, ops in D.degenerate_histories(recipe, rng):
                if recipe[0] == "fixture" and not (fam.startswith("only-mask") or (
                        fam in ("last-clipping-layer-unclip", "last-clipping-layer-delete") or not ctx.quick)):
                    continue          # (larger canvases: the families the API-built trees cannot express + two others)
                n_deg += 1
                ctx.hist("degenerate_end_states", fam)
                traces.append(T.run_history(recipe, ops, check_inv=False, check_shadow=False))
                probs = D.run(recipe, ops, pixels="auto")
                if probs:
                    stale.append((recipe, ops, probs, fam))
    # 3c. the same oracle over the remaining inputs of the clipping relation: blend mode of the base (pass-through or
    #     not) x compatibility mode, after every edit
    n_clipin = 0
    for recipe in [("clips", "RGB", 8), ("nest", "RGB", 8)] + ([] if ctx.quick else [("hid", "RGB", 8), ("clips", "L", 16)]):
        for fam, ops in D.clip_input_histories(recipe, rng):
            n_clipin += 1
            ctx.hist("degenerate_end_states", fam)
            traces.append(T.run_history(recipe, ops, check_inv=False, check_shadow=False))
            probs = D.run(recipe, ops, pixels="auto")
            if probs:
                stale.append((recipe, ops, probs, fam))
    ctx.extra["clip_input_histories"] = n_clipin
    n_walk_end = 0
    # (the random walks first, then the visibility x position family, then a seeded sample of the exhaustive family)
    others = traces[i_walks:i_deg] + traces[i_vm:i_walks] + rng.sample(traces[n_corpus:i_vm], min(60, i_vm - n_corpus))
    for t in others:
        if not any(o[0] not in ("obs", "opaque") for o in t.ops):
            continue
        if n_walk_end >= (180 if ctx.quick else 900):
            break
        plain = [o for o in t.ops if o[0] not in ("obs", "opaque")]
        n_walk_end += 1
        probs = D.run(t.world.recipe, plain, pixels="auto", every=False)
        if probs:
            stale.append((t.world.recipe, plain, probs, "end-of-history"))
    ctx.extra["fresh_twin_comparisons"] = {"degenerate_histories": n_deg, "ends_of_other_histories": n_walk_end}
    report_stale(ctx, stale)
    lap("fresh-twin")
    T.compare_with_model(ctx, traces, what="C14")
    lap("model")
    # every public call as one step of the machine that interprets the regenerated table
    freshtable.compare(ctx, table, traces)
    lap("table-machine")
    T.coverage(ctx, traces)
    T.report(ctx, traces, props=("C14",))
    lap("report")
    # 4. purity: answers and saved bytes with and without read-only calls
    #    (a) random histories with random read-only calls interleaved; (b) sandwiches: every kind of read-only
    #    call between a structural edit and attribute edits, and after them
    n_pure = 40 if ctx.quick else 400
    n_sand = 6 if ctx.quick else 40
    pure_recipes = [("small", "L", 8), ("flat", "RGB", 8), ("nest", "RGB", 8), ("nest", "L", 8), ("two", "RGB", 8, "L"),
                    ("fixture", "clipping-mask.psd"), ("fixture", "group.psd"), ("fixture", "16bit5x5.psd"),
                    ("nest", "CMYK", 8), ("nest", "RGB", 16), ("board", "RGB", 8), ("dup", "RGB", 8), ("hid", "RGB", 8)]
    sand_recipes = [("flat", "RGB", 8), ("board", "RGB", 8), ("nest", "L", 8), ("small", "L", 8), ("nest", "CMYK", 8),
                    ("nest", "RGB", 16), ("two", "RGB", 8, "L"), ("dup", "RGB", 8)]
    off = rng.randrange(len(sand_recipes))
    # nested groups / hidden ancestors always, the other trees in a seeded rotation
    sand_recipes = [("nest", "RGB", 8), ("hid", "RGB", 8)] + sand_recipes[off:] + sand_recipes[:off]
    pairs = []
    cp = core.VERIF / "harness" / "corpus" / "C14.json"
    for c in (json.loads(cp.read_text()) if cp.exists() else []):
        if "with_observations" in c:
            pairs.append((tuple(c["recipe"]), T.ops_from_json(c["ops"]), T.ops_from_json(c["with_observations"]), "corpus"))
    # boundary cases first: sandwiches, then the visibility x position family, then random interleavings
    for k in range(n_sand):
        recipe = sand_recipes[k % len(sand_recipes)]
        for plain, observed in sandwiches(recipe, rng):
            pairs.append((recipe, plain, observed, "sandwich"))
    pairs += vm_pairs
    for k in range(n_pure):
        recipe = pure_recipes[k % len(pure_recipes)]
        ops = guarded(recipe, T.random_walk(recipe, rng, rng.randrange(2, (10 if ctx.quick else 30)),
                                            p_unguarded=0.0, p_attr=0.35))
        pairs.append((recipe, ops, interleave(recipe, ops, rng, True), "random"))
    # (c) EVERY public read-only member of every object, enumerated by reflection from the live classes (harness/
    #     members.py): each call made twice (same answer), what is stored compared before / after each call, and the
    #     whole sweep compared with an unobserved twin (later answers, saved bytes)
    member_traces = member_sweep(ctx, rng, pairs)
    T.compare_with_model(ctx, member_traces, what="C14 members")
    T.coverage(ctx, member_traces)
    T.report(ctx, member_traces, props=("C14",))
    lap("members")
    seen = {}
    for recipe, plain, observed, how in pairs:
        probs = purity_problems(recipe, plain, observed)
        ctx.count(("pure", recipe, tuple(observed)), nontrivial=True)
        ctx.hist("purity", "%s %s" % (how, "same" if not probs else "differs"))
        for c in observed:
            if is_observation(c):
                ctx.hist("purity_calls", c[1])
        for sig, what in probs:
            if sig in seen:
                seen[sig]["count"] += 1
                continue
            small = shrink_purity(recipe, observed, sig)
            plain_small = [o for o in small if not is_observation(o)]
            again = [w_ for s_, w_ in purity_problems(recipe, plain_small, small) if s_ == sig]
            if not again:
                small, plain_small, again = list(observed), list(plain), [what]
            seen[sig] = {"count": 1}
            ctx.fail(sig, again[0],
                     {"recipe": list(recipe), "ops": T.ops_to_json(plain_small), "with_observations": T.ops_to_json(small)},
                     observed=again[0], expected="the same answers and the same saved bytes with and without the read-only "
                     "calls; the same answer when a read-only call is repeated")
    for sig, dct in seen.items():
        for f in ctx.failures:
            if f["signature"] == sig:
                f["count"] = dct["count"]
    ctx.extra["purity_cases"] = len(pairs)
    shape_across_documents(ctx)
    lap("purity")
    for t in traces[:n_corpus] + traces[-2:]:
        ctx.sample({"recipe": list(t.world.recipe), "ops": [T.op_str(o) for o in t.ops[:10]], "outs": t.outs[:10]})
    ctx.rule = ("a case is one (initial tree, history of edits and read-only calls); non-trivial = at least one operation. "
                "After EVERY step every cached box of the object graph is compared with a fresh Group.extract_bbox and the "
                "full dump (caches included) with the model. Exhaustive: all histories of <= 2 candidate operations "
                "(structure edits, visible, left) with bbox / repr reads around each; the visibility x position family (hide / "
                "show every group, move every group to every other container, detach / re-attach; trees with groups below a "
                "hidden and below a visible group) with every container read before and after each operation; random: %d walks "
                "of <= %d edits with read-only calls (bbox, size, repr, descendants, len, is_visible, composite, composite with "
                "a custom layer_filter - the same function object reused, an equivalent of the default, a fresh lambda -, numpy, "
                "topil, save to a throw-away buffer, find / findall - compared with a walk of the lists -, iteration, "
                "clip_layers, mask / effects; each opaque call made twice in a row and the two answers compared) interleaved; "
                "purity: %d histories (every kind of read-only call - on the document, on groups, find / filtered composite "
                "on EVERY container at once - between a structural edit and attribute edits (visible, offset, opacity, clipping "
                "flag) or structural edits as deep in the tree as possible, and after them; visibility x position histories "
                "with and without reads; random interleavings) run with and without the read-only calls, later answers "
                "(composite first and again at the end, bbox, size, is_visible, descendants, find / findall of every name in use "
                "and an absent one from EVERY container, clip_layers, filtered composite of the document and of every group, "
                "default composite, topil) and the bytes written by save() (twice) compared. Reflective sweep: on %d trees "
                "(API-built and fixtures of every layer kind) every public read-only member of every object and of the views "
                "it returns (%d calls; enumerated from the live classes, see coverage.members) is called twice, what is stored "
                "(record fields, tagged-block keys and bytes, channel planes, non-cache attributes, document sections) compared "
                "before / after each call and the swept world compared with an unobserved twin. Fresh-twin oracle: after every "
                "edit of %d histories ending in degenerate states (last clipping layer released / deleted / moved away / removed, "
                "last visible layer hidden, last child of a group / last layer of the document removed, only mask disabled) and "
                "at the end of %d other histories every derived value (clipping relation from the private attributes first, "
                "boxes, sizes, inherited visibility, descendants, rendering of every layer and of the document, the merged image "
                "save() writes) is compared with the same document written and opened again."
                % (n_walks, max_len, len(pairs), len(member_traces), ctx.extra["members"]["calls"],
                   ctx.extra["fresh_twin_comparisons"]["degenerate_histories"],
                   ctx.extra["fresh_twin_comparisons"]["ends_of_other_histories"]))
    ctx.notes += NOTES
    if ctx.tier == "thorough":
        ctx.recheck(["PsdVerif.Props.C14"])


NOTES = [
    "proved (Props/C14.lean, table part): invalidate_tied, kept_fresh / kept_wellformed (ANY table with tableOk, any history "
    "of segment executions: objects named, outcomes of tests and new values of the mutated inputs adversarial), "
    "current_tree_kept_fresh (tableOk of the regenerated Generated/FreshTable.lean by decide), kept_fresh_now, "
    "answers_fresh_now; necessity: every_invalidation_needed (every row of the current table), "
    "climb_stopping_at_empty_goes_stale, climb_below_document_goes_stale, children_only_reset_goes_stale (nesting depth "
    "three), target_side_only_move_goes_stale, conditional_invalidation_rejected, direct_store_rejected, "
    "read_between_rejected; non-vacuity: nested_good, allRead_good, the GuardedHist example",
    "the table speaks about the boxes cached on containers (_bbox of groups, artboards and the document) and the dirty "
    "flag; the clipping relation has its own table (C15, Generated/ClipCurrent.lean); ShapeLayer._bbox, mask / effects "
    "views and memoised answers outside _bbox are not in it (searched only)",
    "search widened with the table work: (a) purity pairs on shape layers whose box is derived from the canvas (bbox read / "
    "not read before the layer - alone or inside a new group - is moved into a document of another size): found and "
    "ad8f9e5 repairs ShapeLayer._bbox surviving the adoption by another document; (b) the fresh-twin oracle after every "
    "edit of histories over the two inputs of the clipping relation the edit vocabulary lacked: blend mode of the base of a "
    "clip run (pass-through -> normal -> multiply -> pass-through) x compatibility mode of the document, in both orders "
    "(the twin is opened in the same compatibility mode)",
    "tableOk is sufficient, not necessary: it accepts the four block shapes the current code uses, in source order; a "
    "rewrite that invalidates correctly in another order is reported as a broken tie (VIOLATION without failing input "
    "unless the search finds one) and the shapes have to be extended",
    "proved (Props/C14.lean): fresh_init, fresh_step (every operation; guard of the inserting operations; recursion limit "
    "not hit), fresh_history, answers_fresh_history, observe_pure (SameObs now includes the tagged-block key list of every "
    "record), observe_keeps_blocks, observations_pure (any sequence of read-only calls), getter_writes_nothing, "
    "observe_keeps_fresh, answers_fresh, later_answers_same; degenerate end states: nothing_visible_group_answer, "
    "nothing_visible_document_answer, emptied_group_never_stale (after ANY guarded history), witnesses "
    "last_child_removed_refreshed, last_visible_hidden_refreshed, emptied_document_refreshed; "
    "snapshot counterexamples: legacy_append_after_read_stale, legacy_document_bbox_stale, "
    "legacy_hidden_group_below_stale; known finding proved on a witness: detached_stale_parent_witness",
    "Fresh speaks about containers that are in a document; for detached containers with a stale parent pointer the "
    "statement is false (detached_stale_parent_witness, known finding C14/bbox-stale/detached-node-with-stale-parent)",
    "stated in DESIGN, not proved: 'saved bytes unchanged by observations' (observable of DESIGN includes the bytes "
    "save() writes; proved: nothing but caches changes - lists, pointers, flags, rectangles, dirty flags and WHICH tagged "
    "blocks every record carries are what they were -, and caches stay fresh; what the blocks contain and the bytes are "
    "compared by the harness: records, block bytes, channel planes and non-cache attributes before / after every "
    "read-only call, saved bytes against an unobserved twin); lazily created mask / vector mask / origination / effects "
    "/ smart-object views and ShapeLayer._bbox are not modelled",
    "the set of read-only members is not a list in this file: harness/members.py enumerates, from the classes of the "
    "objects at hand, every public property, every public zero-argument method whose return annotation is neither None "
    "nor Self and whose name is not a MutableSequence mutator, the Sequence protocol methods, one-argument queries with "
    "arguments chosen from the parameter annotation, __repr__ / _repr_pretty_, and the same members of the view objects "
    "they return (two levels); evidence coverage.members lists per class what was called and what was classified as a "
    "mutator. Attributes that a read-only call creates are treated as caches (listed in the evidence) - what they may "
    "not do is change a later answer, anything stored, or the saved bytes",
    "the clipping relation (clip_layers / _has_clip_target) is not part of the C14 model (C15: Model/ClipState.lean); "
    "here it is a derived value like the others for the fresh-twin oracle: after every edit of the histories that end in "
    "degenerate states, and at the end of the other histories, every derived value is compared with the same document "
    "written and opened again",
    "memoised answers the model does not know (a name index, a per-filter group box, ...) are caught only by the search: "
    "purity pairs (with / without the read-only call before an edit), the same call repeated, find compared with a walk of "
    "the lists; the model's caches are the _bbox fields only",
    "save() is documented to refresh the stored merged image when the structure was edited; topil() (the stored image) and "
    "the default composite() are therefore compared after the battery's own save(), the forced rendering before it. A "
    "document that was EMPTIED is rendered from that stored image, so there an earlier save() shows through (known finding "
    "C14/impure/emptied-document-shows-stored-merged-image)",
]


def _eff_str(e):
    if e[0] == "mutate":
        return "mutate %s %s %s (%s)%s" % (e[1], e[2], e[3], e[4], " if " + " and ".join(e[5]) if e[5] else "")
    if e[0] == "other":
        return "other " + e[1]
    return " ".join(str(x) for x in e[:-1]) + (" if " + " and ".join(e[-1]) if e[-1] else "")


def _short(v):
    if isinstance(v, (bytes, bytearray)):
        return "<%s bytes>" % T._digest(v)
    if isinstance(v, tuple) and v and isinstance(v[-1], (bytes, bytearray)):
        return v[:-1] + ("<%d bytes>" % len(v[-1]),)
    return v


def replay(ctx, data):
    T.replay_print(data)
    inp = data.get("input") or {}
    if inp.get("oracle") == "fresh-twin":
        for sig, what, step in D.run(tuple(inp["recipe"]), T.ops_from_json(inp["ops"]), pixels="auto"):
            print("  step", step, sig, ":", what[:400])
    if "with_observations" in inp:
        recipe = tuple(inp["recipe"])
        for sig, what in purity_problems(recipe, T.ops_from_json(inp["ops"]), T.ops_from_json(inp["with_observations"])):
            print("  ", sig, ":", what[:300])
    return 0
