"""C11 - compositing agrees with the published compositing model.

correspondence : Model/Composite.lean at K = Rat (driver command comp.pixel, one request per pixel, the per-pixel
                 layer tree extracted with the compositor's own public getters)  vs  psd_tools.composite.composite
search         : the real compositor vs comp_common.spec_composite - a NumPy float64 implementation of the published
                 formulas (Porter-Duff / PDF 1.7 11.3-11.4, Photoshop's factors, clipping groups) that recurses over
                 the document RECIPE; independent of the Lean model and of the Compositor class
spec tie       : every request sent to comp.pixel is also sent to comp.spec and comp.spec.alt (Model/CompositeSpec.lean, the
                 published model as a Lean denotation of the same tree; .pub = with the published group-alpha rule for knockout
                 elements, comp.spec = with that one rule as coded).  Proved: the code model refines comp.spec on every tree
                 (compositor_refines_spec_doc) and comp.spec.alt on trees without knockout flags
                 (compositor_refines_spec_partial_doc), so the answers must agree EXACTLY (rationals): same shape, same alpha,
                 colour * alpha = premultiplied group colour.  On trees with knockout flags comp.spec.alt may differ: counted.
knockout       : the witness of Props/C11.lean (knockout_rules_differ: white over white is grey) is replayed
                 on the real compositor and compared with comp.spec.alt
"""
from __future__ import annotations

import glob
from fractions import Fraction
import hashlib
import json
import os

import numpy as np

import core
import comp_common as cc
import comp_matrix as mx
import c11_fx
import extract_fx
import extract_c11_state

NONSEP = {"HUE", "SATURATION", "COLOR", "LUMINOSITY", "DARKER_COLOR", "LIGHTER_COLOR"}
FIXTURE_AREA = 1100 * 1100
FIXTURE_PIXELS = 160
NAMED_FIXTURES = ["clipping-mask.psd", "clipping-mask2.psd", "group.psd", "masks.psd", "masks2.psd", "masks3.psd"]


# ------------------------------------------------------------------------------------------
# cases
# ------------------------------------------------------------------------------------------
def make_cases(ctx, n_main, n_jumpy):
    rng = ctx.rng
    nprng = np.random.RandomState(rng.randrange(2 ** 32))
    cases = []
    for k in range(n_main + n_jumpy):
        jumpy = k >= n_main
        doc = cc.gen_doc(rng, nprng, jumpy=jumpy)
        cc.name_nodes(doc["recipe"])
        stream = "jumpy" if jumpy else "main"
        cases.append({"doc": doc, "stream": stream, "variant": "plain"})
        r = rng.random()
        W, H = doc["size"]
        if r < 0.35:
            col, al = cc.gen_backdrop(rng, nprng, (0, 0, W, H), cc.MODE_CH[doc["mode"]])
            cases.append({"doc": doc, "stream": stream, "variant": "backdrop", "backdrop": (col, al)})
        elif r < 0.7:
            names = [n["name"] for n in cc.walk(doc["recipe"])]
            hidden = [n["name"] for n in cc.walk(doc["recipe"]) if not n.get("visible", True)]
            drop = [nm for nm in names if rng.random() < 0.25]
            hid = [nm for nm in hidden if rng.random() < 0.6]
            kind = "filter-drop" if not hid else "filter-unhide"
            cases.append({"doc": doc, "stream": stream, "variant": kind, "filter": {"hidden_ok": hid, "drop": drop}})
    return cases


def matrix_cases(tier):
    """the deterministic feature-matrix stream (comp_matrix): independent of VERIF_SEED; every third document also over a
    translucent backdrop array, documents with hidden layers also through a layer_filter that un-hides them"""
    cases = []
    for i, doc in enumerate(mx.matrix_docs(tier)):
        cases.append({"doc": doc, "stream": "matrix", "variant": "plain"})
        W, H = doc["size"]
        if i % 3 == 0:
            r = np.random.RandomState(7 + i)
            col = (r.randint(0, 256, size=(H, W, cc.MODE_CH[doc["mode"]])) / 255.0).astype(np.float32)
            al = (r.choice([0, 77, 128, 255], size=(H, W, 1)) / 255.0).astype(np.float32)
            cases.append({"doc": doc, "stream": "matrix", "variant": "backdrop", "backdrop": (col, al)})
        hidden = [n["name"] for n in cc.walk(doc["recipe"]) if not n.get("visible", True)]
        if hidden and i % 2 == 0:
            cases.append({"doc": doc, "stream": "matrix", "variant": "filter-unhide", "filter": {"hidden_ok": hidden, "drop": []}})
    return cases


def case_json(case):
    j = {"doc": dict(case["doc"], recipe=cc.recipe_to_json(case["doc"]["recipe"])), "variant": case.get("variant", "plain")}
    if case.get("backdrop") is not None:
        j["backdrop"] = [np.asarray(case["backdrop"][0]).tolist(), np.asarray(case["backdrop"][1]).tolist()]
    if case.get("filter"):
        j["filter"] = case["filter"]
    if case.get("viewport"):
        j["viewport"] = list(case["viewport"])
    return j


def case_from_json(j):
    c = {"doc": dict(j["doc"], recipe=cc.recipe_from_json(j["doc"]["recipe"])), "variant": j.get("variant", "plain"),
         "stream": j.get("stream", "corpus")}
    if j.get("backdrop") is not None:
        c["backdrop"] = (np.asarray(j["backdrop"][0], dtype=np.float32), np.asarray(j["backdrop"][1], dtype=np.float32))
    if j.get("filter"):
        c["filter"] = j["filter"]
    if j.get("viewport"):
        c["viewport"] = j["viewport"]
    return c


# ------------------------------------------------------------------------------------------
# search: failing input -> shrink -> classify
# ------------------------------------------------------------------------------------------
def variant_tags(case):
    t = []
    if case.get("backdrop") is not None:
        t.append("backdrop")
    if case.get("filter"):
        t.append("layer-filter")
    if case.get("viewport"):
        t.append("viewport")
    return t


def report_failure(ctx, case, res, prop="C11"):
    """shrink the recipe of a case on which the real compositor differs from the published model (or raises)
    and report it under a signature made of the features the shrunk recipe still needs"""
    if res["error"]:
        etype = res["error"]["type"]

        def fails(d):
            r = cc.eval_case(dict(case, doc=d, want_model=False, want_spec=False))
            return r["error"] is not None and r["error"]["type"] == etype
    else:
        what0 = res["spec"][0]["what"]

        def fails(d):
            r = cc.eval_case(dict(case, doc=d, want_model=False))
            return r["error"] is None and r["spec"] is not None and r["spec"][0] is not None
    small = cc.shrink_doc(case["doc"], fails, budget=150 if ctx.quick else 300)
    c2 = dict(case, doc=small)
    # a variant (backdrop / filter) that is not needed is dropped
    for k in ("backdrop", "filter"):
        if c2.get(k) is not None:
            c3 = {kk: v for kk, v in c2.items() if kk != k}
            try:
                r3 = cc.eval_case(dict(c3, want_model=False, want_spec=not res["error"]))
                still = (r3["error"] is not None and res["error"] and r3["error"]["type"] == res["error"]["type"]) or \
                        (not res["error"] and r3["error"] is None and r3["spec"] and r3["spec"][0] is not None)
            except Exception:
                still = False
            if still:
                c2 = c3
    r = cc.eval_case(dict(c2, want_model=False, want_spec=not res["error"]))
    feats = cc.feature_sig(small, variant_tags(c2))
    if r["error"]:
        sig = f"{prop}/exception/{r['error']['type']}/{feats}"
        ctx.fail(sig, f"the compositor raises {r['error']['type']} ({r['error']['msg']}) at {r['error']['where']}",
                 case_json(c2), r["error"], "a composite equal to the published model")
        return sig
    mm = r["spec"][0] if r["spec"] else None
    if mm is None:       # shrinking lost it (budget): report the original
        mm, c2, feats = res["spec"][0], case, cc.feature_sig(case["doc"], variant_tags(case))
    sig = f"{prop}/{feats}/{mm['what']}"
    ctx.fail(sig, f"composite differs from the published compositing model in {mm['what']} "
                  f"(features of the shrunk document: {feats}; blend modes {cc.blend_modes(c2['doc'])})",
             case_json(c2), mm, "Porter-Duff / PDF 1.7 11.3-11.4 value (float64 oracle), tolerance "
                                f"{cc.TOL_ALPHA} on shape/alpha and {cc.TOL_COLOR} on premultiplied colour")
    return sig


# ------------------------------------------------------------------------------------------
# comp.spec (the published model in Lean) against comp.pixel (the code model), exact
# ------------------------------------------------------------------------------------------
def spec_answers(ctx, reqs, cmd="comp.spec"):
    return ctx.driver().batch([(cmd, *q[1:]) for q in reqs]) if reqs else []


def spec_tie(pixel_ans, spec_ans, st, key="spec_tie"):
    """None, or what differs between the answers of comp.pixel and comp.spec[.pub] to the same requests
    (what compositor_refines_spec_*_doc says cannot differ)"""
    for k, (a, b) in enumerate(zip(pixel_ans, spec_ans)):
        st[key] = st.get(key, 0) + 1
        if a[0] != "ok" or b[0] != "ok":
            if a != b:
                return f"request {k}: comp.pixel answers {a}, comp.spec answers {b}"
            continue
        ca, sa, aa = a[1].split(" ")
        pb, sb, ab = b[1].split(" ")
        if sa != sb:
            return f"request {k}: shape {sa} (code model) != {sb} (published model)"
        if aa != ab:
            return f"request {k}: alpha {aa} (code model) != {ab} (published model)"
        al = Fraction(aa)
        cs, ps = ca.split(","), pb.split(",")
        if len(cs) != len(ps):
            return f"request {k}: {len(cs)} channels != {len(ps)}"
        for i, (c, pm) in enumerate(zip(cs, ps)):
            if Fraction(c) * al != Fraction(pm):
                return f"request {k}: channel {i}: colour*alpha = {Fraction(c) * al} (code model) != {pm} (published model)"
        if al != 0:
            st[key + "_alpha_pos"] = st.get(key + "_alpha_pos", 0) + 1
    return None


def has_knockout(doc):
    return any(n.get("knockout") for n in cc.walk(doc["recipe"]))


# ------------------------------------------------------------------------------------------
# one batch of cases: real + oracle in the pool, model through the driver
# ------------------------------------------------------------------------------------------
def process(ctx, cases, st, label, prop="C11", model=True):
    results = cc.run_cases([dict(c, want_model=model) for c in cases], workers=1 if len(cases) < 24 else 12)
    reqs, spans = [], []
    for c, r in zip(cases, results):
        if r["reqs"]:
            spans.append((len(reqs), len(r["reqs"])))
            reqs += r["reqs"]
        else:
            spans.append(None)
    answers = ctx.driver().batch(reqs) if reqs else []
    sanswers = spec_answers(ctx, reqs) if model else []
    panswers = spec_answers(ctx, reqs, "comp.spec.alt") if model else []
    failing = []
    for c, r, sp in zip(cases, results, spans):
        doc = c["doc"]
        key = f"{label}:{c.get('stream')}:{c.get('variant')}"
        ctx.hist("cases", key)
        ctx.hist("colour_mode", doc["mode"])
        for f in cc.features(doc):
            ctx.hist("features", f)
        if c.get("variant") == "plain":
            for cell in mx.cells(doc):
                ctx.hist("matrix", cell)
                if c.get("stream") != "matrix":
                    st.setdefault("random_cells", set()).add(cell)
        for b in cc.blend_modes(doc):
            ctx.hist("blend_modes", b)
        ctx.hist("layers", cc.count_layers(doc["recipe"]))
        ctx.hist("nesting", cc.depth_of(doc["recipe"]))
        if r["error"]:
            if r["error"]["in_repo"]:
                failing.append((c, r))
                ctx.hist("outcome", "exception:" + r["error"]["type"])
                continue
            raise core.Infra(f"harness error while evaluating a case: {r['error']}")
        npx = int(np.asarray(r["real"][1]).size)
        ctx.count(hashlib.sha1(json.dumps(case_json(c), sort_keys=True).encode()).hexdigest(), nontrivial=npx > 0, n=max(npx, 1))
        bad = cc.in_unit_interval(r["real"])
        if bad:
            ctx.fail(f"{prop}/range/{bad['what']}/{cc.feature_sig(doc, variant_tags(c))}",
                     "composite returns values outside [0,1] or not finite", case_json(c), bad, "finite values in [0,1]")
        uns = None
        if r["spec"] is not None:
            mm, uns, (da, dc) = r["spec"]
            st["unstable_px"] += int(uns.sum())
            st["px"] += npx
            st["spec_da"] = max(st["spec_da"], da if mm is None else 0.0)
            st["spec_dc"] = max(st["spec_dc"], dc if mm is None else 0.0)
            if mm is not None:
                failing.append((c, r))
                ctx.hist("outcome", "differs-from-published-model")
            else:
                ctx.hist("outcome", "agrees")
        else:
            ctx.hist("outcome", "no-oracle(non-separable on CMYK)")
        if sp is not None:
            ans = answers[sp[0]:sp[0] + sp[1]]
            if sanswers:
                tie = spec_tie(ans, sanswers[sp[0]:sp[0] + sp[1]], st)
                if tie is not None and doc["mode"] == "CMYK" and set(cc.blend_modes(doc)) & NONSEP:
                    # the CMYK wrapper of the non-separable modes leaves [0,1] (known findings of C12), so the hypothesis
                    # BOk of compositor_refines_spec fails and the compositor's _clip is active: not covered by the theorem
                    ctx.hist("spec_tie", "differs-outside-hypothesis(CMYK non-separable: blend value outside [0,1])")
                elif tie is not None:
                    ctx.disagree(f"published model (comp.spec) != code model (comp.pixel) ({label}, {c.get('variant')}): {tie}",
                                 case_json(c))
                    ctx.hist("spec_tie", "disagree")
                else:
                    ctx.hist("spec_tie", "agree")
                ptie = spec_tie(ans, panswers[sp[0]:sp[0] + sp[1]], st, "spec_pub_tie")
                if ptie is None:
                    ctx.hist("spec_pub_tie", "agree (knockout flag present)" if has_knockout(doc) else "agree")
                elif has_knockout(doc):
                    # the one rule on which the code departs from the published model (findings: C11/knockout/group-alpha)
                    ctx.hist("spec_pub_tie", "differs: knockout group-alpha rule")
                elif doc["mode"] == "CMYK" and set(cc.blend_modes(doc)) & NONSEP:
                    ctx.hist("spec_pub_tie", "differs-outside-hypothesis(CMYK non-separable: blend value outside [0,1])")
                else:
                    ctx.disagree(f"published model (comp.spec.alt) != code model (comp.pixel) on a tree WITHOUT knockout flags "
                                 f"({label}, {c.get('variant')}): {ptie}", case_json(c))
                    ctx.hist("spec_pub_tie", "disagree")
            m = cc.parse_answers(ans, r["pixels"], r["V"], r["nch"])
            ctx.corr_cases += len(ans)
            if isinstance(m, str):
                ctx.disagree(f"model does not evaluate a {doc['mode']} document: {m}", case_json(c))
                continue
            cm = cc.compare(r["real"], m, uns)
            if cm is not None:
                ctx.disagree(f"model != implementation ({label}, {c.get('variant')}): {cm}", case_json(c))
                ctx.hist("correspondence", "disagree")
            else:
                da, dc = cc.max_diffs(r["real"], m, uns)
                st["corr_da"] = max(st["corr_da"], da)
                st["corr_dc"] = max(st["corr_dc"], dc)
                ctx.hist("correspondence", "agree")
    # shrink and report (a few per distinct first-look signature; shrinking is sequential and deterministic)
    seen = {}
    for c, r in failing:
        pre = (r["error"]["type"] if r["error"] else r["spec"][0]["what"], cc.feature_sig(c["doc"], variant_tags(c)))
        fam = pre[0]
        if seen.get(fam, 0) >= (3 if ctx.quick else 6):
            ctx.hist("unshrunk_failures", fam)
            continue
        seen[fam] = seen.get(fam, 0) + 1
        report_failure(ctx, c, r, prop)
    return results


# ------------------------------------------------------------------------------------------
# fixtures
# ------------------------------------------------------------------------------------------
def fixtures(ctx, st):
    from psd_tools import PSDImage
    root = core.REPO / "tests" / "psd_files"
    skipped = {}
    named = {}
    used = 0
    for f in sorted(glob.glob(str(root / "**" / "*.psd"), recursive=True)):
        rel = os.path.relpath(f, root)
        try:
            psd = PSDImage.open(f)
        except Exception as e:  # noqa  (broken fixtures belong to C06)
            skipped["cannot be opened"] = skipped.get("cannot be opened", 0) + 1
            continue
        reason = None
        if len(psd) == 0:
            reason = "no layers"
        else:
            try:
                xd = cc.XDoc(psd, check_scope=True)
            except cc.OutOfScope as e:
                reason = "outside the modelled scope: " + str(e)
            if reason is None and psd.width * psd.height > FIXTURE_AREA:
                reason = "canvas larger than 1100x1100"
        if reason:
            skipped[reason] = skipped.get(reason, 0) + 1
            if os.path.basename(f) in NAMED_FIXTURES:
                named[rel] = reason
            continue
        used += 1
        ctx.hist("fixtures", rel)
        V = (0, 0, psd.width, psd.height)
        real = cc.real_composite(psd)
        allpx = [(x, y) for y in range(V[1], V[3]) for x in range(V[0], V[2])]
        pixels = allpx if len(allpx) <= FIXTURE_PIXELS else ctx.rng.sample(allpx, FIXTURE_PIXELS)
        pixels, reqs = xd.requests(V, pixels=pixels)
        fans = ctx.driver().batch(reqs)
        tie = spec_tie(fans, spec_answers(ctx, reqs), st)
        if tie is not None and psd.color_mode.name == "CMYK":
            ctx.hist("spec_tie", "differs-outside-hypothesis(CMYK fixture)")
        elif tie is not None:
            ctx.disagree(f"published model (comp.spec) != code model (comp.pixel) on fixture {rel}: {tie}", {"fixture": rel})
        ptie = spec_tie(fans, spec_answers(ctx, reqs, "comp.spec.alt"), st, "spec_pub_tie")
        if ptie is not None and psd.color_mode.name != "CMYK":
            from psd_tools.constants import Tag
            if any(l.tagged_blocks.get_data(Tag.KNOCKOUT_SETTING, 0) for l in psd.descendants()):
                ctx.hist("spec_pub_tie", "differs: knockout group-alpha rule (fixture)")
            else:
                ctx.disagree(f"published model (comp.spec.alt) != code model (comp.pixel) on fixture {rel}, which has no "
                             f"knockout flag: {ptie}", {"fixture": rel})
        m = cc.parse_answers(fans, pixels, V, xd.nch)
        ctx.corr_cases += len(reqs)
        ctx.count(("fixture", rel), n=len(reqs))
        if isinstance(m, str):
            ctx.disagree(f"model does not evaluate fixture {rel}: {m}", {"fixture": rel})
        else:
            cm = cc.compare_sampled(real, m, pixels, V)
            if cm is not None:
                ctx.disagree(f"model != implementation on fixture {rel}: {cm}", {"fixture": rel})
        bad = cc.in_unit_interval(real)
        if bad:
            ctx.fail(f"C11/range/{bad['what']}/fixture/{rel}", "composite of a fixture outside [0,1] or not finite",
                     {"fixture": rel}, bad, "finite values in [0,1]")
        if psd.depth == 8 and psd.color_mode.name in ("RGB", "GRAYSCALE", "CMYK"):
            mode = {"RGB": "RGB", "GRAYSCALE": "L", "CMYK": "CMYK"}[psd.color_mode.name]
            recipe = cc.psd_to_recipe(psd)
            try:
                sc, ss, sa, uns = cc.spec_composite(recipe, V, mode)
            except NotImplementedError:
                continue
            mm = cc.compare(real, (sc, ss, sa), uns)
            if mm is not None:
                ctx.fail(f"C11/fixture/{rel}/{mm['what']}", f"composite of fixture {rel} differs from the published model",
                         {"fixture": rel}, mm, "published model on the layers read from the file")
            else:
                da, dc = cc.max_diffs(real, (sc, ss, sa), uns)
                st["spec_da"], st["spec_dc"] = max(st["spec_da"], da), max(st["spec_dc"], dc)
    for reason, n in sorted(skipped.items()):
        ctx.skipped.append(f"{n} fixture(s) not compared with the plain model (comp.pixel / comp.spec / float64 oracle; they are compared "
                           f"with the effect-carrying model comp.fx, see fx_fixture_runs_compared): {reason}")
    for rel, reason in sorted(named.items()):
        ctx.skipped.append(f"fixture {rel} (plain model): {reason}")
    ctx.extra["fixtures_used"] = used


# ------------------------------------------------------------------------------------------
# the non-separable modes where ClipColor is active
# ------------------------------------------------------------------------------------------
def nonsep_stream(ctx, st):
    """every ordered pair of comp_common.CLIP_PALETTE (saturated primaries / secondaries against dark and bright colours, so
    that SetLum leaves the unit cube below 0 / above 1) under the six non-separable modes, through the real compositor in six
    positions (plain, translucent, in an isolated / pass-through group, as a clip layer, as the group's own blend mode);
    compared like every other case: float64 oracle of the published formulas (search) and exact rational model
    (correspondence).  Counted: the compared pixels per (mode, where SetLum's colour lies before ClipColor)."""
    docs = cc.nonsep_docs(ctx.rng, extra=4 if ctx.quick else 24)
    cases = [{"doc": d, "stream": "nonsep", "variant": "plain"} for d in docs]
    results = process(ctx, cases, st, "nonsep")
    seen = {}
    for c, r in zip(cases, results):
        d = c["doc"]
        mode = d["family"].split("/")[1]
        px = [n for n in cc.walk(d["recipe"]) if n["t"] == "pixel"]
        cb, cs = np.asarray(px[0]["color"]) / 255.0, np.asarray(px[-1]["color"]) / 255.0
        cls = cc.clip_classes(mode, cb, cs)
        if cls is None or r["spec"] is None:
            continue
        ok = ~np.asarray(r["spec"][1], dtype=bool)
        for k in ("below", "above", "inside"):
            n = int(((cls == k) & ok).sum())
            seen[(mode, k)] = seen.get((mode, k), 0) + n
            ctx.hist("clipcolor_pixels_compared", "%s:%s-the-unit-cube-before-ClipColor" % (mode, k), n)
            ctx.hist("clipcolor_pixels_excluded_as_unstable", "%s:%s" % (mode, k), int(((cls == k) & ~ok).sum()))
    for mode in cc.CLIP_MODES[:4]:
        for k in ("below", "above"):
            if not seen.get((mode, k)):
                ctx.skipped.append("non-separable stream: no compared pixel of mode %s has SetLum's colour %s the unit cube" % (mode, k))
    return cases


# ------------------------------------------------------------------------------------------
# repeated composites of ONE object
# ------------------------------------------------------------------------------------------
def repeat_json(case, res=None):
    j = case_json(case)
    j["repeat"] = True
    if case.get("only"):
        j["only"] = sorted(case["only"])
    if res is not None:
        j["script"] = res["script"]
    return j


def report_repeat(ctx, case, res):
    feats0 = cc.feature_sig(case["doc"], variant_tags(case))
    if res["error"]:
        e = res["error"]
        if not e["in_repo"]:
            raise core.Infra("harness error in the repeated-composite script: %s" % e)
        ctx.fail("C11/repeat/exception/%s/%s" % (e["type"], feats0),
                 "a call of the repeated-composite script raises %s (%s) at %s after %s" % (e["type"], e["msg"], e["where"], e["after"]),
                 repeat_json(case, res), e, "every call answers, and answers like the first call on a freshly opened document")
        return
    p0 = res["problems"][0]
    kind = p0["what"].split("-differs")[0] if "-differs" in p0["what"] else "aliasing"
    only = {"composite", kind}

    def fails(d):
        r = cc.eval_repeat(dict(case, doc=d, only=only))
        return r["error"] is None and any(q["what"] == p0["what"] for q in r["problems"])
    c2 = dict(case, only=only)
    if fails(case["doc"]):
        c2 = dict(c2, doc=cc.shrink_doc(case["doc"], fails, budget=40 if ctx.quick else 120))
    else:
        c2 = dict(case)
    for k in ("backdrop", "filter"):
        if c2.get(k) is not None:
            c3 = {kk: v for kk, v in c2.items() if kk != k}
            r3 = cc.eval_repeat(c3)
            if r3["error"] is None and any(q["what"] == p0["what"] for q in r3["problems"]):
                c2 = c3
    r = cc.eval_repeat(c2)
    pp = next((q for q in r["problems"] if q["what"] == p0["what"]), None) if r["error"] is None else None
    if pp is None:
        c2, r, pp = case, res, p0
    feats = cc.feature_sig(c2["doc"], variant_tags(c2))
    ctx.fail("C11/repeat/%s/%s" % (pp["what"], feats),
             "on ONE PSDImage object the call %s (step %d of the script) does not give what the first such call on a freshly "
             "opened copy of the same document gives: %s (features of the shrunk document: %s)"
             % (pp["call"], pp["step"], pp["what"], feats),
             repeat_json(c2, r), pp, "bit-identical arrays: compositing reads the document, it does not change it, and what it "
                                     "returns belongs to the caller")


def repeat_stream(ctx, pools):
    """comp_common.eval_repeat on the documents made for it, on the deterministic matrix, the non-separable and the seeded
    documents (with their backdrop / layer_filter variants)"""
    cases = [{"doc": d, "stream": "repeat", "variant": "plain"} for d in cc.repeat_docs()]
    for label, cs, every in pools:
        cases += [dict(c, stream=label) for c in cs[::every]]
    results = cc.run_repeat(cases)
    shown = {}
    ncalls = 0
    for c, r in zip(cases, results):
        ncalls += r["calls"]
        ctx.hist("repeat_documents", c["stream"] + ":" + c.get("variant", "plain"))
        if r["error"] is None and not r["problems"]:
            ctx.hist("repeat_outcome", "every call equals the first call on a fresh document")
            continue
        fam = r["error"]["type"] if r["error"] else r["problems"][0]["what"]
        ctx.hist("repeat_outcome", fam)
        if shown.get(fam, 0) >= (2 if ctx.quick else 4):
            continue
        shown[fam] = shown.get(fam, 0) + 1
        report_repeat(ctx, c, r)
    ctx.extra["repeat_script"] = {"documents": len(cases), "calls_compared_with_a_fresh_document": ncalls}


# ------------------------------------------------------------------------------------------
# the check
# ------------------------------------------------------------------------------------------
def run(ctx: core.Run):
    ctx.regenerate(extract_fx.gen_composite_fx)
    # what in the read path of the compositor outlives a call, and what `paste` hands back (Generated/CompState.lean)
    ctx.regenerate(extract_c11_state.gen_comp_state)
    ctx.prove(["PsdVerif.Props.C11", "PsdVerif.Props.C11Fx", "PsdVerif.Props.C11State"])
    st = {"unstable_px": 0, "px": 0, "spec_da": 0.0, "spec_dc": 0.0, "corr_da": 0.0, "corr_dc": 0.0}
    corpus = json.loads((core.VERIF / "harness" / "corpus" / "C11.json").read_text())
    process(ctx, [case_from_json(j) for j in corpus], st, "corpus")
    mcases = matrix_cases(ctx.tier)
    for k in range(0, len(mcases), 600):
        process(ctx, mcases[k:k + 600], st, "matrix")
    n_main, n_jumpy = (60, 15) if ctx.quick else (1500, 250)
    cases = make_cases(ctx, n_main, n_jumpy)
    for k in range(0, len(cases), 600):
        process(ctx, cases[k:k + 600], st, "generated")
    ctx.sample({"doc": {"size": cases[0]["doc"]["size"], "mode": cases[0]["doc"]["mode"],
                        "features": cc.feature_sig(cases[0]["doc"]), "layers": cc.count_layers(cases[0]["doc"]["recipe"])}})
    ncases = nonsep_stream(ctx, st)
    plain_m = [c for c in mcases if c.get("variant") == "plain"]
    repeat_stream(ctx, [("matrix", plain_m, 1 if not ctx.quick else 2), ("nonsep", ncases, 6), ("generated", cases, 1)])
    fixtures(ctx, st)
    model_self_check(ctx, cases[:6])
    knockout_witness(ctx)
    c11_fx.run(ctx, st)

    ncell, zero = mx.coverage(ctx.histograms.get("matrix", {}))
    _, zero_random = mx.coverage(st.get("random_cells", set()))
    ctx.extra["feature_matrix"] = {
        "cells": ncell, "cells_hit": ncell - len(zero), "cells_without_hits": zero,
        "documents_in_the_deterministic_stream": len({id(c["doc"]) for c in mcases}),
        "cells_the_seeded_random_stream_alone_missed_in_this_run": len(zero_random),
        "examples_missed_by_the_random_stream": zero_random[:12],
        "histogram": "histograms.matrix (hits per cell, plain variant of every corpus / matrix / generated document)"}
    if zero:
        ctx.skipped.append(f"{len(zero)} cell(s) of the feature matrix were not exercised: {zero[:10]}")
    ctx.extra["max_abs_diff_model_vs_impl"] = {"alpha_shape": st["corr_da"], "premultiplied_colour": st["corr_dc"]}
    ctx.extra["max_abs_diff_impl_vs_published"] = {"alpha_shape": st["spec_da"], "premultiplied_colour": st["spec_dc"]}
    ctx.extra["pixels_next_to_a_blend_jump_or_steep_slope"] = {"pixels": st["unstable_px"], "of": st["px"]}
    ctx.extra["spec_tie_requests_comp_spec_equals_comp_pixel_exactly"] = {
        "requests": st.get("spec_tie", 0), "with_nonzero_alpha": st.get("spec_tie_alpha_pos", 0)}
    ctx.extra["spec_pub_tie_requests_compared_with_comp_spec_pub"] = {
        "requests": st.get("spec_pub_tie", 0), "with_nonzero_alpha": st.get("spec_pub_tie_alpha_pos", 0)}
    ctx.extra["tolerances"] = {"shape_alpha": cc.TOL_ALPHA, "premultiplied_colour": cc.TOL_COLOR, "alpha_min_for_colour": cc.ALPHA_MIN,
                               "stability_probe": {"delta": cc.DELTA_STAB, "limit": cc.STAB_LIMIT}}
    ctx.rule = (
        "deterministic feature-matrix stream first (comp_matrix.matrix_docs: 3x3 documents covering every cell of comp_matrix.universe() - "
        "clip runs on every kind of base x modifier x clip-layer kinds x run length 1-3 x context x blend, knockout x element x container, "
        "group kind x attribute x backdrop x content x nesting, geometry, masks and mask density on layers / groups / clip layers, pixel "
        "attributes - independent of VERIF_SEED; hits per cell in histograms.matrix, cells without hits in feature_matrix), then the seeded stream: "
        "one case = one call of psd_tools.composite.composite on a generated document (1-8 layers, nesting <= 3, canvas <= 8x8, "
        "colour mode L/RGB/CMYK, boxes inside / straddling / outside the canvas, alpha 0 / partial / 1 / no transparency channel, "
        "opacity, fill opacity, visibility, 19 continuous separable blend modes in the main stream, hard mix + the six non-separable "
        "modes in the 'jumpy' stream, clipping runs incl. orphans and clipping groups, raster masks (background 0/255, density, "
        "disabled), knockout, group mode pass-through / normal / other), plain or with a random backdrop colour/alpha array or with a "
        "layer_filter; evaluations = pixels composited; correspondence_cases = pixels sent to the Lean model (every pixel of every "
        "generated case; a seeded sample of <= 160 pixels per fixture); distinct = distinct (document, variant) pairs with a non-empty viewport. "
        "Stream 'nonsep' (comp_common.nonsep_docs): every ordered pair of an 8-colour palette (saturated primaries / secondaries, a dark and a "
        "bright tinted colour, mid colours) under the six non-separable modes in six positions (plain, translucent, inside an isolated / "
        "pass-through group, as clip layer, as a group's blend mode) + seeded palettes; histograms.clipcolor_pixels_compared counts the compared "
        "pixels whose SetLum colour lies below / above / inside the unit cube before ClipColor. Repeated-composite script (comp_common.eval_repeat; "
        "documents made for it, the matrix, the non-separable and the seeded documents with their backdrop / layer_filter variants): on ONE object "
        "composite(psd) x3, composite(layer) x2 for every layer / group (+ as_layer), composite(psd, viewport) x2 for the canvas, every layer's box, "
        "a crop and a shifted window, numpy() arrays and composite results overwritten by the caller, composite(psd) again - every answer "
        "bit-identical to the first answer of a freshly built twin (extra.repeat_script)")
    ctx.trusted_base += [
        "Lean 4.33 kernel; axioms allowed: propext, Classical.choice, Quot.sound (audited per theorem)",
        "Model/Composite.lean: hand transliteration of composite/__init__.py (Compositor, composite, paste, _intersect) as a per-pixel "
        "state machine over Rat; tied by this run's correspondence check on every pixel of every generated document",
        "Model/CompositeEval.lean: the evaluator the driver runs, PROVED equal to the model (evaluator_is_model)",
        "Model/CompositeSpec.lean: the published model (Porter-Duff / PDF 1.7 11.3.6, 11.4.4-11.4.8, Photoshop's factors, clipping "
        "groups) as a Lean denotation of the same layer tree in premultiplied form, hand-transcribed; the code model is PROVED to refine "
        "it (compositor_refines_spec*), its evaluator comp.spec is PROVED equal to it (spec_evaluator_is_spec) and is compared exactly "
        "with comp.pixel on every correspondence request of this run (a difference on a CMYK document that uses a non-separable mode "
        "is counted, not reported: there the blend table leaves [0,1] - known findings of C12 - and the theorem's hypothesis BOk fails)",
        "Model/Blend.lean (C12) instantiates the blend table",
        "harness/comp_common.py: extraction of the per-pixel tree through the public getters; the float64 oracle of the published model",
        "harness/pixdoc.py builds documents from low-level records; they are serialised and re-read by the library before use",
        "harness/extract_c11_state.py: syntactic reader of stores that outlive a call in composite/*.py and api/numpy_io.py and of the "
        "returns of paste (Generated/CompState.lean); the model is stateless by construction, this ties that to the source",
    ]
    ctx.assumptions += [
        "float32 arithmetic of NumPy stays within 2e-4 (shape, alpha) / 1e-3 (premultiplied colour) of exact arithmetic on these documents "
        "(measured on every run: see max_abs_diff_model_vs_impl)",
        "colour is compared only where the result alpha exceeds 1e-4: the published model leaves colour under zero coverage undefined, the "
        "code fills it with its 0/0 -> 1 fallback, the model reproduces that and the theorems quotient it away the same way (Same / '≈')",
        "pixels where some blend evaluation sits next to a jump or a very steep slope of the published formula (probe: +-2e-5 on both "
        "arguments moves the value by more than 5e-4) are excluded from the comparison and counted",
        "np.sqrt (soft light): rational approximation floor(sqrt(x)*1e12)/1e12 in the driver",
        "non-separable modes on CMYK documents: correspondence only (the published procedure differs from the code: known findings of C12)",
    ]
    ctx.model_coverage = {
        "modelled": ["composite() for a document", "Compositor.__init__/apply/_apply_source/finish/color/shape/alpha", "_get_group",
                     "_get_object (pixel source)", "_apply_clip_layers", "_get_mask (raster mask, density, disabled)", "_get_const",
                     "paste", "_intersect", "_union/_clip/_divide", "layer_filter", "knockout", "backdrop colour/alpha arrays"],
        "modelled_by_the_effect_carrying_model": [
            "_get_object: fill or pixels ((force or not has_pixels) and has_fill), clip run, vector stroke sub-compositor and its finish() colour",
            "_get_mask: vector mask where it applies", "_apply_color_overlay / _apply_pattern_overlay / _apply_gradient_overlay / "
            "_apply_stroke_effect as extra _apply_source steps with the layer's shape / alpha after masks and layer opacity",
            "adjustment layers (skipped by apply)", "force=True", "has_fill", "_get_stroke (pastes, opacity)"],
        "opaque": ["float32 rounding", "what is drawn: create_fill / draw_vector_mask / draw_stroke / draw_*_fill / draw_stroke_effect (aggdraw, scipy, "
                   "skimage) - parameters of the effect-carrying model, obtained by calling the real functions",
                   "composite() of a document without layers (merged image path; C17)", "composite_pil / PIL conversion (C17)"],
    }
    ctx.notes += NOTES + c11_fx.NOTES
    if ctx.tier == "thorough":
        ctx.recheck(["PsdVerif.Props.C11", "PsdVerif.Props.C11Fx", "PsdVerif.Props.C11State"])


KNOCKOUT_SIG = "C11/knockout/group-alpha/white-over-white"


def knockout_witness_case():
    """Props/C11.lean knockout_rules_differ as a document: a white layer with alpha 128/255 and, in a
    pass-through group above it, a white, fully covering layer with the knockout flag and opacity 128/255.  (The group hands its
    children the backdrop `white, alpha 128/255`, which is the backdrop of the Lean witness.)"""
    def px(alpha, **kw):
        n = {"t": "pixel", "rect": [0, 0, 1, 1], "color": np.full((1, 1, 1), 255, np.uint8), "alpha": np.full((1, 1), alpha, np.uint8),
             "opacity": 255, "fill": None, "blend": "NORMAL", "visible": True, "clip": False, "knockout": False, "mask": None}
        n.update(kw)
        return n
    recipe = [px(128), {"t": "group", "blend": "PASS_THROUGH", "opacity": 255, "fill": None, "visible": True, "clip": False,
                        "knockout": False, "children": [px(255, opacity=128, knockout=True)]}]
    doc = {"recipe": recipe, "size": [1, 1], "mode": "L"}
    cc.name_nodes(doc["recipe"])
    return {"doc": doc, "stream": "witness", "variant": "plain"}


def knockout_witness(ctx):
    """the real compositor on the witness of Props/C11.lean knockout_rules_differ (comp.spec.alt = the alpha-coherent variant); the float64 oracle of comp_common carries the
    coded rule (it was written from the code's reading of the general formula), so the random search cannot see this one"""
    case = knockout_witness_case()
    r = cc.eval_case(dict(case, want_spec=False))
    if r["error"] or not r["reqs"]:
        ctx.disagree(f"the knockout witness cannot be evaluated: {r['error']}", case_json(case))
        return
    pub = spec_answers(ctx, r["reqs"], "comp.spec.alt")[0]
    mod = ctx.driver().batch(r["reqs"])[0]
    if pub[0] != "ok" or mod[0] != "ok":
        ctx.disagree(f"the model does not evaluate the knockout witness: {mod} / {pub}", case_json(case))
        return
    pp, ps, pa = pub[1].split(" ")
    pa, pp = float(Fraction(pa)), float(Fraction(pp.split(",")[0]))
    c, s, a = (float(np.asarray(v).ravel()[0]) for v in r["real"])
    ctx.extra["knockout_witness"] = {"real": {"colour": c, "alpha": a, "premultiplied": c * a},
                                     "published": {"colour": pp / pa, "alpha": pa, "premultiplied": pp},
                                     "code_model": mod[1]}
    # Not a failure: the real compositor must agree with the CODE model here (that is the correspondence above); the
    # difference to the alpha-coherent variant of the knockout rule is an observation recorded in the evidence.
    ctx.extra["knockout_witness"]["differs_from_alpha_coherent_variant"] = bool(
        abs(a - pa) > cc.TOL_ALPHA or abs(c * a - pp) > cc.TOL_COLOR)
    try:
        mp, ms, ma = mod[1].split(" ")
        if abs(a - float(Fraction(ma))) > cc.TOL_ALPHA:
            ctx.disagree("knockout witness: the real compositor and the code model differ in alpha",
                         {"real": a, "model": float(Fraction(ma))})
    except Exception:  # noqa
        pass


def model_self_check(ctx, cases):
    """comp.pixel (tabulating evaluator) and comp.pixel.ref (compositeDoc itself) give identical answers on small trees"""
    n = 0
    for c in cases:
        if cc.count_layers(c["doc"]["recipe"]) > 5:
            continue
        r = cc.eval_case(dict(c, want_spec=False))
        if not r["reqs"]:
            continue
        reqs = r["reqs"][:6]
        a = ctx.driver().batch(reqs)
        b = ctx.driver().batch([("comp.pixel.ref", q[1]) for q in reqs])
        n += len(reqs)
        if a != b:
            ctx.disagree("comp.pixel and comp.pixel.ref differ", case_json(c))
    ctx.extra["evaluator_vs_compositeDoc_requests_identical"] = n


NOTES = [
    "proved (Props/C11.lean): apply_source_eq_pdf (one step of the code model = the basic compositing formula with separate shape and "
    "opacity, for all 0 <= alpha_s <= f_s <= 1), normal_is_source_over (Porter-Duff over), flat_stack_is_porter_duff (any stack length), "
    "apply_source_knockout_eq_pdf (the knockout step), state_in_range (all colours, shapes, alphas in [0,1], alpha = Union(alpha_0, alpha_g), "
    "alpha_g <= shape_g through groups, masks, clip runs, knockout), evaluator_is_model (the driver's evaluator = compositeDoc)",
    "proved (Props/C11.lean): compositor_refines_spec_partial (+ _list, _clip_run, _doc) - the code model (applyNode ...) refines the "
    "published model written independently in premultiplied form without clamp or guarded division (Model/CompositeSpec.lean: specNode "
    "...) on whole trees WITHOUT knockout flags: leaves, masks, opacity / fill, nested isolated and pass-through groups with backdrop "
    "removal, clip runs; hypotheses: blend table keeps [0,1] (BOk), stored values in [0,1] (nodeOk), no knockout flag (nodeNoKo), state "
    "invariant Inv and the relation Rel (equal shape / alpha bookkeeping, spec colour = code colour * alpha); result: equal shape and "
    "alpha, colour * alpha = published premultiplied group colour (so equal colour wherever alpha != 0). "
    "compositor_refines_spec (+ _list, _clip_run, _doc): the same for EVERY tree, knockout elements and groups included, "
    "against the published model with ONE recurrence replaced by the coded one (group alpha after a knockout element). "
    "group_result_unclipped: 0 <= C*a - (1-a_g)*a_0*C_0 <= a_g through every tree incl. knockout steps, so the _clip of Compositor.color "
    "and the 0/0 fallback of _divide are inert",
    "DESIGN's compositor_refines_spec at full strength is FALSE of the code: knockout_rules_differ (white layer with "
    "the knockout flag, opacity 1/2, over a white backdrop of alpha 1/2: published alpha 1/2 and colour white, code alpha 3/4 and colour "
    "5/6) and knockout_alpha_excess (the coded alpha exceeds the published one, which is the sum of the colour weights, by exactly "
    "(1-a_0)(f_s-a_s)a_0 per knockout step); replayed on the real compositor by this run (knockout_witness in the evidence): finding "
    + KNOCKOUT_SIG + ". The float64 oracle of comp_common.py still carries the coded rule, on purpose: the random search then looks for "
    "OTHER deviations, this one is pinned by the witness",
    "search, beyond single composites: (a) the non-separable modes on colour pairs where ClipColor actually clips (nonsep_stream; the seeded "
    "'jumpy' stream rarely produced such pairs with a stable neighbourhood); (b) compositing is a pure function of the document: repeated "
    "composites of one object, of its layers and under other viewports equal those of a freshly opened twin bit for bit, and arrays handed "
    "to the caller are not aliased with anything a later call reads (repeat_stream; signatures C11/repeat/...)",
    "correspondence-only: float32 vs exact arithmetic, np.sqrt, everything the extraction reads through public getters "
    "(layer.numpy, bbox, mask, tagged blocks, clip_layers, _has_clip_target)",
]


def replay(ctx, data):
    inp = data.get("input") or {}
    print("replaying", data.get("signature"))
    if inp.get("fx"):
        case = c11_fx.case_from_json(inp)
        r = c11_fx.eval_case(dict(case, want_model=False))
        if r["error"]:
            print("the compositor raises:", r["error"])
        else:
            print("real alpha:\n", np.round(np.asarray(r["real"][2])[..., 0], 4))
            print("first difference from the float64 oracle:", r["spec"][0] if r["spec"] else "(no oracle for this document)")
        print("expected:", data.get("expected"))
        return 0
    if inp.get("repeat"):
        case = case_from_json(inp)
        if inp.get("only"):
            case["only"] = set(inp["only"])
        r = cc.eval_repeat(case)
        print("script:", r["script"])
        print("error:", r["error"])
        for q in r["problems"]:
            print("problem:", q)
        print("expected:", data.get("expected"))
        return 0
    if "fixture" in inp:
        from psd_tools import PSDImage
        psd = PSDImage.open(core.REPO / "tests" / "psd_files" / inp["fixture"])
        real = cc.real_composite(psd)
        print("composite of the fixture: alpha range", float(real[2].min()), float(real[2].max()))
        return 0
    case = case_from_json(inp)
    r = cc.eval_case(dict(case, want_model=False))
    if r["error"]:
        print("the compositor raises:", r["error"])
    else:
        print("real alpha:\n", np.round(np.asarray(r["real"][2])[..., 0], 4))
        if r["spec"]:
            print("first difference from the float64 oracle (published model, but with the knockout group-alpha rule as coded):", r["spec"][0])
        if data.get("signature") == KNOCKOUT_SIG:
            rr = cc.eval_case(dict(case, want_spec=False))
            print("real colour:\n", np.round(np.asarray(rr["real"][0])[..., 0], 4))
            print("published model (comp.spec.alt: premultiplied colour, shape, alpha):", spec_answers(ctx, rr["reqs"], "comp.spec.alt"))
            print("code model      (comp.pixel:    straight colour,      shape, alpha):", ctx.driver().batch(rr["reqs"]))
    print("expected:", data.get("expected"))
    return 0
