"""C16 - attribute edits are observable at once and persist.

Correspondence: the Lean model (`Model/Attr.lean`, driver command `attr.run`) against the
real API on every layer kind (fixtures + API-created), attribute, value pool and short edit
sequences; getters after every edit and after save + reopen.
Search: the property itself on the real objects (get-after-set, frame incl. pixels and
size, persistence, well-typed getters), independent of the model; the frame also across
layers: scenes of two documents with fixture and API-created layers in one process, every
other layer compared after every edit, in memory and as read back from the saved files.
"""
from __future__ import annotations

import hashlib
import io
import json
import struct
import warnings

import core
import extract_c16
from core import err_class

FILES = core.REPO / "tests" / "psd_files"
COMPLETE = 2147483648
I32MAX, I32MIN = 2147483647, -2147483648

ATTRS = ["name", "visible", "opacity", "blend", "left", "top", "clip", "lock"]
# dump fields (same order as Driver/Attr.lean `dump`)
F_NAME, F_VIS, F_OPA, F_BLEND, F_LEFT, F_TOP, F_CLIP, F_LOCK, F_RIGHT, F_BOTTOM, F_W, F_H = range(12)
F_LEGACY, F_RBLEND, F_FLAGS, F_CLIPV, F_RECT, F_PIX, F_BLOCKS = range(12, 19)
ATTR_FIELD = {"name": F_NAME, "visible": F_VIS, "opacity": F_OPA, "blend": F_BLEND, "left": F_LEFT,
              "top": F_TOP, "clip": F_CLIP, "lock": F_LOCK}
FIELD_NAME = ["name", "visible", "opacity", "blend_mode", "left", "top", "clipping_layer", "locks", "right",
              "bottom", "width", "height", "legacy-name", "record-blend", "flags", "clipping", "rect", "pixels",
              "blocks"]

# fixtures: one (or a few) layers per kind; (file, kind wanted) - the first layer of that kind is used
QUICK_FIXTURES = [
    ("layers/pixel-layer.psd", "pixel"), ("1layer.psd", "pixel"), ("transparentbg-gimp.psd", "pixel"),
    ("layers/group.psd", "group"), ("clipping-mask3.psd", "group"),
    ("gradient-sizes.psd", "artboard"),
    ("clip-adjustment.psd", "type"),
    ("layers-minimal/shape-layer.psd", "shape"),      # no pixel planes: box from the vector mask
    ("masks/2.psd", "shape"),                        # no pixel planes: box from the origination data
    ("layers/shape-layer.psd", "shape"),             # with pixel planes
    ("layers-minimal/smartobject-layer.psd", "smartobject"),
    ("layers-minimal/solid-color-fill.psd", "fill"), ("colormodes/4x4_8bit_lab.psd", "fill"),
    ("layers-minimal/pattern-fill.psd", "fill"), ("layers/pattern-fill.psb", "fill"),
    ("layers/hue-saturation.psd", "adjustment"), ("layers/levels.psd", "adjustment"),
    ("colormodes/4x4_16bit_lab.psd", "fill"),
]
MORE_FIXTURES = [
    ("2layers.psd", "pixel"), ("broken-groups.psd", "group"), ("broken-groups.psd", "pixel"),
    ("layers/type-layer.psd", "type"), ("layers/smartobject-layer.psd", "smartobject"),
    ("layers/curves.psd", "adjustment"), ("layers/brightness-contrast.psd", "adjustment"),
    ("layers/gradient-map.psd", "adjustment"), ("layers/invert.psd", "adjustment"),
    ("opacity-fill.psd", "fill"), ("clipping-mask2.psd", "fill"), ("clipping-mask2.psd", "adjustment"),
    ("empty-group.psd", "group"), ("path-operations/intersect-first.psd", "shape"),
    ("placedLayer.psd", "smartobject"), ("colormodes/4x4_32bit_grayscale.psd", "fill"),
    ("16bit5x5.psd", "pixel"), ("advanced-blending.psd", "artboard"),
]


# ---- kinds ------------------------------------------------------------------------------
def model_kind(layer) -> str:
    from psd_tools.api import layers as L
    if isinstance(layer, L.Artboard):
        return "artboard"
    if isinstance(layer, L.Group):
        return "group"
    if isinstance(layer, L.TypeLayer):
        return "type"
    if isinstance(layer, L.ShapeLayer):
        return "shape"
    if isinstance(layer, L.SmartObjectLayer):
        return "smartobject"
    if isinstance(layer, L.FillLayer):
        return "fill"
    if isinstance(layer, L.AdjustmentLayer):
        return "adjustment"
    if isinstance(layer, L.PixelLayer):
        return "pixel"
    return "other:" + type(layer).__name__


MOVABLE = {"pixel", "type", "smartobject", "fill", "adjustment"}


# ---- wire encoding ----------------------------------------------------------------------
def cps(s: str) -> str:
    return ",".join(str(ord(c)) for c in s) if s else "_"


def hx(b) -> str:
    b = bytes(b)
    return b.hex() if b else "_"


def ecls(e) -> str:
    c = err_class(e)
    # the model reports read-only position setters (AttributeError / NotImplementedError) as Err.other
    return "Other" if (c.startswith("Other") or c == "AttributeError") else c


def pix_digest(layer) -> str:
    """channel data as stored (compared with the model's opaque `pixels` component)"""
    h = hashlib.sha1()
    rec = layer._record
    for ci, cd in zip(rec.channel_info, layer._channels):
        h.update(repr((int(ci.id), int(cd.compression), len(cd.data or b""))).encode())
        h.update(cd.data or b"")
    return h.hexdigest()[:16]


def np_digest(layer):
    """decoded pixels (`layer.numpy()`), where the layer can be rendered in its current situation"""
    if layer.is_group():
        return None
    try:
        with warnings.catch_warnings():
            warnings.simplefilter("ignore")
            a = layer.numpy()
        if a is None:
            return "none"
        return hashlib.sha1(repr(a.shape).encode() + a.tobytes()).hexdigest()[:16]
    except Exception:  # noqa - e.g. a layer without a document; rendering is not the subject here
        return None


def block_str(key, block) -> str:
    kb = bytes(getattr(key, "value", key))
    d = block.data
    if kb == b"luni":
        body = "s:" + cps(d.value)
    elif kb in (b"lsct", b"lsdk"):
        body = "d:%d,%s,%s,%s" % (
            int(d.kind), "_" if d.signature is None else hx(d.signature),
            "_" if d.blend_mode is None else hx(d.blend_mode.value),
            "_" if d.sub_type is None else str(int(d.sub_type)))
    elif kb == b"lspf":
        body = "i:%d" % int(d.value)
    else:
        body = "r:" + hx(kb)      # opaque: the payload is represented by the key
    return "%s:%s:%s" % (hx(block.signature), hx(kb), body)


def blocks_str(layer) -> str:
    items = [block_str(k, b) for k, b in layer.tagged_blocks.items()]
    return ";".join(items) if items else "_"


def psd_str(layer) -> str:
    p = layer._psd
    return "_" if p is None else "%d,%d" % (p.width, p.height)


def flags_bits(f) -> str:
    return "".join("1" if x else "0" for x in (
        f.transparency_protected, f.visible, f.obsolete, f.photoshop_v5_later, f.pixel_data_irrelevant,
        f.undocumented_1, f.undocumented_2, f.undocumented_3))


def flags_byte(f) -> int:
    return (f.transparency_protected * 1 | (not f.visible) * 2 | f.obsolete * 4 | f.photoshop_v5_later * 8
            | f.pixel_data_irrelevant * 16 | f.undocumented_1 * 32 | f.undocumented_2 * 64 | f.undocumented_3 * 128)


def layer_spec(layer, pix) -> tuple[str, str]:
    r = layer._record
    spec = "|".join(["L", model_kind(layer), str(r.top), str(r.left), str(r.bottom), str(r.right),
                     hx(r.blend_mode.value), str(int(r.opacity)), str(int(r.clipping)), flags_bits(r.flags),
                     cps(r.name), psd_str(layer), pix])
    return spec, blocks_str(layer)


def _get(f):
    try:
        return f()
    except Exception as e:  # noqa
        return e


def dump(layer, pix=None) -> str:
    """Same text as the driver's `dump` for the corresponding model state."""
    from psd_tools.constants import BlendMode
    kind = model_kind(layer)
    mov = kind in MOVABLE
    out = []

    def val(v):
        if isinstance(v, Exception):
            return "!" + ecls(v)
        if v is None:
            return "n"
        if isinstance(v, bool):
            return "b:1" if v else "b:0"
        if isinstance(v, BlendMode):
            return "k:" + hx(v.value)
        if isinstance(v, int):
            return "i:%d" % v
        if isinstance(v, str):
            return "s:" + cps(v)
        if hasattr(v, "value") and isinstance(v.value, int):
            return "i:%d" % v.value
        return "o"

    def num(v):
        return "!" + ecls(v) if isinstance(v, Exception) else str(v)

    out.append(val(_get(lambda: layer.name)))
    out.append(val(_get(lambda: layer.visible)))
    out.append(val(_get(lambda: layer.opacity)))
    out.append(val(_get(lambda: layer.blend_mode)))
    out.append(val(_get(lambda: layer.left)) if mov else "d")
    out.append(val(_get(lambda: layer.top)) if mov else "d")
    out.append(val(_get(lambda: layer.clipping_layer)))
    out.append(val(_get(lambda: layer.locks)))
    out.append(num(_get(lambda: layer.right)) if mov else "d")
    out.append(num(_get(lambda: layer.bottom)) if mov else "d")
    out.append(num(_get(lambda: layer.width)) if mov else "d")
    out.append(num(_get(lambda: layer.height)) if mov else "d")
    r = layer._record
    out.append(cps(r.name))
    out.append(hx(r.blend_mode.value))
    out.append(str(flags_byte(r.flags)))
    out.append(str(int(r.clipping)))
    out.append("%d,%d,%d,%d" % (r.top, r.left, r.bottom, r.right))
    out.append(pix if pix is not None else pix_digest(layer))
    out.append(blocks_str(layer))
    return "|".join(out)


def op_str(op) -> str:
    if op[0] == "save":
        return "save"
    k, v = op[0], op[1]
    if k == "name":
        return "name=" + cps(v)
    if k in ("visible", "clip"):
        return "%s=%d" % (k, 1 if v else 0)
    if k == "blend":
        return "blend=" + v
    if k in ("offset", "attach"):
        return "%s=%d,%d" % (k, v[0], v[1])
    return "%s=%d" % (k, v)


# ---- the real side ----------------------------------------------------------------------
_bytes_cache: dict = {}


def fixture_bytes(rel: str, variant: str) -> bytes:
    key = (rel, variant)
    if key in _bytes_cache:
        return _bytes_cache[key]
    data = (FILES / rel).read_bytes()
    if variant == "lsdk":
        # the same document with the section dividers stored under the nested key (as Photoshop
        # does for deeply nested groups): a structural mutation of the 4-byte key only
        data = data.replace(b"8BIMlsct", b"8BIMlsdk")
    elif variant == "short":
        # the same document with 4-byte divider blocks (kind only), as written by old versions
        from psd_tools import PSDImage
        from psd_tools.constants import Tag
        from psd_tools.psd.tagged_blocks import SectionDividerSetting
        p = PSDImage.open(io.BytesIO(data))
        for l in p.descendants():
            if l.is_group():
                b = l.tagged_blocks.get(Tag.SECTION_DIVIDER_SETTING)
                if b is not None:
                    b.data = SectionDividerSetting(b.data.kind)
        f = io.BytesIO()
        p.save(f)
        data = f.getvalue()
    _bytes_cache[key] = data
    return data


def open_bytes(data: bytes):
    from psd_tools import PSDImage
    with warnings.catch_warnings():
        warnings.simplefilter("ignore")
        return PSDImage.open(io.BytesIO(data))


def find_kind(psd, kind: str, nth=0):
    k = 0
    for l in psd.descendants():
        if model_kind(l) == kind:
            if k == nth:
                return l
            k += 1
    return None


def path_of(layer):
    p = []
    cur = layer
    while cur.parent is not None:
        par = cur.parent
        idx = [i for i, x in enumerate(par) if x is cur]
        if not idx:
            return None
        p.append(idx[0])
        cur = par
        if not hasattr(cur, "parent"):
            break
        if cur.parent is None:
            break
    return list(reversed(p))


def at_path(psd, path):
    cur = psd
    for i in path:
        cur = cur[i]
    return cur


def save_bytes(psd) -> bytes:
    f = io.BytesIO()
    with warnings.catch_warnings():
        warnings.simplefilter("ignore")
        psd.save(f)
    return f.getvalue()


def build(source):
    """source -> (psd or None, layer, attach target or None). Deterministic."""
    from psd_tools import PSDImage
    from psd_tools.api.layers import Group, PixelLayer
    t = source["t"]
    if t == "fix":
        psd = open_bytes(fixture_bytes(source["file"], source.get("variant", "plain")))
        layer = find_kind(psd, source["kind"], source.get("nth", 0))
        return psd, layer, None
    # API-created: a document to attach to
    doc = source.get("doc", "new-empty")
    if doc.startswith("fix:"):
        psd = open_bytes(fixture_bytes(doc[4:], "plain"))
    else:
        psd = PSDImage.new("RGB", (source.get("W", 16), source.get("H", 12)))
        if doc == "new-with-layer":
            from PIL import Image
            psd.append(PixelLayer.frompil(Image.new("RGB", (3, 2), (9, 8, 7)), psd, "base"))
    target = psd
    if source.get("into_group"):
        g = find_kind(psd, "group")
        if g is None:
            g = Group.new("holder", parent=psd)
        target = g
    if t == "newgroup":
        layer = Group.new(source["name"], open_folder=source.get("open", True))
    elif t == "frompil":
        from PIL import Image
        mode = source.get("mode", "RGB")
        im = Image.new(mode, (source["w"], source["h"]))
        px = im.load()
        for y in range(source["h"]):
            for x in range(source["w"]):
                v = (x * 37 + y * 11) % 256
                px[x, y] = v if mode == "L" else ((v, 255 - v, (v * 3) % 256) if mode == "RGB" else (v, 255 - v, (v * 3) % 256, 200 - x))
        layer = PixelLayer.frompil(im, psd if source.get("psd_given", True) else None, source["name"],
                                   source.get("top", 0), source.get("left", 0))
    else:
        raise core.Infra("unknown source " + t)
    return psd, layer, target


def source_spec(source, layer, pix):
    """model-side description of the initial layer"""
    t = source["t"]
    if t == "fix":
        return layer_spec(layer, pix)
    if t == "newgroup":
        return "G|%s|%d|%s" % (cps(source["name"]), 1 if source.get("open", True) else 0, pix), "_"
    if t == "frompil":
        psd = "%d,%d" % (layer._psd.width, layer._psd.height) if layer._psd is not None else "_"
        return "P|%s|%d|%d|%d|%d|%s|%s" % (cps(source["name"]), source.get("top", 0), source.get("left", 0),
                                            source["w"], source["h"], psd, pix), "_"


def apply_op(layer, op, target):
    from psd_tools.constants import BlendMode
    k, v = op[0], op[1]
    form = op[2] if len(op) > 2 else None
    if k == "name":
        layer.name = v
    elif k == "visible":
        layer.visible = v
    elif k == "opacity":
        layer.opacity = v
    elif k == "blend":
        if form == "bytes":
            layer.blend_mode = bytes.fromhex(v)
        elif form == "str":
            layer.blend_mode = bytes.fromhex(v).decode("ascii")
        else:
            layer.blend_mode = BlendMode(bytes.fromhex(v))
    elif k == "left":
        layer.left = v
    elif k == "top":
        layer.top = v
    elif k == "offset":
        layer.offset = tuple(v)
    elif k == "clip":
        layer.clipping_layer = v
    elif k == "lock":
        if form == "unlock" and v == 0:
            layer.unlock()
        elif form == "default" and v == COMPLETE:
            layer.lock()
        else:
            layer.lock(v)
    elif k == "attach":
        target.append(layer)
    else:
        raise core.Infra("unknown op " + k)


def pos_obs(layer) -> str:
    """the position as the getters give it, for EVERY kind (the dump shows 'd' where the model has no value):
    left, top, right, bottom, offset, size, bbox"""
    def one(f):
        v = _get(f)
        return "!" + ecls(v) if isinstance(v, Exception) else repr(tuple(v) if isinstance(v, (tuple, list)) else v)
    return ";".join(one(f) for f in (lambda: layer.left, lambda: layer.top, lambda: layer.right, lambda: layer.bottom,
                                     lambda: layer.offset, lambda: layer.size, lambda: layer.bbox))


POS_NAME = ["left", "top", "right", "bottom", "offset", "size", "bbox"]


def run_real(case):
    """Run one case on the real API. Returns a dict with the step dumps and raw exceptions.
    An op ["save"] writes the document as it is at that point of the history (the bytes are dropped)."""
    source, ops = case["source"], [tuple(o) for o in case["ops"]]
    psd, layer, target = build(source)
    if layer is None:
        raise core.Infra("no %s layer in %s" % (source.get("kind"), source.get("file")))
    pix0 = pix_digest(layer)
    res = {"kind": model_kind(layer), "pix0": pix0, "steps": [], "attached": source["t"] == "fix"}
    res["spec"], res["blocks"] = source_spec(source, layer, pix0)
    res["dump0"] = dump(layer, pix0)
    res["np"] = [np_digest(layer)]
    res["pos"] = [pos_obs(layer)]
    res["has_lspf0"] = "6c737066" in res["dump0"].split("|")[F_BLOCKS]
    ops = list(ops)
    if source["t"] != "fix" and not any(o[0] == "attach" for o in ops):
        ops.append(("attach", (psd.width, psd.height)))
    res["ops"] = ops
    for op in ops:
        if op[0] == "attach":
            op = ("attach", (psd.width, psd.height))
        try:
            if op[0] == "save":
                save_bytes(psd)
            else:
                with warnings.catch_warnings():
                    warnings.simplefilter("ignore")
                    apply_op(layer, op, target)
            st = "ok"
            if op[0] == "attach":
                res["attached"] = True
        except Exception as e:  # noqa
            st = "err:" + ecls(e)
            res.setdefault("exc", []).append(repr(e)[:200])
        res["steps"].append((st, dump(layer)))
        res["np"].append(np_digest(layer))
        res["pos"].append(pos_obs(layer))
    res["final_ops"] = [list(o) for o in ops]
    # save + reopen
    try:
        path = path_of(layer)
        data = save_bytes(psd)
    except Exception as e:  # noqa
        res["save"] = "save-err:" + ecls(e)
        res["save_exc"] = repr(e)[:200]
        return res
    try:
        q = open_bytes(data)
        l2 = at_path(q, path)
        res["save"] = "ok"
        res["reopened"] = dump(l2)
        res["kind2"] = model_kind(l2)
        res["np"].append(np_digest(l2))
        res["pos_reopened"] = pos_obs(l2)
    except Exception as e:  # noqa
        res["save"] = "reopen-err:" + ecls(e)
        res["save_exc"] = repr(e)[:200]
    return res


# ---- value pools ------------------------------------------------------------------------
def name_pool():
    return [
        "", "A", "Layer 1", "?", "café", "Ωmega ≠ ∞",            # MacRoman-expressible
        "日本語", "Фон", "áë", "שלום",   # not MacRoman
        "\U0001F600", "x\U00010000y\U0010FFFF", "￿퟿",                # astral, BMP boundaries
        "\x00", "a\x00b", "tab\tnl\n", " trailing ", "</Layer group>",
        "x" * 255, "日" * 255, "é" * 255, "\U0001F600" * 255,
    ]


def rand_name(rng):
    n = rng.choice([0, 1, 2, 5, 31, 32, 127, 128, 254, 255])
    alpha = rng.choice([
        lambda: chr(rng.randrange(32, 127)),
        lambda: chr(rng.choice([0xe9, 0xc4, 0x3a9, 0x2260, 0x20ac, 0xf8ff])),
        lambda: chr(rng.choice([rng.randrange(0x100, 0xd800), rng.randrange(0xe000, 0x10000)])),
        lambda: chr(rng.randrange(0x10000, 0x110000)),
        lambda: rng.choice(["a", "́", "日", "\U0001F600", "\x00", "\xe9"]),
    ])
    return "".join(alpha() for _ in range(n))


def blend_pool():
    from psd_tools.constants import BlendMode
    return [bytes(m.value).hex() for m in BlendMode]


def lock_pool():
    return list(range(16)) + [COMPLETE, COMPLETE | 5, 16, 0xFFFFFFFF]


def opacity_pool():
    return [0, 1, 127, 128, 254, 255]


def offset_pool(width):
    w = width if isinstance(width, int) else 0
    xs = [0, 1, -1, 7, -13, 1000, -100000, I32MAX, I32MIN, I32MAX - w, I32MAX - w + 1 if w > 0 else I32MAX - 1, -w]
    return list(dict.fromkeys(xs))


def single_ops(rng, res0_width, res0_height, quick):
    """systematic single edits: every attribute x its value pool"""
    ops = []
    names = name_pool()
    if quick:
        names = names[:19] + [names[19], names[21]]
    for n in names:
        ops.append(("name", n))
    for b in (False, True):
        ops.append(("visible", b))
        ops.append(("clip", b))
    for o in opacity_pool():
        ops.append(("opacity", o))
    for k, m in enumerate(blend_pool()):
        ops.append(("blend", m, ["member", "bytes", "str"][k % 3]))
    for v in lock_pool():
        ops.append(("lock", v, "unlock" if v == 0 else "default" if v == COMPLETE else None))
    for v in offset_pool(res0_width):
        ops.append(("left", v))
    for v in offset_pool(res0_height):
        ops.append(("top", v))
    ops.append(("offset", (5, -6)))
    ops.append(("offset", (-res0_width if isinstance(res0_width, int) else 0, 3)))
    # values outside the domain: the refusal must leave the layer alone (compared with the model)
    ops += [("name", "y" * 256), ("opacity", 256), ("opacity", -1), ("blend", "7a7a7a7a", "bytes")]
    return ops


def rand_op(rng, blends):
    k = rng.choice(ATTRS + ["offset", "lock", "name", "blend"])
    if k == "name":
        return ("name", rng.choice(name_pool()[:18]) if rng.random() < 0.6 else rand_name(rng))
    if k in ("visible", "clip"):
        return (k, rng.random() < 0.5)
    if k == "opacity":
        return (k, rng.choice(opacity_pool() + [rng.randrange(256)]))
    if k == "blend":
        return (k, rng.choice(blends), rng.choice(["member", "bytes", "str"]))
    if k == "lock":
        v = rng.choice(lock_pool())
        return (k, v, rng.choice(["unlock", None]) if v == 0 else rng.choice(["default", None]) if v == COMPLETE else None)
    if k == "offset":
        return (k, (rng.choice([0, 3, -4, 100000, -512]), rng.choice([0, 2, -9, 77777, -512])))
    return (k, rng.choice([0, 1, -1, 5, -512, -16, 300, 1 << 20, -(1 << 20), I32MAX, I32MIN, I32MAX - 1]))


# ---- the search oracle (independent of the model) -------------------------------------------
def expected_field(op):
    """dump text the getter must show after a successful edit"""
    k, v = op[0], op[1]
    if k == "name":
        return {F_NAME: "s:" + cps(v)}
    if k == "visible":
        return {F_VIS: "b:1" if v else "b:0"}
    if k == "clip":
        return {F_CLIP: "b:1" if v else "b:0"}
    if k == "opacity":
        return {F_OPA: "i:%d" % v}
    if k == "blend":
        return {F_BLEND: "k:" + v}
    if k == "lock":
        return {F_LOCK: "i:%d" % v}
    if k == "left":
        return {F_LEFT: "i:%d" % v}
    if k == "top":
        return {F_TOP: "i:%d" % v}
    if k == "offset":
        return {F_LEFT: "i:%d" % v[0], F_TOP: "i:%d" % v[1]}
    return {}


def in_domain(op, blends):
    k, v = op[0], op[1]
    if k == "name":
        return len(v) <= 255
    if k == "opacity":
        return 0 <= v <= 255
    if k == "blend":
        return v in blends
    if k == "lock":
        return 0 <= v < (1 << 32)
    if k in ("left", "top"):
        return I32MIN <= v <= I32MAX
    if k == "offset":
        return all(I32MIN <= x <= I32MAX for x in v)
    return True


def well_typed(fields, kind):
    bad = []
    if not fields[F_NAME].startswith("s:"):
        bad.append("name")
    if not fields[F_VIS].startswith("b:"):
        bad.append("visible")
    if not (fields[F_OPA].startswith("i:") and 0 <= int(fields[F_OPA][2:]) <= 255):
        bad.append("opacity")
    if not fields[F_BLEND].startswith("k:"):
        bad.append("blend_mode")
    if not fields[F_CLIP].startswith("b:"):
        bad.append("clipping_layer")
    if not (fields[F_LOCK] == "n" or fields[F_LOCK].startswith("i:")):
        bad.append("locks")
    if kind in MOVABLE:
        for f in (F_LEFT, F_TOP):
            if not fields[f].startswith("i:"):
                bad.append(FIELD_NAME[f])
    return bad


def has_astral(s):
    return any(ord(c) > 0xFFFF for c in s)


def mac_ok(s):
    try:
        return len(s.encode("macroman")) <= 255
    except UnicodeEncodeError:
        return False


def src_label(source):
    if source["t"] == "fix":
        v = source.get("variant", "plain")
        return source["kind"] + ("" if v == "plain" else "-" + v)
    return {"newgroup": "group-new", "frompil": "frompil"}[source["t"]]


def check_property(ctx, case, res, env, blends):
    """Evaluate C16 on the observations of the real objects."""
    source = case["source"]
    kind = res["kind"]
    lab = src_label(source)
    ops = res["ops"]
    prev = res["dump0"].split("|")
    inp = {"source": source, "ops": res["final_ops"]}

    bad0 = well_typed(prev, kind)
    for b in bad0:
        if source["t"] == "newgroup" and b == "blend_mode":
            ctx.fail("C16/group-new/blend-mode-none", "a group created with Group.new reads blend_mode None",
                     inp, prev[F_BLEND], "a BlendMode")
        elif source.get("variant") == "short" and b == "blend_mode":
            ctx.fail("C16/blend_mode/group-short-divider/reads-none",
                     "a group whose divider block stores the kind only reads blend_mode None", inp, prev[F_BLEND], "a BlendMode")
        else:
            ctx.fail(f"C16/{b}/{lab}/getter-ill-typed", f"{b} getter of a {lab} layer returns a value outside its type",
                     inp, prev[ATTR_FIELD.get(b, 0)], "a value of the attribute's type")
    nps = res["np"]
    poss = res["pos"]
    nsaves = sum(1 for o in ops if o[0] == "save")
    for i, (op, (st, d)) in enumerate(zip(ops, res["steps"])):
        cur = d.split("|")
        k = op[0]
        np_prev, np_cur = nps[i], nps[i + 1]
        pos_prev, pos_cur = poss[i].split(";"), poss[i + 1].split(";")
        if k == "save":
            # writing the document is not an edit: every attribute, the record and the position stay as they are
            ctx.hist("oracle_ops", f"save/{lab}/" + st)
            if st != "ok":
                r = prev[F_RECT].split(",")
                if not all(I32MIN <= int(x) <= I32MAX for x in r) and st == "err:struct.error":
                    prev = cur
                    continue
                ctx.fail(f"C16/save/{lab}/mid-history-{st[4:]}", "save in the middle of an edit history raises", inp, st, "saved")
            for f in range(len(cur)):
                if cur[f] != prev[f]:
                    ctx.fail(f"C16/save/{lab}/changes-{FIELD_NAME[f]}", "save() changes an attribute of the layer in memory",
                             inp, cur[f][:120], prev[f][:120])
            if pos_cur != pos_prev:
                ctx.fail(f"C16/save/{lab}/changes-position", "save() changes the position the getters report", inp,
                         poss[i + 1], poss[i])
            prev = cur
            continue
        # position, as the getters of THIS kind give it (the dump has it for the movable kinds only)
        if k in ("left", "top", "offset") and in_domain(op, blends):
            want = {0: op[1]} if k == "left" else {1: op[1]} if k == "top" else {0: op[1][0], 1: op[1][1], 4: tuple(op[1])}
            if st == "ok":
                ctx.hist("oracle_position", f"{k}/{lab}/accepted")
                for j, w in want.items():
                    if pos_cur[j] != repr(w):
                        eff = "accepted-without-effect" if pos_cur[j] == pos_prev[j] else "get-after-set"
                        ctx.fail(f"C16/{k}/{lab}/position-{eff}",
                                 f"{k} = {op[1]} on a {lab} layer is accepted, but the {POS_NAME[j]} getter "
                                 + ("still returns the old value" if eff.startswith("accepted") else "returns another value"),
                                 inp, pos_cur[j], repr(w))
            else:
                ctx.hist("oracle_position", f"{k}/{lab}/refused")
                if pos_cur != pos_prev:
                    ctx.fail(f"C16/{k}/{lab}/position-refused-but-changed", f"a refused {k} edit changed the position getters",
                             inp, poss[i + 1], poss[i])
        elif k not in ("left", "top", "offset", "visible", "attach") and pos_cur != pos_prev:
            # (the box of a group is derived from its VISIBLE children; attach gives fill/shape layers a canvas)
            ctx.fail(f"C16/{k}/{lab}/frame-position", f"setting {k} changes the position the getters report", inp,
                     poss[i + 1], poss[i])
        if k == "attach":
            # attaching is not an attribute edit, but it must not disturb the attributes either
            for f in list(range(F_NAME, F_LOCK + 1)) + [F_PIX]:
                if cur[f] != prev[f]:
                    ctx.fail(f"C16/attach/{lab}/changes-{FIELD_NAME[f]}", "appending the layer to a document changes an attribute",
                             inp, cur[f], prev[f])
            prev = cur
            continue
        valid = in_domain(op, blends)
        settable = not (k in ("left", "top", "offset") and kind not in MOVABLE)
        ctx.hist("oracle_ops", f"{k}/{lab}/" + ("valid" if valid else "out-of-domain") + ("" if settable else "/read-only"))
        if st != "ok":
            if valid and settable:
                ctx.fail(f"C16/{k}/{lab}/raises-{st[4:]}", f"setting {k} on a {lab} layer raises", inp, st, "the edit is applied")
            if cur != prev:
                ch = [FIELD_NAME[j] for j in range(len(cur)) if cur[j] != prev[j]]
                ctx.fail(f"C16/{k}/{lab}/refused-but-changed", f"a refused {k} edit changed {ch}", inp, st, "unchanged layer")
            prev = cur
            continue
        if not valid:
            prev = cur
            continue
        # get-after-set
        exp = expected_field(op)
        for f, want in exp.items():
            if cur[f] != want:
                if k == "lock" and not ("6c737066" in prev[F_BLOCKS]):
                    sig, what = "C16/lock/no-existing-block", "lock() on a layer without a protection block has no effect"
                elif k == "clip" and not res_attached_before(res, ops, op):
                    sig, what = "C16/clipping_layer/no-document/ignored", "clipping_layer set on a layer without a (non-empty) document is ignored"
                elif k == "blend" and source.get("variant") == "lsdk":
                    sig, what = "C16/blend_mode/group-lsdk/get-after-set", "blend mode of a group stored with the nested divider key"
                elif k == "blend" and source.get("variant") == "short":
                    sig, what = "C16/blend_mode/group-short-divider/get-after-set", "blend mode of a group with a kind-only divider block"
                else:
                    sig, what = f"C16/{k}/{lab}/get-after-set", f"{FIELD_NAME[f]} getter does not return the value just set"
                ctx.fail(sig, what, inp, cur[f], want)
        # frame: every other attribute, pixels
        touched = set(exp)
        for f in range(F_NAME, F_LOCK + 1):
            if f in touched:
                continue
            if cur[f] != prev[f]:
                ctx.fail(f"C16/{k}/{lab}/frame-{FIELD_NAME[f]}", f"setting {k} changes {FIELD_NAME[f]}", inp, cur[f], prev[f])
        # a fill layer whose record says right == 0 (bottom == 0) is taken to reach the canvas edge
        rect = cur[F_RECT].split(",")
        fill_edge = kind == "fill" and k in ("left", "top", "offset") and (
            (cur[F_W] != prev[F_W] and rect[3] == "0") or (cur[F_H] != prev[F_H] and rect[2] == "0"))
        if cur[F_PIX] != prev[F_PIX]:
            ctx.fail(f"C16/{k}/{lab}/pixels-changed", f"setting {k} changes the stored channel data", inp, cur[F_PIX], prev[F_PIX])
        for f in (F_W, F_H):
            if cur[f] != prev[f]:
                new_edge = rect[3 if f == F_W else 2]
                if fill_edge and new_edge == "0":
                    ctx.fail("C16/move/fill/far-edge-zero-falls-back-to-canvas",
                             "moving a fill layer so that its right/bottom becomes 0 changes its size", inp, cur[f], prev[f])
                else:
                    ctx.fail(f"C16/{k}/{lab}/size-changed", f"setting {k} changes the {FIELD_NAME[f]}", inp, cur[f], prev[f])
        if np_prev is not None and np_cur is not None and np_prev != np_cur and not fill_edge:
            ctx.fail(f"C16/{k}/{lab}/pixels-changed", f"setting {k} changes layer.numpy()", inp, np_cur, np_prev)
        prev = cur
    # persistence
    last = prev
    r = last[F_RECT].split(",")
    rect_ok = all(I32MIN <= int(x) <= I32MAX for x in r)
    ctx.hist("oracle_save", res["save"] if rect_ok else res["save"] + "/rect-outside-int32")
    if res["save"] != "ok":
        exc = res.get("save_exc", "")
        if not rect_ok and res["save"] == "save-err:struct.error":
            return  # the record stores the rectangle as four int32: documented rejection, modelled
        legacy = "".join(chr(int(x)) for x in last[F_LEGACY].split(",")) if last[F_LEGACY] != "_" else ""
        cur_name = "".join(chr(int(x)) for x in last[F_NAME][2:].split(",")) if last[F_NAME] not in ("s:_",) and last[F_NAME].startswith("s:") else ""
        if res["save"] == "save-err:OverflowError" and (has_astral(cur_name) or env.startswith("ucs2")) and "luni" in blocks_keys(last):
            ctx.fail("C16/name/astral/OverflowError-at-save", "a name above U+FFFF cannot be written (unicode string codec: C19)",
                     inp, res["save"] + " " + exc, "saved")
        elif res["save"] == "save-err:UnicodeError" and not mac_ok(legacy):
            if source["t"] == "frompil" and "luni" not in blocks_keys(last):
                ctx.fail("C16/frompil/name-not-in-unicode-block", "PixelLayer.frompil keeps the name only in the legacy field; save fails",
                         inp, res["save"] + " " + exc, "saved")
            else:
                ctx.fail("C16/name/legacy-field/UnicodeEncodeError-at-save",
                         "the legacy name field holds a name MacRoman cannot express (constructor path; legacy field: C19)",
                         inp, res["save"] + " " + exc, "saved")
        else:
            ctx.fail(f"C16/save/{lab}/{res['save']}", "save or reopen fails after valid attribute edits", inp, res["save"] + " " + exc, "saved")
        return
    ro = res["reopened"].split("|")
    if res.get("kind2") != kind:
        ctx.fail(f"C16/save/{lab}/kind-changed", "layer kind differs after save and reopen", inp, res.get("kind2"), kind)
    edited = {ATTR_FIELD[o[0]] for o in ops if o[0] in ATTR_FIELD} | ({F_LEFT, F_TOP} if any(o[0] == "offset" for o in ops) else set())
    if nps[-2] is not None and nps[-1] is not None and nps[-2] != nps[-1]:
        ctx.fail(f"C16/pixels/{lab}/not-persisted", "layer.numpy() differs after save and reopen", inp, nps[-1], nps[-2])
    for f in list(range(F_NAME, F_LOCK + 1)) + [F_PIX, F_W, F_H]:
        if ro[f] != last[f]:
            a = FIELD_NAME[f]
            if f == F_BLEND and source["t"] == "newgroup" and ro[f] == "n":
                sig = "C16/group-new/blend-mode-lost-on-save"
            elif f == F_BLEND and source.get("variant") == "short":
                sig = "C16/blend_mode/group-short-divider/not-persisted"
            elif nsaves:
                sig = f"C16/{a}/{lab}/not-persisted-after-earlier-save"
            else:
                sig = f"C16/{a}/{lab}/not-persisted"
            ctx.fail(sig, f"{a} reads back differently after save and reopen" + ("" if f in edited else " (not edited)")
                     + (f" (the document had been saved {nsaves}x earlier in the history)" if nsaves else ""),
                     inp, ro[f], last[f])
    # the position as the getters of this kind report it (groups, artboards, shapes included)
    pr = res.get("pos_reopened")
    if pr is not None and pr != poss[-1]:
        a, b = pr.split(";"), poss[-1].split(";")
        j = next((j for j in range(len(a)) if a[j] != b[j]), 0)
        fill_edge_zero = kind == "fill" and ("0" in last[F_RECT].split(",")[2:])
        if not fill_edge_zero:
            ctx.fail(f"C16/position/{lab}/not-persisted" + ("-after-earlier-save" if nsaves else ""),
                     f"the {POS_NAME[j]} getter reads back differently after save and reopen", inp, a[j], b[j])


def blocks_keys(fields):
    out = []
    b = fields[F_BLOCKS]
    if b == "_":
        return out
    for it in b.split(";"):
        out.append(bytes.fromhex(it.split(":")[1]).decode("latin1"))
    return out


def res_attached_before(res, ops, op):
    """was the layer inside a non-empty document when `op` ran?"""
    if res["kind"] and res.get("spec", "").startswith("L|"):
        return True
    for o in ops:
        if o is op:
            return False
        if o[0] == "attach":
            return True
    return False


# ---- the cross-layer frame: several layers, several documents, one process -----------------------
# "An edit leaves unrelated attributes unchanged": unrelated includes every attribute of every OTHER layer -
# of the same document, of another document open in the same process, and of layers created afterwards.
# A scene has >= 2 fixture layers and >= 2 API-created layers (Group.new / PixelLayer.frompil) in document A and
# a second document B with API-created layers (and fixture layers when B is a fixture). After every edit ALL
# dump fields of ALL other layers are compared with their values before the edit, in memory and in the files
# written by save() before / after the edit; two freshly constructed detached layers (probes) stand for
# "layers created later".
MULTI_SCENES_QUICK = [("clipping-mask3.psd", "new"), ("clip-adjustment.psd", "2layers.psd"), ("hidden-groups.psd", "new")]
MULTI_SCENES_MORE = [("16bit5x5.psd", "layers/group.psd"), ("masks3.psd", "new"), ("gradient-sizes.psd", "empty-group.psd"),
                     ("layers-minimal/solid-color-fill.psd", "clipping-mask3.psd"), ("group.psd", "layers/pattern-fill.psb")]


def walk_layers(g):
    for l in g:
        yield l
        if l.is_group():
            yield from walk_layers(l)


def _pil(w, h, mode="RGB", salt=0):
    from PIL import Image
    im = Image.new(mode, (w, h))
    px = im.load()
    for y in range(h):
        for x in range(w):
            v = (x * 37 + y * 11 + salt * 53) % 256
            px[x, y] = (v, 255 - v, (v * 3) % 256) if mode == "RGB" else (v, 255 - v, (v * 3) % 256, 200 - x)
    return im


class Scene:
    """the documents and the flat, stable list of their layers: (document index, label, layer)"""

    def __init__(self, spec):
        from psd_tools import PSDImage
        from psd_tools.api.layers import Group, PixelLayer
        self.spec = spec
        a = open_bytes(fixture_bytes(spec["a"], "plain"))
        b = PSDImage.new("RGB", (16, 12)) if spec["b"] == "new" else open_bytes(fixture_bytes(spec["b"], "plain"))
        self.docs = [a, b]
        self.entries = []
        for di, d in enumerate(self.docs):
            for l in list(walk_layers(d)):
                self.entries.append((di, model_kind(l), l))
        # API-created layers: a group and two pixel layers (one inside the group) in A, a group with a pixel layer
        # and a pixel layer at the root in B - each built by its own constructor call
        g = Group.new("apiG", parent=a)
        p1 = PixelLayer.frompil(_pil(4, 3, salt=1), a, "apiP1", 1, 2)
        a.append(p1)
        p2 = PixelLayer.frompil(_pil(3, 3, "RGBA", salt=2), a, "apiP2", 0, 0)
        g.append(p2)
        g2 = Group.new("apiG2", parent=b)
        q1 = PixelLayer.frompil(_pil(5, 2, salt=3), b, "apiQ1", 2, 1)
        g2.append(q1)
        q2 = PixelLayer.frompil(_pil(2, 2, salt=4), b, "apiQ2", 0, 3)
        b.append(q2)
        for di, lab, l in ((0, "group-new", g), (0, "frompil", p1), (0, "frompil", p2),
                           (1, "group-new", g2), (1, "frompil", q1), (1, "frompil", q2)):
            self.entries.append((di, lab, l))
        self.ncreated = 0

    def create(self, what, di):
        from psd_tools.api.layers import Group, PixelLayer
        d = self.docs[di]
        self.ncreated += 1
        if what == "group":
            l = Group.new("later%d" % self.ncreated, parent=d)
            lab = "group-new"
        else:
            l = PixelLayer.frompil(_pil(3, 2, salt=10 + self.ncreated), d, "later%d" % self.ncreated, 0, 0)
            d.append(l)
            lab = "frompil"
        self.entries.append((di, lab, l))

    def snapshot(self):
        return [dump(l) for _, _, l in self.entries]

    def probes(self):
        """two layers constructed now, detached: what a layer created at this moment looks like"""
        from psd_tools.api.layers import Group, PixelLayer
        out = []
        for lab, f in (("group-new", lambda: Group.new("probe")),
                       ("frompil", lambda: PixelLayer.frompil(_pil(2, 2, salt=9), None, "probe", 0, 0))):
            try:
                out.append((lab, dump(f())))
            except Exception as e:  # noqa
                out.append((lab, "!" + ecls(e)))
        return out

    def reopened(self):
        """dumps of all layers as read from the files save() writes now; None for a document that cannot be
        saved / reopened in its current state (covered by the single-layer persistence oracle)"""
        out = [None] * len(self.entries)
        status = []
        for di, d in enumerate(self.docs):
            try:
                paths = [(i, path_of(l)) for i, (dj, _, l) in enumerate(self.entries) if dj == di]
                q = open_bytes(save_bytes(d))
                for i, pth in paths:
                    out[i] = dump(at_path(q, pth)) if pth is not None else None
                status.append("ok")
            except Exception as e:  # noqa
                status.append("err:" + ecls(e))
        return out, status

    def shared_parts(self):
        """mutable element objects held by more than one layer record (the model's `Owned` invariant says: none)"""
        seen, shared = {}, []
        for i, (_, lab, l) in enumerate(self.entries):
            rec = l._record
            parts = [("record", rec)]
            for name in ("flags", "blending_ranges", "tagged_blocks", "mask_data", "channel_info"):
                v = getattr(rec, name, None)
                if v is not None:
                    parts.append((name, v))
            tb = getattr(rec, "tagged_blocks", None)
            if tb is not None:
                try:
                    for k, blk in tb.items():
                        parts.append(("block", blk))
                        dat = getattr(blk, "data", None)
                        if dat is not None and not isinstance(dat, (int, str, bytes, bool, float)):
                            parts.append(("block-data:" + hx(bytes(getattr(k, "value", k))), dat))
                except Exception:  # noqa
                    pass
            for name, v in parts:
                if id(v) in seen and seen[id(v)][0] != i:
                    shared.append({"part": name, "layers": [seen[id(v)][0], i], "labels": [seen[id(v)][1], lab]})
                else:
                    seen[id(v)] = (i, lab)
        return shared


def multi_apply(scene, op):
    """op = [target index, attribute op...] | ["create", "group"|"pixel", document index] -> (target or None, status)"""
    if op[0] == "create":
        try:
            scene.create(op[1], op[2])
            return None, "ok"
        except Exception as e:  # noqa
            return None, "err:" + ecls(e)
    _, _, layer = scene.entries[op[0]]
    try:
        with warnings.catch_warnings():
            warnings.simplefilter("ignore")
            apply_op(layer, tuple(op[1:]), None)
        return op[0], "ok"
    except Exception as e:  # noqa
        return op[0], "err:" + ecls(e)


def run_multi(spec, ops, files=True):
    """Run a history on a scene; returns (failures, stats). A failure = dict(sig, what, observed, expected, step)."""
    fails, stats = [], {"steps": 0, "compared": 0, "save": {}}
    scene = Scene(spec)
    shared0 = scene.shared_parts()
    prev = scene.snapshot()
    prev_probe = scene.probes()
    prev_re = None
    if files:
        prev_re, st = scene.reopened()
        for x in st:
            stats["save"][x] = stats["save"].get(x, 0) + 1
    for step, op in enumerate(ops):
        n_before = len(scene.entries)
        tgt, st = multi_apply(scene, op)
        stats["steps"] += 1
        cur = scene.snapshot()
        probe = scene.probes()
        if op[0] == "create":
            k, lab = "create", "group-new" if op[1] == "group" else "frompil"
        else:
            k, lab = op[1], scene.entries[tgt][1]
        tdoc = scene.docs[op[2]] if op[0] == "create" else scene.docs[scene.entries[tgt][0]]

        def where(j):
            return "same-document" if scene.docs[scene.entries[j][0]] is tdoc else "other-document"
        for j in range(n_before):
            if j == tgt:
                continue
            stats["compared"] += 1
            if cur[j] != prev[j]:
                a, b = cur[j].split("|"), prev[j].split("|")
                for f in range(min(len(a), len(b))):
                    if a[f] != b[f]:
                        fails.append(dict(
                            sig=f"C16/{k}/{lab}/frame-other-layer/{scene.entries[j][1]}-{FIELD_NAME[f]}",
                            what=f"{'creating a layer' if k == 'create' else 'setting ' + k + ' on a ' + lab + ' layer'} changes "
                                 f"{FIELD_NAME[f]} of another layer ({scene.entries[j][1]}, {where(j)}, layer {j} of the scene) ({st})",
                            observed=a[f][:120], expected=b[f][:120], step=step))
        for (plab, a), (_, b) in zip(probe, prev_probe):
            if a != b:
                fa, fb = a.split("|"), b.split("|")
                f = next((i for i in range(min(len(fa), len(fb))) if fa[i] != fb[i]), 0)
                fails.append(dict(
                    sig=f"C16/{k}/{lab}/frame-later-created/{plab}-{FIELD_NAME[f] if len(fa) > 1 else 'constructor'}",
                    what=f"after {'creating a layer' if k == 'create' else 'setting ' + k + ' on a ' + lab + ' layer'}, a layer "
                         f"constructed with the same arguments as before ({plab}) starts with another {FIELD_NAME[f]}",
                    observed=(fa[f] if len(fa) > 1 else a)[:120], expected=(fb[f] if len(fb) > 1 else b)[:120], step=step))
        if files:
            re, sst = scene.reopened()
            for x in sst:
                stats["save"][x] = stats["save"].get(x, 0) + 1
            if prev_re is not None:
                for j in range(n_before):
                    if j == tgt or re[j] is None or prev_re[j] is None:
                        continue
                    if re[j] != prev_re[j]:
                        a, b = re[j].split("|"), prev_re[j].split("|")
                        for f in range(min(len(a), len(b))):
                            if a[f] != b[f]:
                                fails.append(dict(
                                    sig=f"C16/{k}/{lab}/frame-other-layer-saved/{scene.entries[j][1]}-{FIELD_NAME[f]}",
                                    what=f"{'creating a layer' if k == 'create' else 'setting ' + k + ' on a ' + lab + ' layer'} changes "
                                         f"{FIELD_NAME[f]} of another layer ({scene.entries[j][1]}, {where(j)}, layer {j} of the scene) "
                                         "as read back from the file save() writes",
                                    observed=a[f][:120], expected=b[f][:120], step=step))
            # a document that could not be written now (entries None) gives no baseline for the next step
            prev_re = re
        prev, prev_probe = cur, probe
    stats["shared"] = shared0 + [x for x in scene.shared_parts() if x not in shared0]
    stats["layers"] = [(di, lab) for di, lab, _ in scene.entries]
    return fails, stats


def multi_ops(rng, nlayers, quick):
    """systematic: every layer of the scene x one or two values of every attribute; then seeded edits and creations"""
    ops = []
    vals = [("visible", False), ("visible", True), ("opacity", 77), ("blend", "6d756c20", "member"), ("name", "edited"),
            ("clip", True), ("clip", False), ("lock", 5, None), ("lock", 0, "unlock"), ("left", 3), ("top", -2), ("visible", False)]
    for t in range(nlayers):
        for v in vals:
            ops.append([t] + list(v))
    ops.append(["create", "group", 0])
    ops.append(["create", "pixel", 1])
    blends = blend_pool()
    for _ in range(30 if quick else 200):
        if rng.random() < 0.08:
            ops.append(["create", rng.choice(["group", "pixel"]), rng.randrange(2)])
            nlayers += 1
            continue
        o = rand_op(rng, blends)
        if o[0] in ("left", "top") and abs(o[1]) > (1 << 21):
            o = (o[0], rng.randrange(-500, 500))
        if o[0] == "name" and (len(o[1]) > 40 or not mac_ok(o[1])):
            o = ("name", rng.choice(["", "A", "Layer 1", "café", "x y"]))
        ops.append([rng.randrange(nlayers)] + list(o))
    return ops


def check_multi(ctx, spec, ops):
    try:
        fails, stats = run_multi(spec, ops)
    except core.Infra:
        raise
    ctx.corr_cases += 1
    ctx.count(("multi", json.dumps(spec, sort_keys=True), len(ops)), nontrivial=True)
    for k, v in stats["save"].items():
        for _ in range(v):
            ctx.hist("multi_save", k)
    ctx.extra.setdefault("multi", []).append({"scene": spec, "steps": stats["steps"], "other_layer_comparisons": stats["compared"],
                                              "layers": len(stats["layers"]), "save": stats["save"]})
    for sh in stats["shared"][:5]:
        ctx.disagree("two layer records hold the same mutable element object (the model's Owned invariant, "
                     "Props/C16 edit_frames_other_layers, assumes every record owns its elements)", {"scene": spec, **sh})
    for f in fails:
        if any(g["signature"] == f["sig"] for g in ctx.failures):
            ctx.fail(f["sig"], f["what"], None)
            continue
        # a small input: the creations before the failing step + the failing step alone; else the prefix
        op = ops[f["step"]]
        creates = [o for o in ops[:f["step"]] if o[0] == "create"]
        cands = [creates + [op]]
        if op[0] != "create":
            # the same attribute set to another value first (state shared between layers may already hold the new value)
            other = [o for o in ops[:f["step"]] if o[0] != "create" and o[1] == op[1] and o[2] != op[2]]
            if other:
                cands.append(creates + [[op[0]] + list(other[-1][1:]), op])
        cands.append(creates + [o for o in ops[max(0, f["step"] - 12):f["step"]] if o[0] != "create"] + [op])
        inp_ops = ops[:f["step"] + 1]
        for small in cands:
            try:
                again, _ = run_multi(spec, small, files="-saved/" in f["sig"])
            except Exception:  # noqa
                continue
            if any(g["sig"] == f["sig"] for g in again):
                inp_ops = small
                break
        ctx.fail(f["sig"], f["what"], {"multi": spec, "ops": inp_ops}, f["observed"], f["expected"])
    return stats


# ---- the model side -------------------------------------------------------------------------
def probe_env():
    """Which unicode-string codec and which legacy-field policy does the tree under test have?
    (both belong to C19; C16 is parametric in them)"""
    from psd_tools.utils import write_unicode_string
    from psd_tools.psd.layer_and_mask import LayerRecord
    from psd_tools.constants import Tag
    try:
        write_unicode_string(io.BytesIO(), "\U0001F600")
        codec = "utf16"
    except OverflowError:
        codec = "ucs2"
    r = LayerRecord(name="日")
    r.tagged_blocks.set_data(Tag.UNICODE_LAYER_NAME, "日")
    try:
        r.write(io.BytesIO())
        fb = "1"
    except UnicodeEncodeError:
        fb = "0"
    return codec + "," + fb


def model_request(env, res):
    # the model's save is a pure function of the state: a mid-history ["save"] is no step of the model
    ops = ";".join(op_str(o) for o in res["ops"] if o[0] != "save") or "_"
    return ("attr.run", env, res["spec"], res["blocks"], ops)


def compare(ctx, case, res, ans):
    if ans[0] != "ok":
        ctx.disagree("model refused the request: " + "\t".join(ans)[:120], {"case": case})
        return
    fields = ans[1:]
    mops = [o for o in res["ops"] if o[0] != "save"]
    n = len(mops)
    if len(fields) != n + 2:
        ctx.disagree("model answered %d fields for %d ops" % (len(fields), n), {"case": case})
        return
    real = [res["dump0"]] + [st + "|" + d for o, (st, d) in zip(res["ops"], res["steps"]) if o[0] != "save"]
    real.append(res["save"] + ("|" + res["reopened"] if res["save"] == "ok" else ""))
    for i, (a, b) in enumerate(zip(real, fields)):
        if a != b:
            fa, fb = a.split("|"), b.split("|")
            off = 0 if i == 0 else 1
            diffs = []
            for j in range(max(len(fa), len(fb))):
                x = fa[j] if j < len(fa) else None
                y = fb[j] if j < len(fb) else None
                if x != y:
                    nm = "status" if (off and j == 0) else FIELD_NAME[j - off] if 0 <= j - off < len(FIELD_NAME) else str(j)
                    diffs.append({"field": nm, "impl": (x or "")[:120], "model": (y or "")[:120]})
            where = "initial state" if i == 0 else "after save+reopen" if i == n + 1 else "after op %d (%s)" % (i, op_str(mops[i - 1])[:40])
            ctx.disagree("model != implementation " + where, {"case": _short_case(case), "diffs": diffs[:4]})
            return


def _short_case(case):
    c = json.loads(json.dumps(case))
    for o in c["ops"]:
        if o[0] == "name" and len(o[1]) > 40:
            o[1] = o[1][:8] + "...(%d chars)" % len(o[1])
    return c


# ---- case generation -------------------------------------------------------------------------
def fixture_sources(quick):
    fx = QUICK_FIXTURES + ([] if quick else MORE_FIXTURES)
    out = [{"t": "fix", "file": f, "kind": k} for f, k in fx]
    # synthesised variants of group documents
    for f in ("layers/group.psd",) + (() if quick else ("clipping-mask3.psd", "empty-group.psd")):
        out.append({"t": "fix", "file": f, "kind": "group", "variant": "lsdk"})
        out.append({"t": "fix", "file": f, "kind": "group", "variant": "short"})
    if not quick:
        out.append({"t": "fix", "file": "gradient-sizes.psd", "kind": "artboard", "variant": "lsdk"})
    return out


def api_sources(quick):
    out = [
        {"t": "newgroup", "name": "Group", "open": True, "doc": "new-empty"},
        {"t": "newgroup", "name": "gé", "open": False, "doc": "new-with-layer", "into_group": True},
        {"t": "frompil", "name": "Layer", "w": 4, "h": 3, "top": 0, "left": 0, "doc": "new-empty", "psd_given": True},
        {"t": "frompil", "name": "L2", "w": 5, "h": 2, "top": -3, "left": 7, "doc": "new-with-layer", "psd_given": False},
        {"t": "frompil", "name": "日本", "w": 2, "h": 2, "mode": "RGBA", "doc": "new-with-layer", "psd_given": True},
        {"t": "frompil", "name": "det", "w": 3, "h": 2, "top": 1, "left": 2, "doc": "new-empty", "psd_given": False},
    ]
    if not quick:
        out += [
            {"t": "newgroup", "name": "N", "open": True, "doc": "fix:layers/group.psd", "into_group": True},
            {"t": "frompil", "name": "in fixture", "w": 3, "h": 3, "doc": "fix:layers/pixel-layer.psd", "psd_given": True},
            {"t": "frompil", "name": "gray", "w": 3, "h": 3, "mode": "L", "doc": "new-empty", "psd_given": True},
            {"t": "newgroup", "name": "日本", "open": True, "doc": "new-empty"},
        ]
    return out


def history_pairs(is_group):
    """two values per attribute (both differ from what fixtures and constructors start with, and from each other)"""
    pairs = [
        [("name", "A"), ("name", "né 日")],
        [("visible", False), ("visible", True)],
        [("opacity", 77), ("opacity", 200)],
        [("blend", "6d756c20", "member"), ("blend", "7363726e", "bytes")],
        [("left", 3), ("left", -7)],
        [("top", -2), ("top", 11)],
        [("offset", (5, -6)), ("offset", (2, 9))],
        [("clip", True), ("clip", False)],
        [("lock", 5, None), ("lock", 0, "unlock")],
        [("lock", COMPLETE, "default"), ("lock", 10, None)],
    ]
    if is_group:
        pairs.append([("blend", "70617373", "str"), ("blend", "6c646467", "member")])
    return pairs


def history_cases(sources, quick):
    """Histories with saves BETWEEN the edits, for every attribute on every source: what a writer keeps from an earlier
    save (encoded bytes, memo attributes) must not survive a later edit. S = save, x / y = the two values:
      S y S            save; edit; save; reopen                                   (2 saves)
      x S y S          edit; save; edit again; save; reopen                       (2 saves)
      S x S y S        save; edit; save; edit again; save; reopen                 (3 saves)
    (the closing save + reopen is the one run_real always makes). API-created layers: attached first, and - every
    attribute - edited while DETACHED (Group.new without parent, PixelLayer.frompil(im, None)), then attached and saved."""
    out = []
    S = ["save"]
    for s in sources:
        api = s["t"] != "fix"
        is_group = s.get("kind") in ("group", "artboard") or s["t"] == "newgroup"
        A = [["attach", [0, 0]]]
        for pair in history_pairs(is_group):
            for x, y in ((pair[0], pair[1]), (pair[1], pair[0])):
                x, y = list(x), list(y)
                first = x == list(pair[0])
                if not api:
                    out.append({"source": s, "ops": [S, y], "how": "history-2-saves"})
                    out.append({"source": s, "ops": [x, S, y], "how": "history-2-saves"})
                    if first or not quick:
                        out.append({"source": s, "ops": [S, x, S, y], "how": "history-3-saves"})
                else:
                    out.append({"source": s, "ops": A + [S, y], "how": "history-2-saves"})
                    out.append({"source": s, "ops": [x] + A + [S, y], "how": "history-detached-edit"})
                    out.append({"source": s, "ops": [y] + A + [S], "how": "history-detached-edit"})
                    if first or not quick:
                        out.append({"source": s, "ops": A + [S, x, S, y], "how": "history-3-saves"})
                        out.append({"source": s, "ops": [x, S] + A + [S, y], "how": "history-3-saves"})
    return out


def gen_cases(ctx, blends):
    rng = ctx.rng
    quick = ctx.quick
    cases = []
    # corpus first
    corpus = core.VERIF / "harness" / "corpus" / "C16.json"
    if corpus.exists():
        for c in json.loads(corpus.read_text()):
            cases.append({"source": c["source"], "ops": c["ops"], "how": "corpus"})
    sources = fixture_sources(quick) + api_sources(quick)
    # systematic single edits (API-created: before attaching, and after attaching)
    for s in sources:
        w, h = 4, 3
        if s["t"] == "fix":
            try:
                _, layer, _ = build(s)
                if layer is None:
                    ctx.skipped.append("no %s layer in %s" % (s["kind"], s["file"]))
                    continue
                w = _get(lambda: layer.width)
                h = _get(lambda: layer.height)
            except core.Infra:
                raise
        elif s["t"] == "frompil":
            w, h = s["w"], s["h"]
        singles = single_ops(rng, w, h, quick)
        if quick and s["t"] == "fix" and s.get("variant", "plain") == "plain" and s["kind"] not in ("group",):
            # quick tier: thin the big pools on the fixture kinds that share the plain Layer accessors
            keep = []
            for i, o in enumerate(singles):
                if o[0] in ("name", "blend", "lock") and (i + len(s["file"])) % 3 != 0:
                    continue
                keep.append(o)
            singles = keep
        for o in singles:
            if s["t"] == "fix":
                cases.append({"source": s, "ops": [list(o)], "how": "single"})
            else:
                cases.append({"source": s, "ops": [list(o), ["attach", [0, 0]]], "how": "single-before-attach"})
                if not quick or o[0] in ("clip", "blend", "lock", "left"):
                    cases.append({"source": s, "ops": [["attach", [0, 0]], list(o)], "how": "single-after-attach"})
    # histories with 1-3 saves between the edits, every attribute, every source
    cases += history_cases(sources, quick)
    # random sequences
    maxlen = 3 if quick else 6
    nseq = 40 if quick else 400
    for s in sources:
        for _ in range(nseq if s["t"] != "fix" or s.get("variant") else max(10, nseq // 2)):
            n = rng.randrange(2, maxlen + 1)
            ops = [list(rand_op(rng, blends)) for _ in range(n)]
            if s["t"] != "fix":
                ops.insert(rng.randrange(0, len(ops) + 1), ["attach", [0, 0]])
            for _ in range(rng.choice([0, 0, 1, 2])):
                ops.insert(rng.randrange(0, len(ops) + 1), ["save"])
            cases.append({"source": s, "ops": ops, "how": "sequence"})
    return cases


# ---- the check -------------------------------------------------------------------------------
def run(ctx: core.Run):
    gen = ctx.regenerate(extract_c16.gen_attr)
    gen_table = ctx.regenerate(extract_c16.gen_attr_table)
    ctx.prove(["PsdVerif.Props.C16"])
    ctx.trusted_base += [
        "Lean 4.33 kernel; axioms allowed: propext, Classical.choice, Quot.sound (audited per theorem)",
        "Model/Attr.lean is a hand transliteration of the accessors in api/layers.py, TaggedBlocks.get_data/set_data, "
        "SectionDividerSetting/ProtectedSetting/LayerFlags/LayerRecord field encodings; tied by this run's correspondence check",
        "harness/extract_c16.py: BlendMode table, tag keys, enum values and the MacRoman table regenerated from the live modules",
        "harness/extract_c16.py part 2 (symbolic evaluator over the AST of api/*.py, classes enumerated by reflection, setters "
        "resolved through the live MRO): Generated/AttrTable.lean says what each getter reads and each setter does; the machine "
        "of Model/AttrTable.lean (values as naturals per location, opaque tests and non-argument values adversarial) is the "
        "semantics the table theorems are about; what the evaluator does not understand is `.other`, which tableOk rejects",
        "the byte layout around the modelled fields (lengths, padding, channel data, other blocks) is not part of this model (C01/C03)",
        "Model/Attr.lean `Doc`: several layers whose LayerFlags objects are addressed (object identity); its hypothesis `Owned` "
        "(every record owns its elements) is tied to the source by the regenerated table of attrs defaults of psd/layer_and_mask.py "
        "(theorem record_defaults_owned) and checked by identity (`is`) on every scene of the cross-layer search",
    ]
    ctx.assumptions += [
        "unicode-string codec (luni payload) and MacRoman codec are parameters of the model with the round-trip law as hypothesis "
        "(C19 owns them); the driver runs the instance the tree under test exhibits (probed on every run)",
        "persistence of names is checked with the default save encoding (macroman) only",
        "kind, pixel data and document size of a reopened layer come from parts of the file this model does not contain",
    ]
    blends = blend_pool()
    env = probe_env()
    ctx.extra["env_probe"] = env
    ctx.extra["generated_constants"] = gen
    ctx.extra["accessor_table"] = gen_table

    cases = gen_cases(ctx, blends)
    results = []
    for case in cases:
        try:
            res = run_real(case)
        except core.Infra:
            raise
        results.append(res)
    drv = ctx.driver()
    answers = drv.batch([model_request(env, r) for r in results])
    for case, res, ans in zip(cases, results, answers):
        ctx.corr_cases += 1
        key = (json.dumps(case["source"], sort_keys=True), json.dumps(res["final_ops"]))
        ctx.count(key, nontrivial=True)
        lab = src_label(case["source"])
        ctx.hist("source", lab)
        ctx.hist("kind", res["kind"])
        ctx.hist("how", case["how"])
        ctx.hist("seq_len", len([o for o in res["ops"] if o[0] != "attach"]))
        for o, (st, _) in zip(res["ops"], res["steps"]):
            ctx.hist("op_status", f"{o[0]}:{st}")
        ctx.hist("save_status", res["save"])
        compare(ctx, case, res, ans)
        check_property(ctx, case, res, env, blends)
    # the cross-layer frame: several layers and documents in this one process
    scenes = MULTI_SCENES_QUICK + ([] if ctx.quick else MULTI_SCENES_MORE)
    for a, b in scenes:
        spec = {"a": a, "b": b}
        n = len(Scene(spec).entries)
        ctx.hist("how", "multi-layer-scene")
        check_multi(ctx, spec, multi_ops(ctx.rng, n, ctx.quick))
    if results:
        r = results[len(results) // 2]
        ctx.sample({"source": cases[len(results) // 2]["source"], "ops": [op_str(o)[:60] for o in r["ops"]],
                    "after": r["steps"][-1][1][:160] if r["steps"] else None, "save": r["save"]})
    ctx.rule = (
        "case = (layer source, edit sequence). Sources: one fixture layer per kind (pixel, group, artboard, type, shape, "
        "smart object, solid/gradient/pattern fill incl. PSB and 16-bit, adjustment) + group documents re-keyed to lsdk and "
        "with 4-byte divider blocks + Group.new / PixelLayer.frompil in PSDImage.new documents (empty, non-empty, nested, "
        "fixture). Edits: every attribute x its pool (22 names incl. astral/combining/255 chars, all BlendMode members in "
        "three argument forms, 20 lock values incl. all 16 flag combinations and COMPLETE, opacity extremes, offsets incl. "
        "negative, int32 bounds and the right-edge overflow point) as single edits, before and after attaching for "
        "API-created layers, plus seeded sequences of length <= %d. Distinct = distinct (source, op list). "
        "Cross-layer frame: scenes of two documents in one process (a fixture with >= 2 layers + 3 API-created layers; a new "
        "document or a second fixture + 3 API-created layers); every layer x 12 attribute values, layer creations and seeded "
        "edits; after every step ALL dump fields of ALL other layers (both documents), two freshly constructed probe layers and "
        "the same layers read back from the files save() writes are compared with their values before the step."
        % (3 if ctx.quick else 6)
    )
    ctx.model_coverage = {
        "modelled": ["name", "visible", "opacity", "blend_mode (layer and group path)", "left", "top", "offset", "clipping_layer",
                     "lock/unlock/locks", "TaggedBlocks.get_data/set_data", "Group.new", "PixelLayer.frompil", "append (sets _psd)",
                     "LayerRecord/LayerFlags/SectionDividerSetting/ProtectedSetting field encodings"],
        "modelled_across_layers": ["Doc.view / Doc.edit / Doc.newLayer (flags object per record, by address)",
                                   "edit_frames_other_layers, history_frames_other_layers, new_layer_owned, edit_owned; "
                                   "shared_default_breaks_frame (why Owned is needed)"],
        "opaque": ["all other tagged blocks", "channel data", "bounding box of groups/artboards/shapes (position getters of these "
                   "kinds are 'derived' in the model and are not compared)"],
    }
    ctx.notes += [
        "position (left/top/offset) is writable only for pixel, type, smart object, fill and adjustment layers; Group has a "
        "read-only property (AttributeError), Artboard and ShapeLayer raise NotImplementedError: counted as refusals "
        "(histogram oracle_ops .../read-only), not as violations",
        "a move whose right/bottom leaves int32 is accepted in memory and rejected by save with struct.error (modelled; "
        "theorems save_rejects_rect_overflow, move_left_overflow_rejected)",
        "get_set/history_get assume WF: a group layer carries a section divider block (true of every group PSDImage._init or "
        "Group.new builds; no setter removes a block: wf_set)",
        "persists assumes Saveable (every field in its on-disk range, as the reader produces) and storable (the unicode codec "
        "takes the name; the moved rectangle stays in int32); name_storable/uni_roundtrip discharge the codec part for both "
        "codec instances of the model (one unit per character: BMP only; UTF-16: all scalar values)",
        "moving keeps the size: full for every kind but fill; for fill layers move_*_partial has the exact side condition "
        "(far edge != 0), fill_move_far_edge_zero/fill_move_changes_width show it is needed; known finding replayed from the corpus",
        "names: Group.new copies a non-MacRoman name into the legacy field and save fails (legacy field: C19, repaired on its "
        "branch); names above U+FFFF fail at save with the one-unit-per-character codec (C19, repaired on its branch). Both are "
        "listed as known findings with their own signatures and disappear when those repairs are merged; the model follows the "
        "tree through the probed Env (env_probe in this evidence)",
        "cross-layer frame: the oracle compares every dump field (getters, record fields, blocks, stored channel data) of every "
        "other layer of both documents of a scene before/after each step, two probe layers constructed before/after the step "
        "(layers created later), and the same layers read back from the files save() writes before/after the step; a failing "
        "history is cut down to the failing step (+ the creations before it, + the same attribute set to another value first)",
        "accessor table: 54 rows (11 attributes incl. lock/unlock and the two components of offset x 5 representative classes "
        "for the 28 layer classes); table_get_set / table_frame / table_persists hold for any table passing tableOk, "
        "current_tree_attr_table_ok by decide; the table says WHERE a value is written, not how it is converted or validated - "
        "value domains, codecs and the byte form stay with Model/Attr.lean and the correspondence; the getter's fallback "
        "locations (legacy name field, record blend mode of a group without divider block) are outside table_get_set (hypothesis: "
        "the first location exists afterwards)",
        "search histories: save; edit; save - edit; save; edit; save - save; edit; save; edit; save for every attribute on every "
        "source, edits on DETACHED API-created layers (Group.new without parent, PixelLayer.frompil(im, None)) followed by attach + "
        "saves, seeded sequences with saves sprinkled in; position getters (left, top, right, bottom, offset, size, bbox) observed "
        "for EVERY kind: a position edit is refused or the getters show it (never accepted without effect), and they read back "
        "the same after save + reopen",
        "stated in DESIGN, not proved: nothing; 'persists via C01 + C08' is replaced by a self-contained save/reopen of the "
        "record fields and the three attribute blocks (Stored), byte framing left to C01/C03",
    ]
    if ctx.tier == "thorough":
        ctx.recheck(["PsdVerif.Props.C16"])


def replay(ctx, data):
    inp = data.get("input") or {}
    print("replaying", data.get("signature"))
    if not inp:
        print("no input recorded (broken obligation):", json.dumps(data.get("observed"), indent=1)[:2000])
        return 0
    if "multi" in inp:
        fails, stats = run_multi(inp["multi"], inp["ops"])
        print("scene:", inp["multi"], "layers:", stats["layers"])
        print("ops:", inp["ops"][-3:], "(%d in all)" % len(inp["ops"]))
        for f in fails:
            print("observed:", f["sig"], "-", f["what"], "| observed", f["observed"], "| expected", f["expected"])
        if not fails:
            print("no failure reproduced on this tree")
        if stats["shared"]:
            print("records sharing an element object:", stats["shared"][:4])
        print("expected:", data.get("expected"))
        return 0
    case = {"source": inp["source"], "ops": inp["ops"]}
    res = run_real(case)
    print("kind:", res["kind"])
    print("initial:", res["dump0"])
    print("   position (left;top;right;bottom;offset;size;bbox):", res["pos"][0])
    for o, (st, d), ps in zip(res["ops"], res["steps"], res["pos"][1:]):
        print(op_str(o)[:80], "->", st, d)
        print("   position:", ps)
    print("save:", res["save"], res.get("save_exc", ""))
    if "reopened" in res:
        print("reopened:", res["reopened"])
        print("   position:", res.get("pos_reopened"))
    print("expected:", data.get("expected"))
    return 0
