"""C15 - clipping relationships are resolved correctly and kept current.

Part 1 (proved + correspondence): `_compute_clipping_layers` = the per-layer specification.
Part 2 (proved over a state model + a regenerated table of the public mutators; searched on the real code):
the relation stored on the layers (`_clip_layers` / `_has_clip_target`) is the specification evaluated on the
*current* tree after every structural edit, flag change, blend-mode change and compatibility-mode change.
Part 3 (correspondence): every public call of the edit histories on the real code and on the state model
(`clipst.hist`, driven by the regenerated table), comparing the private attributes after every call.
"""
from __future__ import annotations

import itertools
import json

import core
import docbuild as db
import clip_pixels as cp
import extract_c15
import extract_c15_comp
from core import err_class

MODES = ["PHOTOSHOP", "PAINT_TOOL_SAI", "CLIP_STUDIO_PAINT", "GIMP", "KRITA"]
RESTRICTIVE = {"PAINT_TOOL_SAI", "CLIP_STUDIO_PAINT"}


# ---- nested descriptions with flags -------------------------------------------------------------
# node = (clip: bool, pt: bool, kids: list | None)     kids None = not a group
# how the pass-through state of a group is REPRESENTED in its records (the library knows all of these):
#   position        the divider key variant is a function of the position (the historical default of this harness)
#   divider         record says NORMAL, section divider says PASS_THROUGH      (what psd-tools writes; Group.new)
#   record+divider  record says PASS_THROUGH and so does the divider          (what Photoshop writes)
#   nested          no section divider, nested divider + record PASS_THROUGH
#   both            both dividers, record NORMAL
# and, built differently (see `build_world`): api (Group.new + setters), api-set (opened as NORMAL groups, switched
# to pass-through through the setter); every one of them optionally "+reopened" (saved by psd-tools, opened again).
RECORD_REPS = ["divider", "record+divider", "nested", "both"]
REPS = ["position"] + RECORD_REPS + ["api", "api-set"]
ALL_REPS = REPS + [r + "+reopened" for r in REPS]


def to_nested(nodes, depth=0, rep="position"):
    """-> docbuild.nested description; with rep="position" the divider key variant of a group is a function of its
    position, else the representation named by `rep` is used for every group."""
    out = []
    for k, (clip, pt, kids) in enumerate(nodes):
        blend = "PASS_THROUGH" if pt else "NORMAL"
        if kids is None:
            out.append({"clip": clip, "blend": blend})
        else:
            d = {"g": to_nested(kids, depth + 1, rep), "clip": clip, "blend": blend}
            if rep == "position":
                d["via"] = ("sds", "both", "nsds")[(k + depth) % 3]
            elif rep == "divider":
                d["via"] = "sds"
            elif rep == "record+divider":
                d["via"] = "sds"
                d["rec_blend"] = blend
            elif rep == "nested":
                d["via"] = "nsds"
            elif rep == "both":
                d["via"] = "both"
            else:
                raise ValueError(rep)
            out.append(d)
    return out


def tree_token(nodes) -> str:
    """Argument of the driver's clip.doc."""
    out = []
    for clip, pt, kids in nodes:
        d = str(int(clip) + 4 * int(pt))
        out.append(d if kids is None else d + "[" + tree_token(kids) + "]")
    return " ".join(out)


def flags_token(nodes) -> str:
    return "".join(str(int(c) + 2 * int(k is not None) + 4 * int(p)) for c, p, k in nodes) or "-"


# ---- the specification, written independently (per layer, looking up and down the list) ----------
def spec_level(children, mode):
    """children: list of (clipping, is_group, pass_through) bottom first -> list of (clip positions, has_target)."""
    n = len(children)

    def eligible(i):
        clip, grp, pt = children[i]
        return (not clip) and not (mode in RESTRICTIVE and grp and pt)   # "a pass-through GROUP cannot be a base"

    out = []
    for i in range(n):
        run = []
        if eligible(i):
            j = i + 1
            while j < n and children[j][0]:
                run.append(j)
                j += 1
        target = True
        if children[i][0]:
            j = i - 1
            while j >= 0 and children[j][0]:
                j -= 1
            target = j >= 0 and eligible(j)
        out.append((run, target))
    return out


def real_flags(layer):
    from psd_tools.constants import BlendMode
    return (bool(layer.clipping_layer), bool(layer.is_group()), layer.blend_mode == BlendMode.PASS_THROUGH)


def expected_relation(img):
    """id(layer) -> (list of clip layer objects, has_target), from the CURRENT tree with spec_level."""
    mode = img.compatibility_mode.name
    exp = {}

    def rec(group):
        kids = list(group._layers)
        res = spec_level([real_flags(l) for l in kids], mode)
        for l, (run, tgt) in zip(kids, res):
            exp[id(l)] = ([kids[j] for j in run], tgt)
            if hasattr(l, "_layers"):
                rec(l)
    rec(img)
    return exp


def observed_relation(img):
    return {id(l): (list(l.clip_layers), bool(l._has_clip_target)) for l in db.walk(img)}


def compare_relation(img):
    """None when `clip_layers`/`_has_clip_target` agree with the spec on the current tree, else a description."""
    # FIRST, and before any public accessor is touched, the private flag exactly as `Compositor.apply` reads it
    # (`layer.clipping_layer and layer._has_clip_target`): a lazily refreshed relation must be fresh for the
    # compositor too, not only for whoever asks `clip_layers` first.
    gate = {id(l): bool(l._has_clip_target) for l in db.walk(img)}
    exp = expected_relation(img)
    order = {id(l): k for k, l in enumerate(db.walk(img))}
    for l in db.walk(img):
        e_run, e_t = exp[id(l)]
        if l.clipping_layer and e_t != gate[id(l)]:
            return {"layer": order[id(l)], "what": "has_clip_target (as the compositor reads it, before clip_layers is touched)",
                    "observed": gate[id(l)], "expected": e_t}
    for l in db.walk(img):
        e_run, e_t = exp[id(l)]
        o_run, o_t = list(l.clip_layers), bool(l._has_clip_target)
        if len(e_run) != len(o_run) or any(a is not b for a, b in zip(e_run, o_run)):
            return {"layer": order[id(l)], "what": "clip_layers", "observed": [order.get(id(x), -1) for x in o_run],
                    "expected": [order[id(x)] for x in e_run]}
        if l.clipping_layer and e_t != o_t:
            return {"layer": order[id(l)], "what": "has_clip_target", "observed": o_t, "expected": e_t}
        if l.has_clip_layers() != (len(e_run) > 0):
            return {"layer": order[id(l)], "what": "has_clip_layers", "observed": l.has_clip_layers(), "expected": len(e_run) > 0}
    return None


def entries_of(img) -> str:
    """The real relation in the format of clip.doc (ids = pre-order positions)."""
    order = {id(l): k for k, l in enumerate(db.walk(img))}
    out = []
    for l in db.walk(img):
        out.append("%d:%s:%s" % (order[id(l)], "t" if l._has_clip_target else "f",
                                 ",".join(str(order.get(id(x), -1)) for x in l.clip_layers)))
    return " ".join(out) or "-"


def set_mode(img, name):
    from psd_tools.constants import CompatibilityMode
    img.compatibility_mode = CompatibilityMode[name]


# ---- generators -----------------------------------------------------------------------------------
INNER = [[], [(True, False, None)], [(False, False, None), (True, False, None)],
         [(True, False, None), (False, False, None), (True, False, None), (True, False, None)]]
LEAF_OPTS = [(False, False, False), (True, False, False)]                       # (clip, group, pt)
GROUP_OPTS = [(False, True, False), (True, True, False), (False, True, True), (True, True, True)]
LEAF_PT_OPTS = [(False, False, True), (True, False, True)]                      # not produced by Photoshop


def child_lists(n, opts):
    return itertools.product(opts, repeat=n)


def nodes_of(flags, k0=0):
    out = []
    for k, (clip, grp, pt) in enumerate(flags):
        out.append((clip, pt, [tuple(x) for x in INNER[(k0 + k) % len(INNER)]] if grp else None))
    return out


def random_nodes(rng, depth, budget, leaf_pt=False):
    out = []
    for _ in range(rng.randrange(0, 7)):
        if budget[0] <= 0:
            break
        budget[0] -= 1
        clip = rng.random() < 0.5
        if depth > 0 and rng.random() < 0.35:
            out.append((clip, rng.random() < 0.5, random_nodes(rng, depth - 1, budget, leaf_pt)))
        else:
            out.append((clip, leaf_pt and rng.random() < 0.15, None))
    return out


# ---- edit operations for the "kept current" half ---------------------------------------------------
# name of an operation of the harness -> the public mutators it calls (rows of Generated/ClipCurrent.lean)
OPS = ["move_up", "move_down", "append", "remove", "insert", "pop", "delitem", "setitem", "extend", "clear",
       "move_to_group", "delete_layer", "group_new", "group_layers", "set_clipping", "set_compat", "set_blend",
       "set_blend_layer", "setslice", "delslice", "move_out_group", "move_out_doc", "group_layers_out", "move_in",
       "adopt_foreign"]


class World:
    """The observed document plus what lies outside it: a second document and detached groups (destinations of
    moves that leave the document, sources of layers that come in carrying stale attributes)."""

    def __init__(self, img):
        self.img = img
        self.other = None          # a second PSDImage, made on demand
        self.detached = []         # Group objects that belong to no document
        self.trace = None          # callable(row name) -> None: called after every public mutator call

    def called(self, row):
        if self.trace is not None:
            self.trace(row)

    def second(self):
        if self.other is None:
            self.other, _, _ = db.make_image(db.nested(to_nested(
                [(False, False, None), (True, False, None), (False, True, [(True, False, None), (False, False, None), (True, False, None)])])))
        return self.other

    def outside_layers(self):
        out = []
        if self.other is not None:
            out += list(db.walk(self.other))
        for g in self.detached:
            out += list(db.walk(g))
        return out


def apply_op(w, op, rng):
    """Apply one edit to the real document (arguments drawn from rng); returns a JSON-able description."""
    from psd_tools.api.layers import Group
    from psd_tools.constants import BlendMode
    img = w.img
    layers = list(db.walk(img))
    groups = [img] + [l for l in layers if hasattr(l, "_layers")]
    order = {id(l): k for k, l in enumerate(layers)}
    order[id(img)] = -1
    if op in ("move_up", "move_down"):
        if not layers:
            return None
        l = rng.choice(layers)
        k = rng.randrange(1, 3)
        try:
            getattr(l, op)(k)
        finally:
            w.called("Layer." + op)
        return {"op": op, "layer": order[id(l)], "offset": k}
    if op in ("append", "insert", "move_to_group"):
        if not layers:
            return None
        l = rng.choice(layers)
        desc = set(id(x) for x in db.walk(l)) if hasattr(l, "_layers") else set()
        cands = [g for g in groups if g is not l and id(g) not in desc]
        g = rng.choice(cands)
        if op == "move_to_group":
            try:
                l.move_to_group(g)
            finally:
                w.called("Layer.move_to_group")
            return {"op": op, "layer": order[id(l)], "group": order[id(g)]}
        try:
            l._parent.remove(l)             # detach first (the guard of C09: arguments are detached layers)
        finally:
            w.called("GroupMixin.remove")
        if op == "append":
            try:
                g.append(l)
            finally:
                w.called("GroupMixin.append")
            return {"op": op, "layer": order[id(l)], "group": order[id(g)]}
        i = rng.randrange(0, len(g) + 1)
        try:
            g.insert(i, l)
        finally:
            w.called("GroupMixin.insert")
        return {"op": op, "layer": order[id(l)], "group": order[id(g)], "index": i}
    if op in ("remove", "delete_layer", "pop", "delitem", "setitem"):
        cands = [g for g in groups if len(g) > 0]
        if not cands:
            return None
        g = rng.choice(cands)
        i = rng.randrange(len(g))
        l = g[i]
        try:
            if op == "remove":
                g.remove(l)
            elif op == "delete_layer":
                l.delete_layer()
            elif op == "pop":
                g.pop(i)
            elif op == "delitem":
                del g[i]
            else:
                new, _, _ = db.make_image([{"t": "leaf", "clip": rng.random() < 0.5}])
                x = new[0]
                new.remove(x)
                g[i] = x
        finally:
            w.called({"remove": "GroupMixin.remove", "delete_layer": "Layer.delete_layer", "pop": "GroupMixin.pop",
                      "delitem": "GroupMixin.__delitem__", "setitem": "GroupMixin.__setitem__"}[op])
        return {"op": op, "group": order[id(g)], "index": i}
    if op in ("setslice", "delslice"):
        g = rng.choice(groups)
        i = rng.randrange(0, len(g) + 1)
        j = rng.randrange(i, len(g) + 1)
        try:
            if op == "delslice":
                del g[i:j]
            else:
                new, _, _ = db.make_image([{"t": "leaf", "clip": rng.random() < 0.5}, {"t": "leaf", "clip": rng.random() < 0.5}])
                xs = list(new)
                for x in xs:
                    new.remove(x)
                g[i:j] = xs
        finally:
            w.called("GroupMixin.__delitem__" if op == "delslice" else "GroupMixin.__setitem__")
        return {"op": op, "group": order[id(g)], "slice": [i, j]}
    if op == "extend":
        g = rng.choice(groups)
        new, _, _ = db.make_image([{"t": "leaf", "clip": True}, {"t": "leaf", "clip": False}, {"t": "leaf", "clip": True}])
        xs = list(new)
        for x in xs:
            new.remove(x)
        try:
            g.extend(xs)
        finally:
            w.called("GroupMixin.extend")
        return {"op": op, "group": order[id(g)]}
    if op == "clear":
        cands = [g for g in groups if g is not img and len(g) > 0]
        if not cands:
            return None
        g = rng.choice(cands)
        try:
            g.clear()
        finally:
            w.called("GroupMixin.clear")
        return {"op": op, "group": order[id(g)]}
    if op == "group_new":
        g = rng.choice(groups)
        try:
            Group.new("new", parent=g)
        finally:
            w.called("Group.new")
        return {"op": op, "group": order[id(g)]}
    if op == "group_layers":
        cands = [g for g in groups if len(g) >= 2]
        if not cands:
            return None
        g = rng.choice(cands)
        i = rng.randrange(0, len(g) - 1)
        try:
            Group.group_layers([g[i], g[i + 1]], parent=g)
        finally:
            w.called("Group.group_layers")
        return {"op": op, "group": order[id(g)], "index": i}
    if op == "set_clipping":
        if not layers:
            return None
        l = rng.choice(layers)
        v = not l.clipping_layer
        try:
            l.clipping_layer = v
        finally:
            w.called("Layer.clipping_layer.setter")
        return {"op": op, "layer": order[id(l)], "value": v}
    if op == "set_blend" or op.startswith("blend@"):
        gs = [g for g in groups if g is not img]
        if not gs:
            return None
        if op.startswith("blend@"):
            # deterministic form: blend@<k>=<NAME> - the k-th group in pre-order (modulo their number)
            k_, name_ = op[len("blend@"):].split("=")
            g = gs[int(k_) % len(gs)]
            v = BlendMode[name_]
            op = "set_blend"
        else:
            g = rng.choice(gs)
            others = [m for m in BlendMode if m != BlendMode.PASS_THROUGH]
            if g.blend_mode == BlendMode.PASS_THROUGH:
                v = rng.choice(others)
            else:
                v = BlendMode.PASS_THROUGH if rng.random() < 0.6 else rng.choice(others)
        try:
            g.blend_mode = v
        finally:
            w.called("Group.blend_mode.setter")
        return {"op": op, "layer": order[id(g)], "value": v.name}
    if op == "set_blend_layer":
        ls = [l for l in layers if not hasattr(l, "_layers")]
        if not ls:
            return None
        l = rng.choice(ls)
        v = BlendMode.MULTIPLY if l.blend_mode == BlendMode.PASS_THROUGH else \
            rng.choice([BlendMode.PASS_THROUGH, BlendMode.PASS_THROUGH, BlendMode.SCREEN])
        try:
            l.blend_mode = v
        finally:
            w.called("Layer.blend_mode.setter")
        return {"op": op, "layer": order[id(l)], "value": v.name}
    if op.startswith("set_compat"):
        m = op.split("=")[1] if "=" in op else rng.choice(MODES)
        op = "set_compat"
        try:
            set_mode(img, m)
        finally:
            w.called("PSDImage.compatibility_mode.setter")
        return {"op": op, "mode": m}
    # ---- membership changes that cross the border of the document ------------------------------------
    if op in ("move_out_group", "move_out_doc"):
        if not layers:
            return None
        l = rng.choice(layers)
        if op == "move_out_group":
            if not w.detached or rng.random() < 0.5:
                w.detached.append(Group.new("detached"))             # no parent: belongs to no document
            dest = rng.choice(w.detached)
        else:
            other = w.second()
            dest = rng.choice([other] + [x for x in db.walk(other) if hasattr(x, "_layers")])
        try:
            l.move_to_group(dest)
        finally:
            w.called("Layer.move_to_group")
        return {"op": op, "layer": order[id(l)]}
    if op == "group_layers_out":
        cands = [g for g in groups if len(g) >= 1]
        if not cands:
            return None
        g = rng.choice(cands)
        i = rng.randrange(0, len(g))
        xs = [g[i]] + ([g[i + 1]] if i + 1 < len(g) and rng.random() < 0.5 else [])
        try:
            Group.group_layers(xs, parent=w.second())
        finally:
            w.called("Group.group_layers")
        return {"op": op, "group": order[id(g)], "index": i, "count": len(xs)}
    if op in ("move_in", "adopt_foreign"):
        if op == "adopt_foreign":
            w.second()
        pool = [x for x in w.outside_layers()]
        if not pool:
            return None
        x = rng.choice(pool)
        g = rng.choice(groups)
        try:
            x.move_to_group(g)
        finally:
            w.called("Layer.move_to_group")
        return {"op": op, "group": order[id(g)]}
    raise ValueError(op)


def describe(img):
    """The current arrangement as nodes (clip, pass-through, kids) read off the real objects."""
    from psd_tools.constants import BlendMode

    def rec(group):
        return [(bool(l.clipping_layer), l.blend_mode == BlendMode.PASS_THROUGH, rec(l) if hasattr(l, "_layers") else None)
                for l in group._layers]
    return rec(img)


def private_relation(img):
    """Per layer in pre-order: (`_has_clip_target`, positions of `_clip_layers`), the private attributes only."""
    ls = list(db.walk(img))
    pos = {id(l): k for k, l in enumerate(ls)}
    return [(bool(l._has_clip_target), [pos.get(id(x), -1) for x in l._clip_layers]) for l in ls]


def compare_fresh(img, priv):
    """`holds on open and after any change`: the relation the objects carry now (`priv`, read before anything
    else) is the relation of the same arrangement freshly opened."""
    nodes = describe(img)
    fresh, _, _ = db.make_image(db.nested(to_nested(nodes)))
    set_mode(fresh, img.compatibility_mode.name)
    want = private_relation(fresh)
    if len(want) != len(priv):
        return {"what": "layer count", "observed": len(priv), "expected": len(want)}
    for k, (o, e) in enumerate(zip(priv, want)):
        if o[1] != e[1]:
            return {"layer": k, "what": "clip_layers (vs the same arrangement freshly opened)", "observed": o[1], "expected": e[1]}
        if o[0] != e[0]:
            return {"layer": k, "what": "has_clip_target (vs the same arrangement freshly opened)", "observed": o[0], "expected": e[0]}
    return None


def has_leaf_pt(nodes):
    return any(pt and kids is None for _, pt, kids in _flatten(nodes))


class Tracer:
    """Snapshots for the model: after every public mutator call the stored relation (private attributes first),
    then the inputs (mode, tree with object identities)."""

    def __init__(self, img):
        self.img = img
        self.ids = {}
        self.keep = []           # keeps the objects alive so that id() stays unique
        self.steps = []          # (row, mode index, tree token, state string)

    def oid(self, l):
        if id(l) not in self.ids:
            self.ids[id(l)] = len(self.ids)
            self.keep.append(l)
        return self.ids[id(l)]

    def state(self):
        out = []
        for l in db.walk(self.img):
            tgt, clip = l._has_clip_target, list(l._clip_layers)
            out.append((self.oid(l), "%d:%s:%s" % (self.oid(l), "t" if tgt else "f", ",".join(str(self.oid(x)) for x in clip))))
        return " ".join(x for _, x in sorted(out)) or "-"

    def tree(self):
        from psd_tools.constants import BlendMode

        def rec(group):
            toks = []
            for l in group._layers:
                d = int(bool(l.clipping_layer)) + 4 * int(l.blend_mode == BlendMode.PASS_THROUGH)
                t = "%d:%d" % (self.oid(l), d)
                if hasattr(l, "_layers"):
                    t += "[" + rec(l) + "]"
                toks.append(t)
            return " ".join(toks)
        return rec(self.img) or "-"

    def __call__(self, row):
        st = self.state()                                  # private attributes before any public accessor
        self.steps.append((row, MODES.index(self.img.compatibility_mode.name), self.tree(), st))


def build_world(nodes, rep="position"):
    """The document of an edit history, with the pass-through state of its groups represented as `rep` says."""
    import io
    from PIL import Image
    from psd_tools import PSDImage
    from psd_tools.api.layers import Group, PixelLayer
    from psd_tools.constants import BlendMode
    again = rep.endswith("+reopened")
    base = rep[:-len("+reopened")] if again else rep
    if base == "api":
        # everything through the public API: Group.new (pass-through by construction), the blend-mode and the
        # clipping setters
        img = PSDImage.new("RGB", (4, 4))

        def add(parent, items):
            for clip, pt, kids in items:
                if kids is None:
                    l = PixelLayer.frompil(Image.new("RGB", (2, 2), (9, 8, 7)), img, "leaf")
                    if l._parent is None:
                        parent.append(l)
                    elif l._parent is not parent:
                        l.move_to_group(parent)
                    if pt:
                        l.blend_mode = BlendMode.PASS_THROUGH
                else:
                    l = Group.new("group", parent=parent)
                    add(l, kids)
                    if not pt:
                        l.blend_mode = BlendMode.NORMAL
                if clip:
                    l.clipping_layer = True
        add(img, nodes)
    elif base == "api-set":
        # opened with every group NORMAL, then switched to pass-through through the setter
        def strip(items):
            return [(c, p and k is None, None if k is None else strip(k)) for c, p, k in items]
        img, _, _ = db.make_image(db.nested(to_nested(strip(nodes), rep="divider")))

        def setpt(group, items):
            for l, (c, p, k) in zip(list(group._layers), items):
                if k is not None:
                    setpt(l, k)
                    if p:
                        l.blend_mode = BlendMode.PASS_THROUGH
        setpt(img, nodes)
    else:
        img, _, _ = db.make_image(db.nested(to_nested(nodes, rep=base)))
    if again:
        buf = io.BytesIO()
        img.save(buf)
        img = PSDImage.open(io.BytesIO(buf.getvalue()))
    return img


def run_history(recipe_nodes, mode, ops, seed, want_trace=False, rep="position"):
    """Rebuild the document (groups represented as `rep` says), set the compatibility mode FIRST, apply `ops`
    (names) with arguments from Random(seed); after each op compare the stored relation with the spec on the
    current tree and with the same arrangement freshly opened.
    Returns (index of first stale op | None, log, diff[, trace])."""
    import random
    rng = random.Random(seed)
    img = build_world(recipe_nodes, rep)
    w = World(img)
    tr = Tracer(img)
    tree0 = tr.tree()
    state0 = tr.state()
    w.trace = tr
    set_mode(img, mode)
    tr("PSDImage.compatibility_mode.setter")
    log = []
    res = (None, log, None)
    for k, op in enumerate(ops):
        try:
            d = apply_op(w, op, rng)
        except Exception as e:  # noqa: refused edits are C09/C10's business
            log.append({"op": op, "raised": err_class(e)})
            d = None
        else:
            log.append(d)
        priv = private_relation(img)                        # before anything public
        diff = None
        if not has_leaf_pt(describe(img)):
            diff = compare_relation(img)
        if diff is None:
            diff = compare_fresh(img, priv)
        if diff is not None:
            res = (k, log, diff)
            break
    if want_trace:
        return res + ((tree0, state0, tr.steps),)
    return res


# arrangement of the blend-mode switch histories: a pass-through group G with a clipping run above it, a
# pass-through group K that holds a nested pass-through group H with a clipping layer above it, a clipping layer above K
TOGGLE_BASE = [(False, False, None),
               (False, True, [(False, False, None), (True, False, None)]),
               (True, False, None), (True, False, None),
               (False, True, [(False, False, None), (False, True, [(False, False, None)]), (True, False, None)]),
               (True, False, None)]
# the same with the groups NOT pass-through at the start (first switch goes the other way)
TOGGLE_BASE_ISO = [(c, False, None if k is None else [(c2, False, None if k2 is None else [(c3, False, k3) for c3, _, k3 in k2])
                                                      for c2, _, k2 in k]) for c, _, k in TOGGLE_BASE]


def toggle_ops(first=0, stride=1):
    """[blend@g=X, blend@g=PASS_THROUGH] for every blend mode X other than pass-through, the group g rotating over
    the three groups of TOGGLE_BASE: every group gets a first, a second, ... switch in both directions."""
    from psd_tools.constants import BlendMode
    others = [m.name for m in BlendMode if m != BlendMode.PASS_THROUGH]
    ops = []
    for i, x in enumerate(others[first::stride]):
        ops += ["blend@%d=%s" % (i % 3, x), "blend@%d=PASS_THROUGH" % (i % 3)]
    return ops


def toggle_plans(quick):
    plans = []
    for mi, mode in enumerate(MODES):
        for ri, rep in enumerate(ALL_REPS):
            strict = mode in RESTRICTIVE
            # restrictive modes: every blend mode; the others (where pass-through does not matter): a third of them
            stride = 1 if (strict or not quick) else 3
            plans.append((TOGGLE_BASE, mode, toggle_ops((mi + ri) % stride, stride), 0, rep))
            # non pass-through -> non pass-through, the same value twice, starting from isolated groups
            plans.append((TOGGLE_BASE_ISO, mode,
                          ["blend@0=MULTIPLY", "blend@0=PASS_THROUGH", "blend@0=PASS_THROUGH", "blend@0=SCREEN", "blend@0=SCREEN",
                           "blend@2=PASS_THROUGH", "blend@1=PASS_THROUGH", "blend@2=NORMAL", "blend@1=NORMAL", "blend@0=NORMAL",
                           "blend@0=PASS_THROUGH", "blend@0=NORMAL"], 0, rep))
    return plans


def _fixture_toggles(ctx, quick):
    """Files of the test corpus that hold groups (written by Photoshop and others: record and divider as THEY wrote
    them): per compatibility mode, set first, every group switched pass-through <-> NORMAL / MULTIPLY twice; after
    every step the stored relation against the specification on the current tree and the fresh-open oracle."""
    from psd_tools import PSDImage
    pf = core.REPO / "tests" / "psd_files"
    files = sorted(p for p in pf.glob("*.psd") if p.stat().st_size < (150_000 if quick else 3_000_000))
    cands = []
    for path in files:
        try:
            probe = PSDImage.open(str(path))
            ngroups = sum(1 for l in db.walk(probe) if hasattr(l, "_layers"))
            has_clip = any(l.clipping_layer for l in db.walk(probe))
        except Exception as e:  # noqa
            ctx.hist("fixture_toggle", "not-opened:" + err_class(e))
            continue
        if ngroups:
            cands.append((not has_clip, path.name, ngroups))
    cands.sort()
    used = 0
    for _, name, ngroups in cands[:(8 if quick else len(cands))]:
        used += 1
        ng = min(ngroups, 4 if quick else 12)
        for mode in (["PAINT_TOOL_SAI", "CLIP_STUDIO_PAINT", "PHOTOSHOP"] if quick else MODES):
            res = run_fixture_toggle(name, mode, ng)
            ctx.count(("fixture-toggle", name, mode), nontrivial=True)
            ctx.hist("fixture_toggle", "run")
            if res is not None:
                step, diff = res
                ctx.fail("C15/stale-after/set_blend", "clip_layers / has_clip_target not recomputed after set_blend",
                         {"kind": "fixture-toggle", "fixture": name, "mode": mode, "groups": ng, "upto": step},
                         diff, "the specification evaluated on the current tree (and the same arrangement freshly opened)",
                         how="search:edit-history")
                break
    ctx.extra["fixture_toggle_files"] = used


def run_fixture_toggle(name, mode, ngroups, upto=None):
    from psd_tools import PSDImage
    from psd_tools.constants import BlendMode
    img = PSDImage.open(str(core.REPO / "tests" / "psd_files" / name))
    set_mode(img, mode)
    groups = [l for l in db.walk(img) if hasattr(l, "_layers")][:ngroups]
    step = 0
    for rnd, other in enumerate((BlendMode.NORMAL, BlendMode.MULTIPLY)):
        for g in groups:
            seq = [other, BlendMode.PASS_THROUGH] if g.blend_mode == BlendMode.PASS_THROUGH else [BlendMode.PASS_THROUGH, other]
            for v in seq:
                g.blend_mode = v
                priv = private_relation(img)
                diff = None
                if not has_leaf_pt(describe(img)):
                    diff = compare_relation(img)
                if diff is None:
                    diff = compare_fresh(img, priv)
                if diff is not None:
                    return step, diff
                if upto is not None and step >= upto:
                    return None
                step += 1
    return None


# ---- the check -------------------------------------------------------------------------------------
def run(ctx: core.Run):
    gen = ctx.regenerate(extract_c15.gen_clip_modes)
    gen2 = ctx.regenerate(extract_c15.gen_clip_current)
    gen3 = ctx.regenerate(extract_c15_comp.gen_clip_compositor)
    ctx.prove(["PsdVerif.Props.C15"])
    ctx.trusted_base += [
        "Lean 4.33 kernel; axioms allowed: propext, Classical.choice, Quot.sound (audited per theorem)",
        "Model/Clip.lean is a hand transliteration of rec_helper in PSDImage._compute_clipping_layers; tied by this run's correspondence check",
        "harness/extract_c15.py: AST reader of _compute_clipping_layers/_clear_clipping_layers, CompatibilityMode members; "
        "and the call-graph flattener behind Generated/ClipCurrent.lean (which object an expression names: textual substitution "
        "of self / parameters / simple aliases, `X._psd` = the document of X; the same expression names the same object "
        "within one straight-line segment)",
        "Model/ClipState.lean: the stored relation as attributes on the nodes, a recomputation = clear over the visited layers "
        "then the pass; tied by the history correspondence of this run",
        "C09's invariants: a layer object occurs once in a tree; a container inside a document has _psd = that document",
        "harness/docbuild.py: synthetic documents; layers identified by pre-order position",
        "the specification: Model/Clip.lean `Spec.clip` (proved equal to the pass) and, independently, `spec_level` in harness/props/C15.py",
    ]
    ctx.assumptions += [
        "a non-group layer whose blend mode was set to pass-through is outside the property's domain (the code treats it "
        "like a pass-through group; theorem groupOnly_reading_agrees / groupOnly_reading_differs); it is compared model vs "
        "code but not judged by the search",
        "kept current is proved for histories of PUBLIC mutators of the API classes (the rows of Generated/ClipCurrent.lean); "
        "writing layer._record.clipping, a divider block or layer.tagged_blocks directly bypasses every setter and is outside the claim",
        "in the theorem a structural edit may replace the tree by ANY tree (what an edit does to the tree is C09's subject); "
        "`_update_record()`, the traversals and whatever a mutator calls between a raw mutation and the recomputation that "
        "covers it are assumed not to raise (asserts and exception paths are not part of the table)",
    ]
    quick = ctx.quick
    rng = ctx.rng
    drv = ctx.driver()

    # ============ part 1: arrangement = specification ==============================================
    docs = []        # (label, nodes, judged_by_search)
    nmax = 5 if quick else 6
    for n in range(0, nmax + 1):
        for k, flags in enumerate(child_lists(n, LEAF_OPTS + GROUP_OPTS)):
            docs.append(("flat", nodes_of(flags, k), True))
    for n in range(1, (3 if quick else 4) + 1):           # including non-group pass-through children
        for k, flags in enumerate(child_lists(n, LEAF_OPTS + GROUP_OPTS + LEAF_PT_OPTS)):
            if any(f in LEAF_PT_OPTS for f in flags):
                docs.append(("flat-leaf-pt", nodes_of(flags, k), False))
    # nested: the list sits inside a group that has clipping neighbours itself
    for n in range(0, (3 if quick else 4) + 1):
        for k, flags in enumerate(child_lists(n, LEAF_OPTS + GROUP_OPTS)):
            inner = nodes_of(flags, k)
            for gclip, gpt in ((False, False), (False, True), (True, True)):
                docs.append(("nested", [(False, False, None), (gclip, gpt, inner), (True, False, None)], True))
                if k % 3 == 0:
                    docs.append(("nested2", [(True, False, None), (False, gpt, [(gclip, False, inner), (True, False, None)])], True))
    for _ in range(300 if quick else 5000):
        docs.append(("random", random_nodes(rng, rng.randrange(0, 6), [rng.randrange(3, 40)]), True))
    for _ in range(50 if quick else 600):
        docs.append(("random-leaf-pt", random_nodes(rng, rng.randrange(0, 4), [rng.randrange(3, 25)], leaf_pt=True), False))
    corpus = core.VERIF / "harness" / "corpus" / "C15.json"
    corp = json.loads(corpus.read_text()) if corpus.exists() else []
    for c in corp:
        if c.get("kind") == "arrangement":
            docs.insert(0, ("corpus", _nodes_from_json(c["nodes"]), True))

    reqs = []
    for label, nodes, judged in docs:
        tok = tree_token(nodes) or " "
        for mi in range(len(MODES)):
            reqs.append(("clip.doc", mi, tok))
        if label.startswith("flat"):
            for mi in range(len(MODES)):
                reqs.append(("clip.compute", mi, flags_token(nodes)))
    answers = iter(drv.batch(reqs))
    for label, nodes, judged in docs:
        img, _, _ = db.make_image(db.nested(to_nested(nodes)))
        ctx.hist("stream", label)
        ctx.hist("children", len(nodes))
        for mi, mode in enumerate(MODES):
            if mi:
                set_mode(img, mode)          # the setter recomputes
            real = entries_of(img)
            ans = next(answers)
            ctx.corr_cases += 1
            ctx.count((label, tree_token(nodes), mode), nontrivial=any(c for c, _, _ in _flatten(nodes)))
            case = {"nodes": _nodes_to_json(nodes), "mode": mode}
            if ans[0] != "ok" or ans[1] != real:
                ctx.disagree("clip relation differs (model clip.doc vs implementation)", dict(case, impl=real, model=ans[1:]))
            if judged:
                diff = compare_relation(img)
                if diff is not None:
                    ctx.fail(_arr_signature(nodes, mode, diff), "clip_layers / has_clip_target differ from the specification as opened",
                             dict(case, kind="arrangement"), diff.get("observed"), diff.get("expected"))
            ctx.hist("mode", mode)
        if label.startswith("flat"):
            for mi, mode in enumerate(MODES):
                ans = next(answers)
                set_mode(img, mode)
                kids = list(img)
                real = " ".join(("t" if l._has_clip_target else "f") + ",".join(str(kids.index(x)) for x in l.clip_layers)
                                for l in kids) or "-"
                if ans[0] != "ok" or ans[1] != real:
                    ctx.disagree("clip relation differs (model clip.compute vs implementation)",
                                 {"flags": flags_token(nodes), "mode": mode, "impl": real, "model": ans[1:]})
        if label == "random" and len(ctx.samples) < 3:
            ctx.sample({"tree": tree_token(nodes), "mode": MODES[-1], "impl": entries_of(img)})

    # compositor honours target / no target (composite/__init__.py:231): a clipping layer is skipped in the
    # ordinary pass exactly when it has a target
    _check_compositor_gate(ctx)
    # ... and the same in pixels: default and caller-supplied layer filters, nested groups, base-less clipping layers
    _check_compositor_pixels(ctx, rng)

    # ============ part 2: kept current after edits (search on the real code) and ======================
    # ============ part 3: the same histories on the state model (correspondence) ======================
    n_hist = 150 if quick else 2500
    hist_len = 6 if quick else 10
    stale_seen = {}
    # every op alone from two fixed arrangements first (so that each op is certainly exercised), every ordered pair
    # of compatibility modes, then random histories
    base = [(False, False, None), (True, False, None), (False, True, [(False, False, None), (True, False, None), (True, False, None)]),
            (True, False, None), (False, False, None), (True, False, None)]
    # two target-less clipping layers at the bottom, a pass-through group that carries a run, a group whose only
    # children are clipping layers
    base_b = [(True, False, None), (True, False, None),
              (False, True, [(True, False, None), (False, False, None), (True, False, None)]),
              (True, False, None), (False, False, [(True, False, None), (True, False, None)]), (True, False, None)]
    plans = []          # (nodes, mode, ops, seed, representation of the groups)
    for op in OPS:
        for s in range(12 if quick else 60):
            plans.append((base if s % 4 < 2 else base_b, MODES[s % len(MODES)] if s % 3 else "PAINT_TOOL_SAI", [op],
                          rng.getrandbits(30), "position"))
    for m1 in MODES:
        for m2 in MODES:
            plans.append((base_b, m1, ["set_compat=" + m2], rng.getrandbits(30), "position"))
    # blend-mode switches of groups: the mode is set BEFORE the edits, the pass-through state of the groups is
    # represented in every way the library knows (ALL_REPS), every group is switched pass-through <-> every other
    # blend mode in both directions, repeatedly (first, second, ... switch of the same group), fresh-open oracle
    # after every step. Seed-independent.
    plans += toggle_plans(quick)
    for c in corp:
        if c.get("kind") == "history":
            plans.insert(0, (_nodes_from_json(c["nodes"]), c["mode"], c["ops"], c["seed"], c.get("rep", "position")))
    for k_ in range(n_hist):
        nodes = random_nodes(rng, rng.randrange(0, 3), [rng.randrange(3, 14)])
        plans.append((nodes, rng.choice(MODES), [rng.choice(OPS) for _ in range(hist_len)], rng.getrandbits(30),
                      ALL_REPS[(k_ // 2) % len(ALL_REPS)] if k_ % 2 else "position"))
    traces = []
    for nodes, mode, ops, seed, rep in plans:
        k, log, diff, trace = run_history(nodes, mode, ops, seed, want_trace=True, rep=rep)
        traces.append(((nodes, mode, list(ops), seed, rep), trace))
        ctx.count(("history", tree_token(nodes), mode, tuple(ops), seed, rep), nontrivial=True)
        ctx.hist("history_groups_as", rep)
        for d in log:
            if d:
                ctx.hist("edit_op", d.get("op") if "raised" not in d else d["op"] + "!" + d["raised"])
        if k is not None:
            op = ops[k]
            opname = op.split("=")[0].split("@")[0]
            opname = {"blend": "set_blend"}.get(opname, opname)
            # shrink: drop earlier operations while the same step still goes stale (argument draws are
            # re-seeded per history, so a shorter history is simply re-run)
            prefix = list(ops[:k])
            if prefix and opname not in stale_seen:
                def still(sub):
                    kk, _, _ = run_history(nodes, mode, sub + [op], seed, rep=rep)
                    return kk == len(sub)
                if still([]):
                    prefix = []
                else:
                    prefix = core.ddmin(prefix, still) if still(prefix) else prefix
            stale_seen[opname] = True
            if len(prefix) < k:
                k2, _, diff2 = run_history(nodes, mode, prefix + [op], seed, rep=rep)
                if k2 == len(prefix):
                    ops, k, diff = prefix + [op], k2, diff2
            ctx.fail(f"C15/stale-after/{opname}", f"clip_layers / has_clip_target not recomputed after {opname}",
                     {"kind": "history", "nodes": _nodes_to_json(nodes), "mode": mode, "ops": ops[:k + 1], "seed": seed,
                      "rep": rep},
                     diff, "the specification evaluated on the current tree (and the same arrangement freshly opened)",
                     how="search:edit-history")

    # the same switches on the groups of real files (Photoshop's own representation), every mode set first
    _fixture_toggles(ctx, quick)

    # part 3: one driver line = one history; the stored relation after the constructor and after every public call
    reqs = []
    for _, (tree0, state0, steps) in traces:
        line = ["clipst.hist", tree0]
        for row, mi, tree, _ in steps:
            line += [row, mi, tree]
        reqs.append(tuple(line))
    rows_seen = set()
    for (plan, (tree0, state0, steps)), ans in zip(traces, drv.batch(reqs)):
        ctx.corr_cases += 1
        nodes, mode, ops, seed, rep = plan
        case = {"kind": "history", "nodes": _nodes_to_json(nodes), "mode": mode, "ops": ops, "seed": seed, "rep": rep}
        if ans[0] != "ok":
            ctx.disagree("the state model rejected a history (clipst.hist)", dict(case, answer=list(ans)[:3]))
            continue
        got = ans[1].split("|")
        want = [state0] + [st for _, _, _, st in steps]
        names = ["<open>"] + [row for row, _, _, _ in steps]
        if len(got) != len(want):
            ctx.disagree("the state model answered %d states for %d" % (len(got), len(want)), case)
            continue
        for n, (g, w_, row) in enumerate(zip(got, want, names)):
            rows_seen.add(row)
            ctx.hist("model_step", row)
            if g == "norow":
                ctx.disagree("public mutator %s called by the harness has no row in Generated/ClipCurrent.lean" % row,
                             dict(case, step=n))
                break
            if g != w_:
                ctx.disagree("stored clip relation differs after %s (state model clipst.hist vs implementation)" % row,
                             dict(case, step=n, model=g, impl=w_))
                break
    ctx.extra["model_rows_exercised"] = sorted(rows_seen)
    ctx.extra["table_rows"] = [n for n, _ in (gen2["rows"] if "rows" in gen2 else [])]
    ctx.extra["histories"] = len(plans)
    ctx.extra["recompute_callers"] = gen["recompute_callers"]

    ctx.rule = (
        "part 1: every children list of <= %d children over {layer, group, pass-through group} x {clipping, not} (groups get "
        "inner lists from a pool of 4) x 5 compatibility modes, switched with the setter on the same document; the same lists "
        "nested inside (pass-through) groups with clipping neighbours; lists with non-group pass-through children (model vs "
        "code only); random trees (depth <= 5, <= 40 layers). A case is non-trivial when some layer has the clipping flag; "
        "distinct = (tree, mode). part 2: %d edit histories (every operation alone from a fixed arrangement, then random "
        "histories of %d operations over %d operations, among them moves into detached groups and into a second document, "
        "layers adopted from there, slices, blend modes of plain layers, all 25 ordered pairs of compatibility modes) with the "
        "private attributes compared after every step with the specification (documents without pass-through plain layers) and "
        "with the same arrangement freshly opened (all documents). part 3: the same histories, every public mutator call a "
        "step of the state model, stored relation compared after the constructor and after every call."
        % (nmax, len(plans), hist_len, len(OPS)))
    ctx.notes += [
        "DESIGN's clip_current is proved as kept_current / kept_current_now / kept_current_meaning over Model/ClipState.lean "
        "(structural edits abstract: any new tree), tied to the source by Generated/ClipCurrent.lean; it is ALSO searched on "
        "the real code (part 2) and the state model is run against every public call of those histories (part 3)",
        "defect found by part 2 with the fresh-open oracle and fixed in the repository (b2a7dfa): the Layer.blend_mode setter did "
        "not recompute although the pass tests the blend mode of every layer",
        "compositor_honours: the gate of Compositor.apply and the group box of Compositor._bbox are modelled (Model/ClipCompositor.lean), "
        "tied to the source (compositor_gate_tied) and proved (compositor_honours_gate, group_box_spans_accepted); that the pixels "
        "follow is observed dynamically (compositor gate by call counts, pixel documents under default and custom layer filters)",
        "defect found by part 2 and fixed in the repository (fix: recompute clipping relationships after structural edits "
        "and group blend-mode changes): every structural edit left clip_layers/_has_clip_target stale",
    ]
    ctx.exhaustive = True
    ctx.model_coverage = {
        "modelled": ["rec_helper on one children list (stack, pass-through test, trailing loop)", "recursion over the tree",
                     "_clear_clipping_layers defaults", "CompatibilityMode members",
                     "the stored relation as state: clear over the visited layers, then the pass (Model/ClipState.lean)",
                     "every public mutator as a list of effects (raw mutations, recomputations with owner and tests) from the source",
                     "the constructor's final recomputation",
                     "the compositor's gate (early returns of Compositor.apply), _apply_clip_layers' iteration, the group box of "
                     "Compositor._bbox under a caller-supplied filter (regenerated, Generated/ClipCompositor.lean)"],
        "search_only": ["what the compositor paints (pixel observation: painter oracle + cleared-flag twin; call counts of the gate)"],
        "abstract": ["what a structural edit does to the tree (any new tree in the theorem; read off the real objects in the "
                     "correspondence)"],
        "opaque": ["pixels of the composite (C11)"],
    }
    if ctx.tier == "thorough":
        ctx.recheck(["PsdVerif.Props.C15"])


def gate_observe(fl, modes=("PHOTOSHOP", "CLIP_STUDIO_PAINT")):
    """Build a pixel document for the arrangement `fl` (per child: 0 layer, 1 clipping layer, 2 pass-through group,
    3 clipping pass-through group), composite it under each mode with `Compositor.apply/_get_object/_get_group`
    wrapped, and return {mode: [(is clipping, has target, times composited standalone, times through a base)]}."""
    from PIL import Image
    from psd_tools import PSDImage
    from psd_tools.api.layers import Group, PixelLayer
    from psd_tools.composite import Compositor
    from psd_tools.constants import BlendMode

    log, flags = [], []
    oa, og, oo = Compositor.apply, Compositor._get_group, Compositor._get_object

    def apply(self, layer, clip_compositing=False):
        flags.append(clip_compositing)
        try:
            return oa(self, layer, clip_compositing)
        finally:
            flags.pop()

    def gg(self, layer, *a):
        log.append((id(layer), flags[-1]))
        return og(self, layer, *a)

    def go(self, layer, *a):
        log.append((id(layer), flags[-1]))
        return oo(self, layer, *a)

    psd = PSDImage.new("RGB", (4, 4))
    tops = []
    for k, f in enumerate(fl):
        if f >= 2:
            g = Group.new("g%d" % k, parent=psd)
            g.append(PixelLayer.frompil(Image.new("RGB", (4, 4), (10, 40 * k, 10)), psd, "in%d" % k))
            g.blend_mode = BlendMode.PASS_THROUGH
            tops.append(g)
        else:
            l = PixelLayer.frompil(Image.new("RGB", (4, 4), (40 * k, 10, 10)), psd, "L%d" % k)
            psd.append(l)
            tops.append(l)
    for l, f in zip(tops, fl):
        if f % 2:
            l._record.clipping = 1
    out = {}
    Compositor.apply, Compositor._get_group, Compositor._get_object = apply, gg, go
    try:
        for mode in modes:
            set_mode(psd, mode)                      # recomputes the relation
            del log[:]
            psd.composite(force=True)
            out[mode] = [(bool(l.clipping_layer), bool(l._has_clip_target),
                          sum(1 for i, c in log if i == id(l) and not c),
                          sum(1 for i, c in log if i == id(l) and c)) for l in tops]
    finally:
        Compositor.apply, Compositor._get_group, Compositor._get_object = oa, og, oo
    return out


def _check_compositor_gate(ctx):
    """`Compositor.apply`: `if not clip_compositing and layer.clipping_layer and layer._has_clip_target: return`
    and `_apply_clip_layers`: a clipping layer with a target is composited exactly once, through its base; one
    without a target exactly once, as an ordinary layer; every other layer once."""
    n = 3 if ctx.quick else 4
    arrangements = [fl for k in range(1, n + 1) for fl in itertools.product((0, 1, 2, 3), repeat=k)]
    for fl in arrangements:
        try:
            res = gate_observe(fl)
        except Exception as e:  # noqa
            ctx.skipped.append("compositor gate: composite() raised %s on %r" % (err_class(e), fl))
            return
        for mode, rows in res.items():
            ctx.count(("gate", fl, mode), nontrivial=any(f % 2 for f in fl))
            for clip, tgt, std, via in rows:
                if clip and tgt:
                    ok, exp, what = (std, via) == (0, 1), "once, through its base", "clipped-layer"
                else:
                    ok, exp = (std, via) == (1, 0), "once, as an ordinary layer"
                    what = "untargeted-clipping-layer" if clip else "base-layer"
                if not ok:
                    ctx.fail(f"C15/compositor/{what}/standalone-{std}-clipped-{via}",
                             "the compositor does not honour the clipping relation",
                             {"kind": "gate", "arrangement": list(fl), "mode": mode}, [std, via], exp)
    ctx.extra["compositor_gate_cases"] = 2 * len(arrangements)


PIXEL_MODES = ["PHOTOSHOP", "PAINT_TOOL_SAI", "CLIP_STUDIO_PAINT"]


def pixel_docs(rng, quick):
    """Arrangements for the pixel observation (node descriptions with at least one leaf, at most 9)."""
    docs = []
    for n in range(1, 3):
        for k, flags in enumerate(child_lists(n, LEAF_OPTS + GROUP_OPTS)):
            docs.append(("flat", nodes_of(flags, k + n)))
    # the list inside a group with neighbours: base-less clipping layers at the bottom of a NESTED group, clipping
    # layers above a (nested) pass-through group
    for k, flags in enumerate(child_lists(1, LEAF_OPTS + GROUP_OPTS)):
        inner = nodes_of(flags, k + 1) + [(True, False, None)]
        for gclip, gpt in ((False, False), (False, True), (True, True), (True, False)):
            docs.append(("nested", [(False, False, None), (gclip, gpt, inner), (True, False, None)]))
            docs.append(("nested2", [(True, False, None), (False, gpt, [(gclip, not gpt, inner), (True, False, None), (False, False, None)])]))
    docs.append(("nested", [(False, False, None),
                            (False, False, [(True, False, None), (False, False, None), (True, False, None)]),
                            (False, False, [(False, True, [(True, False, None), (False, False, None)]), (True, False, None), (False, False, None)]),
                            (False, False, None)]))
    docs.append(("nested", [(False, True, [(True, False, None), (True, False, None)]), (True, False, None)]))
    for _ in range(30 if quick else 400):
        docs.append(("random", random_nodes(rng, rng.randrange(1, 3), [rng.randrange(2, 9)])))
    return [(lab, nd) for lab, nd in docs if 1 <= cp.leaves_of(nd) <= 9]


def pixel_case(nodes, mode, hidden, way, kind, target=None, twin=False, steps=()):
    """One pixel observation. way: 'api' | 'api-mode-last' | 'reopened'. steps: [(group number, blend name)] applied
    through the setter before observing. -> None | difference."""
    from psd_tools.constants import BlendMode
    psd, pre = cp.build(nodes, hidden, mode, mode_first=(way != "api-mode-last"))
    if way == "reopened":
        psd = cp.reopen(psd)
        pre = list(db.walk(psd))
    if steps:
        groups = [l for l in pre if hasattr(l, "_layers")]
        for g, name in steps:
            groups[g % len(groups)].blend_mode = BlendMode[name]
        nodes = describe(psd)
    tgt = None if target is None else pre[target]
    got = cp.observe(psd, nodes, kind, tgt)
    want = cp.painter(nodes, hidden, mode, kind, spec_level, target)
    diff = cp.first_difference(got, want, nodes)
    if diff is not None:
        return dict(diff, oracle="painter")
    if twin:
        psd2, pre2 = cp.build(cp.clear_baseless(nodes, mode, spec_level), hidden, mode)
        got2 = cp.observe(psd2, nodes, kind, None if target is None else pre2[target])
        diff = cp.first_difference(got, got2, nodes)
        if diff is not None:
            return dict(diff, oracle="twin with the clipping flag cleared on the base-less clipping layers")
    return None


def _check_compositor_pixels(ctx, rng):
    """`compositor_honours` in pixels: a clipped layer is drawn inside its base only, a clipping layer with no base
    (bottom of a group - nested groups included -, above a pass-through group in the restrictive modes) is composited
    as an ordinary layer; under the default layer filter and under caller-supplied ones (the same predicate as a
    function, accept-all, the bare visible flag), for the document and for every group composited by itself, as built
    through the API (mode set first / last), after save + open, and after blend-mode switches of the groups."""
    quick = ctx.quick
    docs = pixel_docs(rng, quick)
    n_cases = 0
    failed = set()

    def judge(label, nodes, mode, hidden, way, kind, target=None, twin=False, steps=()):
        nonlocal n_cases
        n_cases += 1
        inp = {"kind": "pixels", "nodes": _nodes_to_json(nodes), "mode": mode, "hidden": sorted(hidden), "way": way,
               "filter": kind, "target": target, "twin": twin, "steps": [list(x) for x in steps]}
        try:
            diff = pixel_case(nodes, mode, hidden, way, kind, target, twin, steps)
        except Exception as e:  # noqa
            diff = {"raised": err_class(e), "oracle": "composite() raises"}
        ctx.count(("pixels", tree_token(nodes), mode, tuple(sorted(hidden)), way, kind, target, tuple(steps)),
                  nontrivial=any(c for c, _, _ in _flatten(nodes)))
        ctx.hist("pixel_filter", kind)
        if diff is None:
            return True
        baseless = cp.has_baseless(nodes, mode, spec_level)
        what = "base-less-clipping-layer" if baseless else "clipped-layer"
        sig = "C15/compositor-pixels/%s/%s/%s" % (what, "default-filter" if kind in ("default", "Layer.is_visible") else "custom-filter",
                                                    "after-set_blend" if steps else ("document" if target is None else "group"))
        if sig not in failed:
            failed.add(sig)
            ctx.fail(sig, "the composite does not show the clipping relation of the current tree "
                          "(a clipped layer inside its base only; a clipping layer without a base as an ordinary layer)",
                     inp, diff, "the painter oracle / the twin document")
        return False

    for i, (label, nodes) in enumerate(docs):
        npos = sum(1 for _ in _flatten(nodes))
        hidden = set() if i % 3 else {i % npos}
        ctx.hist("pixel_stream", label)
        for mi, mode in enumerate(PIXEL_MODES):
            way = ("api", "reopened", "api-mode-last")[(i + mi) % 3]
            for kind in cp.FILTERS:
                judge(label, nodes, mode, hidden, way, kind, twin=(kind in ("default", "lambda-accept-all")
                                                                     and cp.has_baseless(nodes, mode, spec_level)))
            if not hidden:
                gpos = [k for k, nd in enumerate(_flatten(nodes)) if nd[2] is not None]
                for t in gpos[:2 if quick else 6]:
                    for kind in ("default", "lambda-accept-all"):
                        judge(label, nodes, mode, hidden, way, kind, target=t)
    # blend-mode switches seen in pixels (the compositor reads the stored relation); only pass-through <-> NORMAL here:
    # the painter oracle knows opaque layers painted over each other, not blended colours
    for mode in PIXEL_MODES:
        for way in ("api", "reopened"):
            for steps in ([(0, "NORMAL")], [(0, "NORMAL"), (2, "NORMAL"), (0, "PASS_THROUGH"), (0, "NORMAL")],
                          [(1, "NORMAL"), (2, "NORMAL"), (1, "PASS_THROUGH"), (2, "PASS_THROUGH"), (2, "NORMAL")]):
                for kind in ("default", "lambda-accept-all"):
                    judge("toggle", TOGGLE_BASE, mode, set(), way, kind, steps=tuple(steps))
    ctx.extra["compositor_pixel_cases"] = n_cases


def _flatten(nodes):
    for n in nodes:
        yield n
        if n[2] is not None:
            yield from _flatten(n[2])


def _nodes_to_json(nodes):
    return [[int(c), int(p), None if k is None else _nodes_to_json(k)] for c, p, k in nodes]


def _nodes_from_json(js):
    return [(bool(c), bool(p), None if k is None else _nodes_from_json(k)) for c, p, k in js]


def _arr_signature(nodes, mode, diff):
    feat = diff["what"]
    return f"C15/as-opened/{feat}/" + ("restrictive-mode" if mode in RESTRICTIVE else "default-mode")


def replay(ctx, data):
    inp = data.get("input") or {}
    print("replaying", data.get("signature"))
    if inp.get("kind") == "history":
        k, log, diff = run_history(_nodes_from_json(inp["nodes"]), inp["mode"], inp["ops"], inp["seed"],
                                   rep=inp.get("rep", "position"))
        print("ops applied:", json.dumps(log))
        print("first stale step:", k, "difference:", diff)
    elif inp.get("kind") == "arrangement":
        nodes = _nodes_from_json(inp["nodes"])
        img, _, _ = db.make_image(db.nested(to_nested(nodes)))
        set_mode(img, inp["mode"])
        print("tree:", tree_token(nodes), "mode:", inp["mode"])
        print("implementation:", entries_of(img))
        print("difference from the specification:", compare_relation(img))
    elif inp.get("kind") == "fixture-toggle":
        print("fixture:", inp["fixture"], "mode:", inp["mode"], "first stale step / difference:",
              run_fixture_toggle(inp["fixture"], inp["mode"], inp["groups"]))
    elif inp.get("kind") == "pixels":
        diff = pixel_case(_nodes_from_json(inp["nodes"]), inp["mode"], set(inp["hidden"]), inp["way"], inp["filter"],
                          inp.get("target"), inp.get("twin", False), tuple(tuple(x) for x in inp.get("steps", ())))
        print("arrangement:", tree_token(_nodes_from_json(inp["nodes"])), "mode:", inp["mode"], "hidden:", inp["hidden"],
              "built:", inp["way"], "layer_filter:", inp["filter"], "target:", inp.get("target"), "steps:", inp.get("steps"))
        print("first pixel that differs:", diff)
    elif inp.get("kind") == "gate":
        res = gate_observe(tuple(inp["arrangement"]), (inp["mode"],))
        print("arrangement:", inp["arrangement"], "mode:", inp["mode"])
        print("(clipping, has target, composited standalone, composited through a base) per layer:", res[inp["mode"]])
    print("expected:", data.get("expected"))
    return 0
