"""C19 - Unicode text survives storage (string primitives, every storage place, the layer name)."""
from __future__ import annotations

import io
import json
import struct
import warnings

import core
import extract_c19
from core import hx, unhx, err_class

ENCODINGS = ["macroman", "maccyrillic", "utf_8", "shift_jis", "ascii"]
LEAN_CODEC = {"macroman": "mac-roman", "maccyrillic": "mac-cyrillic", "utf_8": "utf-8", "ascii": "ascii"}
# the sweeps that do not depend on the seed (codec repertoires, the name matrix) run over a wider set of the
# codecs `save(..., encoding=...)` / `open(..., encoding=...)` accept
WIDE_ENCODINGS = ENCODINGS + ["cp932", "latin_1", "gbk", "euc_kr", "cp1252", "big5"]
PADS = [1, 2, 4]
SIG_OVERFLOW = "C19/write_unicode_string/OverflowError/code-point-above-U+FFFF"
SIG_PAIR = "C19/read_unicode_string/surrogate-pair-read-as-two-characters"
SIG_NAME_UNENC = "C19/name/legacy-field-unencodable-in-save-encoding"
SIG_NAME_LONG = "C19/name/legacy-field-longer-than-255-bytes-in-save-encoding"
SIG_SJIS = "C19/pascal/shift_jis/python-codec-maps-U+00A5-U+203E-to-ascii-bytes"
SIG_LR16 = "C19/name/no-unicode-block/encoding-not-forwarded-into-Lr16-Lr32-blocks"

CLASSES = {
    "ascii": "aZ09 ~?_",
    "latin": "\u00e9\u00fc\u00f1\u00c5",            # in MacRoman, not in ASCII / MacCyrillic
    "cyr": "\u041f\u0440\u0438\u0432\u0435\u0442\u0416",
    "jp": "\u3042\u3044\u3046\u6f22\u5b57\uff76",
    "comb": "e\u0301a\u20dd\u0300",
    "nul": "\x00",
    "bmp_edge": "\uffff\ufffe\ud7ff\ue000\u0080\u00ff\u0100",
    "astral": "\U0001F47D\U00010000\U0010FFFF\U0001F600\U000E0100",
}
LOSSY_SJIS = "\u00a5\u203e"

# Characters a "helpful" normaliser, sanitiser or terminator-stripper would touch; each is placed at the START, in the
# MIDDLE and at the END of a string (and alone, and doubled) for every storage class.
SPECIAL_CHARS = {
    "U+FEFF": "\ufeff", "U+FFFE": "\ufffe", "U+FFFF": "\uffff", "NUL": "\x00",
    "ZWSP": "\u200b", "ZWNJ": "\u200c", "ZWJ": "\u200d", "LRM": "\u200e", "RLM": "\u200f", "LS": "\u2028", "PS": "\u2029",
    "WJ": "\u2060", "VS16": "\ufe0f", "astral": "\U0001F47D", "U+10000": "\U00010000", "U+10FFFF": "\U0010ffff",
    "combining-acute": "\u0301", "space": " ", "tab": "\t", "CR": "\r", "LF": "\n", "CRLF": "\r\n", "NBSP": "\u00a0", "SHY": "\u00ad",
    "NEL": "\u0085", "DEL": "\x7f", "SUB": "\x1a", "U+FFFD": "\ufffd", "ideographic-space": "\u3000",
    "e-acute-precomposed": "\u00e9", "e-acute-decomposed": "e\u0301", "angstrom-sign": "\u212b", "A-ring": "\u00c5",
    "ohm-sign": "\u2126", "omega": "\u03a9", "fi-ligature": "\ufb01", "fullwidth-A": "\uff21", "dotted-I": "\u0130", "sharp-s": "\u00df",
    "quote": "\"", "backslash": "\\", "parens": "()", "percent": "%", "slash": "/", "question": "?", "yen": "\u00a5",
    "wave-dash": "\u301c", "fullwidth-tilde": "\uff5e", "minus": "\u2212", "fullwidth-hyphen": "\uff0d", "cent": "\u00a2", "not": "\u00ac",
    "double-bar": "\u2016", "parallel": "\u2225", "pound": "\u00a3",
}


def special_strings(positions=("alone", "start", "middle", "end", "start2", "end2")):
    out = []
    for c in SPECIAL_CHARS.values():
        forms = {"alone": c, "start": c + "ab", "middle": "a" + c + "b", "end": "ab" + c, "start2": c + c + "a", "end2": "a" + c + c}
        for pos in positions:
            if forms[pos] not in out:
                out.append(forms[pos])
    if len(positions) > 3:
        out += ["\u00e9e\u0301", "e\u0301\u00e9", "ab\x00\x00", "  ab  ", "\x00\x00ab", "\ufeff\ufeff", "\ufeff\x00", "a\r\n\r\nb",
                "\u212b\u00c5A\u030a", "\U0001F47D\ufeff\U0001F47D"]
    return out


# ---- helpers --------------------------------------------------------------------------
def cps(s):
    return ",".join(str(ord(c)) for c in s) if s else "-"


def from_cps(t):
    return "" if t == "-" else "".join(chr(int(x)) for x in t.split(","))


def is_scalar_str(s):
    return all(not (0xD800 <= ord(c) <= 0xDFFF) for c in s)


def has_astral(s):
    return any(ord(c) > 0xFFFF for c in s)


def has_pair(s):
    return any(0xD800 <= ord(a) < 0xDC00 <= ord(b) < 0xE000 for a, b in zip(s, s[1:]))


def ecls(e):
    c = err_class(e)
    return "Other" if c.startswith("Other") else c


def ref_utf16(s):
    """UTF-16BE from the Unicode Standard (table 3-5), independent of the codec module."""
    out = bytearray()
    for ch in s:
        c = ord(ch)
        if c < 0x10000:
            out += struct.pack(">H", c)
        else:
            w = (c >> 16) - 1
            out += struct.pack(">HH", 0xD800 | (w << 6) | ((c >> 10) & 0x3F), 0xDC00 | (c & 0x3FF))
    return bytes(out)


def try_encode(s, enc):
    try:
        return s.encode(enc)
    except UnicodeEncodeError:
        return None


def try_decode(b, enc):
    try:
        return b.decode(enc)
    except UnicodeDecodeError:
        return None


def table_entry(s, enc):
    b = try_encode(s, enc)
    return f"{cps(s)}={'X' if b is None else hx(b)}"


def gen_strings(rng, quick):
    """Seeded strings: every length 0..255, every class alone and mixed."""
    out = []
    names = list(CLASSES)
    for n in range(256):
        k = rng.randrange(1, 4)
        cl = rng.sample(names, k)
        pool = "".join(CLASSES[c] for c in cl)
        out.append("".join(rng.choice(pool) for _ in range(n)))
    for c in names:
        for n in (1, 2, 3, 127, 128, 254, 255):
            out.append("".join(rng.choice(CLASSES[c]) for _ in range(n)))
    if not quick:
        for _ in range(1500):
            n = rng.choice([0, 1, 2, 5, 17, 63, 64, 100, 200, 255])
            pool = "".join(CLASSES[c] for c in rng.sample(names, rng.randrange(1, len(names) + 1)))
            out.append("".join(rng.choice(pool) for _ in range(n)))
    return out


def boundary_strings():
    """Encoded length 254..257 for every pascal encoding."""
    E, A, Z, X = "\u00e9", "\u3042", "\u0416", "\U0001F47D"
    out = []
    for n in (254, 255, 256, 257):
        out.append("a" * n)                                   # 1 byte everywhere
    out += [E * 127, E * 127 + "a", E * 128, E * 128 + "a"]          # utf_8: 2 bytes
    out += [A * 127, A * 127 + "a", A * 128, A * 85, A * 85 + "a", A * 86]   # shift_jis 2 bytes, utf_8 3 bytes
    out += [E * 255, E * 256, Z * 255, Z * 256, Z * 127 + "a", Z * 128]
    out += [X * 63 + "abc", X * 64]                             # utf_8: 4 bytes -> 255 / 256
    return out


WEIRD = ["\ud83d", "\udc7d", "\udc7d\ud83d", "a\udfff", "\ud800a", "\ud83d\udc7d", "a\ud83d\udc7db", "\udbff\udfff", "\ud83d\ud83d\udc7d"]


# ---- real implementation wrappers ------------------------------------------------------
def py_write(fn, *a, **k):
    f = io.BytesIO()
    try:
        n = fn(f, *a, **k)
    except Exception as e:  # noqa
        return ("err", ecls(e))
    b = f.getvalue()
    return ("ok", b, n)


def py_read(fn, data, pos, *a, **k):
    f = io.BytesIO(data)
    f.seek(pos)
    try:
        s = fn(f, *a, **k)
    except Exception as e:  # noqa
        return ("err", ecls(e))
    return ("ok", s, f.tell())


def m_bytes(ans):
    if ans[0] == "ok":
        return ("ok", unhx(ans[1]))
    return ("err", ans[1] if len(ans) > 1 else ans[0])


def m_strpos(ans):
    if ans[0] == "ok":
        return ("ok", from_cps(ans[1]), int(ans[2]))
    return ("err", ans[1] if len(ans) > 1 else ans[0])


# ---- storage places (full element classes; Python-only oracle) --------------------------
def storage_places():
    """[(label, kind, make(s) -> element, get(element) -> value, write kwargs, read kwargs)];
    kind = 'unicode' or ('pascal', encoding)."""
    import attr
    from psd_tools.psd import (adjustments as ADJ, base as B, descriptor as D, filter_effects as FE,
                               image_resources as IR, layer_and_mask as LM, linked_layer as LL, patterns as PT,
                               tagged_blocks as TB)
    from psd_tools.constants import LinkedLayerType, Tag
    from psd_tools import PSDImage

    T = core.REPO / "tests"
    places = []

    def add(label, kind, make, get, wk=None, rk=None):
        places.append((label, kind, make, get, wk or {}, rk or {}))

    for pad in PADS:
        add(f"StringElement(pad={pad})", "unicode", lambda s: B.StringElement(s), lambda o: o.value, {"padding": pad}, {"padding": pad})
    add("tagged-block unicode name (written pad 4, read pad 1)", "unicode",
        lambda s: TB.TaggedBlock(key=Tag.UNICODE_LAYER_NAME, data=B.StringElement(s)), lambda o: o.data.value,
        {"padding": 1}, {"padding": 1})
    add("descriptor.String", "unicode", lambda s: D.String(s), lambda o: o.value)
    add("descriptor.Descriptor.name", "unicode", lambda s: D.Descriptor(name=s, classID=b"null"), lambda o: o.name)
    add("descriptor.ObjectArray.name", "unicode", lambda s: D.ObjectArray(name=s, classID=b"null"), lambda o: o.name)
    add("descriptor.Property.name", "unicode", lambda s: D.Property(name=s), lambda o: o.name)
    add("descriptor.Class.name", "unicode", lambda s: D.Class(name=s), lambda o: o.name)
    add("descriptor.Class1.name", "unicode", lambda s: D.Class1(name=s), lambda o: o.name)
    add("descriptor.EnumeratedReference.name", "unicode", lambda s: D.EnumeratedReference(name=s), lambda o: o.name)
    add("descriptor.Offset.name", "unicode", lambda s: D.Offset(name=s), lambda o: o.name)
    add("descriptor.Name.name+value", "unicode", lambda s: D.Name(name=s, value=s[::-1]), lambda o: (o.name, o.value))

    def nested(s):
        d = D.Descriptor(name=s, classID=b"null")
        d[b"Nm  "] = D.String(s)
        d[b"Lst "] = D.List([D.String(s), D.Name(name=s, value=s)])
        d[b"Obj "] = D.Descriptor(name=s, classID=b"abcd")
        return d

    add("descriptor nested (String in Descriptor/List)", "unicode", nested,
        lambda o: (o.name, o[b"Nm  "].value, o[b"Lst "][0].value, o[b"Lst "][1].name, o[b"Obj "].name))
    add("descriptor.DescriptorBlock.name", "unicode", lambda s: D.DescriptorBlock(name=s, classID=b"null"), lambda o: o.name)
    add("resource AlphaNamesUnicode", "unicode", lambda s: IR.AlphaNamesUnicode([s, "", s + "x"]), lambda o: list(o))
    add("resource SlicesV6 + SliceV6", "unicode",
        lambda s: IR.SlicesV6(name=s, items=[IR.SliceV6(name=s, url=s + "u", target=s, message="m" + s, alt_tag=s, cell_text=s)]),
        lambda o: (o.name, [(i.name, i.url, i.target, i.message, i.alt_tag, i.cell_text) for i in o.items]))
    add("resource URLList/URLItem", "unicode", lambda s: IR.URLList([IR.URLItem(name=s), IR.URLItem(number=1, name=s)]),
        lambda o: [i.name for i in o])
    add("resource VersionInfo", "unicode", lambda s: IR.VersionInfo(writer=s, reader=s + "r"), lambda o: (o.writer, o.reader))
    add("adjustments.GradientMap.name", "unicode",
        lambda s: ADJ.GradientMap(name=s, minimum_color=[0] * 4, maximum_color=[0] * 4), lambda o: o.name)
    add("LinkedLayer.filename+child_id", "unicode",
        lambda s: LL.LinkedLayer(kind=LinkedLayerType.DATA, version=7, uuid="u", filename=s, filesize=2, data=b"xy",
                                 child_id=s, mod_time=0.0, lock_state=0, timestamp=(2020, 1, 1, 1, 1, 1.0)),
        lambda o: (o.filename, o.child_id))
    pat = PT.Pattern.frombytes((T / "tagged_blocks" / "Patt_1.dat").read_bytes())
    pat = attr.evolve(pat, data=PT.VirtualMemoryArrayList(rectangle=(0, 0, 0, 0), channels=[]))
    try:
        PT.Pattern.frombytes(pat.tobytes())
    except Exception:  # keep the full pattern if the emptied one does not round-trip
        pat = PT.Pattern.frombytes((T / "tagged_blocks" / "Patt_1.dat").read_bytes())
    add("Pattern.name", "unicode", lambda s: attr.evolve(pat, name=s), lambda o: o.name)

    try:
        from psd_tools.psd import engine_data as ED
        add("engine_data.String (text layers: BOM + UTF-16BE, escaped)", "unicode", lambda s: ED.String(s), lambda o: o.value)
    except Exception:  # noqa
        pass

    # pascal places
    for enc in WIDE_ENCODINGS:
        add(f"LayerRecord.name legacy field, no unicode block ({enc})", ("pascal", enc),
            lambda s: LM.LayerRecord(name=s), lambda o: o.name, {"encoding": enc}, {"encoding": enc})
        add(f"ImageResource.name ({enc})", ("pascal", enc),
            lambda s: IR.ImageResource(key=1999, name=s, data=b"xy"), lambda o: o.name, {"encoding": enc}, {"encoding": enc})
    add("resource AlphaNamesPascal", ("pascal", "macroman"), lambda s: IR.AlphaNamesPascal([s, "", "c"]), lambda o: list(o))
    add("resource PascalString (written pad 1, read pad 2)", ("pascal", "macroman"), lambda s: IR.PascalString(s), lambda o: o.value)
    add("Annotation author/name/mod_date", ("pascal", "macroman"),
        lambda s: TB.Annotation(author=s, name=s, mod_date=s), lambda o: (o.author, o.name, o.mod_date))
    add("LinkedLayer.uuid", ("pascal", "macroman"),
        lambda s: LL.LinkedLayer(kind=LinkedLayerType.DATA, version=7, uuid=s, filename="f", filesize=2, data=b"xy",
                                 child_id="c", mod_time=0.0, lock_state=0, timestamp=(2020, 1, 1, 1, 1, 1.0)),
        lambda o: o.uuid)
    add("Pattern.pattern_id", ("pascal", "ascii"), lambda s: attr.evolve(pat, pattern_id=s), lambda o: o.pattern_id)
    fe = FE.FilterEffects.frombytes((T / "tagged_blocks" / "filter_effects_1.dat").read_bytes())[0]
    fe = attr.evolve(fe, channels=[FE.FilterEffectChannel() for _ in fe.channels], extra=None)
    try:
        FE.FilterEffect.frombytes(fe.tobytes())
    except Exception:
        fe = FE.FilterEffects.frombytes((T / "tagged_blocks" / "filter_effects_1.dat").read_bytes())[0]
    add("FilterEffect.uuid", ("pascal", "ascii"), lambda s: attr.evolve(fe, uuid=s), lambda o: o.uuid)
    pld = None
    try:
        psd = PSDImage.open(str(T / "psd_files" / "placedLayer.psd"))
        for l in psd.descendants():
            b = l.tagged_blocks.get_data(Tag.PLACED_LAYER2) or l.tagged_blocks.get_data(Tag.PLACED_LAYER1)
            if b is not None and hasattr(b, "uuid"):
                pld = b
                break
    except Exception:
        pld = None
    if pld is not None:
        add("PlacedLayerData.uuid", ("pascal", "macroman"), lambda s: attr.evolve(pld, uuid=s), lambda o: o.uuid)
    return places, pld is not None


def classify_unicode_failure(s, what):
    if what == "OverflowError" and has_astral(s):
        return SIG_OVERFLOW
    if what == "differs" and has_astral(s):
        return SIG_PAIR
    return None


# ---- the check -------------------------------------------------------------------------
def run(ctx: core.Run):
    warnings.simplefilter("ignore")
    gen = ctx.regenerate(extract_c19.gen_strings)
    ctx.prove(["PsdVerif.Props.C19"])
    ctx.trusted_base += [
        "Lean 4.33 kernel; axioms allowed: propext, Classical.choice, Quot.sound (audited per theorem)",
        "Model/Unicode.lean is a hand transliteration of utils.py string primitives, the Layer.name setter/getter and "
        "LayerRecord._legacy_name; tied by this run's byte-level correspondence check",
        "harness/extract_c19.py: call-site table (encoding/padding literals), name-setter constants, codec tables regenerated on every run",
        "UTF-16 of the Unicode Standard (ch. 3.9, table 3-5) as transcribed in Spec.utf16Enc/Dec; compared on every run with "
        "Python's strict utf-16-be codec and with a second transcription in the harness",
        "Python's codecs (mac_roman, mac_cyrillic, utf_8, shift_jis, ascii, cp932, latin_1, gbk, euc_kr, cp1252, big5, utf-16-be/surrogatepass)",
    ]
    ctx.assumptions += [
        "Python codecs: decode(encode(s)) == s whenever encode succeeds - proved for the Lean ascii/mac_roman/mac_cyrillic/utf_8 "
        "codecs (compared with Python's on every run), checked per code point over the whole repertoire of all eleven Python codecs on "
        "every run; it FAILS for shift_jis on U+00A5 / U+203E, for cp932 on U+00A2 U+00A3 U+00AC U+2016 U+2212 U+301C and for euc_kr on "
        "U+3164 (known findings, one signature per codec naming exactly these characters), so pascal_roundtrip takes the law as a "
        "hypothesis on the string at hand",
        "strings shorter than 2^31 characters (32-bit unit count); padding divisor != 0 (every call site passes 1, 2 or 4: theorem call_sites_tied)",
        "a Python str whose surrogates form a (high, low) pair is not a well-formed Unicode string: it is written as the pair and read as the astral character",
    ]
    quick = ctx.quick
    rng = ctx.rng
    drv = ctx.driver()

    from psd_tools import utils as U

    corpus = json.loads((core.VERIF / "harness" / "corpus" / "C19.json").read_text())
    corp_strings = [from_cps(c["cps"]) for c in corpus if c["kind"] == "string"]
    specials = special_strings()
    strings = corp_strings + specials + gen_strings(rng, quick) + boundary_strings()
    wellformed = [s for s in strings if is_scalar_str(s)]
    assert len(wellformed) == len(strings)
    allstr = strings + WEIRD

    # =============== 0. hypotheses on Python's codecs, exercised ===============
    asym = repertoire_sweep(ctx, quick)
    codec_law(ctx, drv, rng, quick)
    spec_vs_python(ctx, drv, rng, quick, wellformed)

    # =============== 1. write_unicode_string / read_unicode_string ===============
    pads_all = PADS + [3, 8, 0]
    wcases = [(s, p) for s in allstr for p in (PADS if len(s) > 40 else pads_all)]
    if quick:
        wcases = [c for k, c in enumerate(wcases) if len(c[0]) < 20 or k % 3 == 0]
    ans = drv.batch([("uni.wus", p, cps(s)) for s, p in wcases])
    written = {}
    for (s, p), a in zip(wcases, ans):
        r = py_write(U.write_unicode_string, s, p) if p != 0 else py_write(U.write_unicode_string, s, padding=0)
        m = m_bytes(a)
        ctx.corr_cases += 1
        ctx.count(("wus", s, p), nontrivial=len(s) > 0)
        ctx.hist("wus_outcome", r[1] if r[0] == "err" else "ok")
        ctx.hist("string_len", min(len(s), 255) // 32 * 32)
        if r[:2] != m:
            ctx.disagree("write_unicode_string: model != code", {"s": cps(s), "pad": p, "impl": _r(r), "model": _r(m)})
        # --- the property on the real code (model-independent)
        if p == 0:
            continue
        if r[0] == "err":
            if is_scalar_str(s):
                sig = classify_unicode_failure(s, r[1]) or f"C19/write_unicode_string/raises/{r[1]}"
                ctx.fail(sig, f"write_unicode_string raises {r[1]} for a well-formed string", {"op": "wus", "s": cps(s), "pad": p}, _r(r), "bytes")
            continue
        b, n = r[1], r[2]
        written[(s, p)] = b
        if n != len(b):
            ctx.fail("C19/write_unicode_string/returned-count-differs", "returned count != bytes written",
                     {"op": "wus", "s": cps(s), "pad": p}, n, len(b))
        if is_scalar_str(s):
            u = ref_utf16(s)
            exp = struct.pack(">I", len(u) // 2) + u
            exp += b"\x00" * (-len(exp) % p)
            if b != exp:
                ctx.fail("C19/write_unicode_string/not-utf16", "bytes are not count + UTF-16BE + zero padding",
                         {"op": "wus", "s": cps(s), "pad": p}, hx(b), hx(exp))
    ctx.sample({"wus": cps(allstr[7])[:80], "pad": 4})

    # readers: framed in a stream, writer's padding and a different padding, truncations, raw unit soup
    rcases = []
    for (s, p), b in written.items():
        if len(s) > 64 and rng.random() < (0.8 if quick else 0.3):
            continue
        pre = bytes(rng.randrange(256) for _ in range(rng.choice([0, 1, 3])))
        post = bytes(rng.randrange(256) for _ in range(rng.choice([0, 0, 2, 5])))
        rcases.append((pre + b + post, len(pre), p, ("framed", s, len(pre) + len(b))))
        q = rng.choice([x for x in PADS if x != p])
        rcases.append((pre + b + post, len(pre), q, ("value", s, None)))
        if len(b) <= 24:
            for k in range(len(b)):
                rcases.append((b[:k], 0, p, ("trunc", None, None)))
    units = [0x41, 0, 0xD800, 0xDBFF, 0xDC00, 0xDFFF, 0xD83D, 0xDC7D, 0xFFFF, 0xE000, 0x3042]
    for _ in range(400 if quick else 6000):
        n = rng.randrange(0, 7)
        body = b"".join(struct.pack(">H", rng.choice(units)) for _ in range(n))
        cnt = max(0, n + rng.choice([0, 0, 0, 0, 1, -1, 3]))
        data = struct.pack(">I", cnt) + body + bytes(rng.randrange(256) for _ in range(rng.choice([0, 0, 1, 2, 3])))
        if rng.random() < 0.2:
            data = data[:rng.randrange(len(data) + 1)]
        rcases.append((data, 0, rng.choice(PADS + [0]), ("soup", None, None)))
    for c in corpus:
        if c["kind"] == "rus":
            rcases.insert(0, (unhx(c["data"]), c["pos"], c["pad"], ("corpus", from_cps(c["expect"]) if "expect" in c else None, None)))
    ans = drv.batch([("uni.rus", p, hx(d), pos) for d, pos, p, _ in rcases])
    for (d, pos, p, (kind, s, end)), a in zip(rcases, ans):
        r = py_read(U.read_unicode_string, d, pos, p) if p != 0 else py_read(U.read_unicode_string, d, pos, padding=0)
        m = m_strpos(a)
        ctx.corr_cases += 1
        ctx.count(("rus", d, pos, p), nontrivial=len(d) > 4)
        ctx.hist("rus_kind", kind)
        ctx.hist("rus_outcome", r[1] if r[0] == "err" else "ok")
        if r != m:
            ctx.disagree("read_unicode_string: model != code", {"data": hx(d), "pos": pos, "pad": p, "impl": _r(r), "model": _r(m)})
        if kind in ("framed", "value", "corpus") and s is not None and not has_pair(s):
            if r[0] != "ok" or r[1] != s:
                sig = (SIG_PAIR if has_astral(s) and r[0] == "ok" else "C19/read_unicode_string/roundtrip-differs")
                ctx.fail(sig, "read_unicode_string(write_unicode_string(s)) != s", {"op": "rus", "data": hx(d), "pos": pos, "pad": p, "s": cps(s)},
                         _r(r), cps(s))
            elif kind == "framed" and r[2] != end:
                ctx.fail("C19/read_unicode_string/framing", "reader does not stop where the writer stopped",
                         {"op": "rus", "data": hx(d), "pos": pos, "pad": p, "s": cps(s)}, r[2], end)
        if r[0] == "ok":
            # re-save: what was read is written back unit for unit
            cnt = struct.unpack(">I", d[pos:pos + 4])[0]
            raw = d[pos + 4:pos + 4 + 2 * cnt]
            if len(raw) == 2 * cnt and p != 0:
                w = py_write(U.write_unicode_string, r[1], p)
                if w[0] != "ok" or w[1][:4 + 2 * cnt] != d[pos:pos + 4 + 2 * cnt]:
                    ctx.fail("C19/unicode-string/resave-differs", "write(read(bytes)) != bytes",
                             {"op": "rus", "data": hx(d), "pos": pos, "pad": p}, _r(w), hx(d[pos:pos + 4 + 2 * cnt]))
    ctx.sample({"rus": hx(rcases[len(rcases) // 2][0])[:80], "pad": rcases[len(rcases) // 2][2]})

    # =============== 2. write_pascal_string / read_pascal_string ===============
    pstr = [s for s in allstr if len(s) <= 24 or rng.random() < (0.15 if quick else 0.5)] + boundary_strings() + list(LOSSY_SJIS) + ["a\u00a5b"]
    pcases = [(s, enc, p) for s in pstr for enc in ENCODINGS for p in (PADS if len(s) > 8 else pads_all)]
    if quick:
        pcases = [c for k, c in enumerate(pcases) if len(c[0]) < 6 or len(c[0]) > 250 or k % 4 == 0]
    reqs = []
    for s, enc, p in pcases:
        reqs.append(("uni.wps", "table", p, cps(s), table_entry(s, enc)))
    ans_t = drv.batch(reqs)
    reqs = [("uni.wps", LEAN_CODEC[enc], p, cps(s)) for s, enc, p in pcases if enc in LEAN_CODEC]
    ans_l = iter(drv.batch(reqs))
    pwritten = {}
    for (s, enc, p), at in zip(pcases, ans_t):
        r = py_write(U.write_pascal_string, s, enc, p)
        ctx.corr_cases += 1
        ctx.count(("wps", s, enc, p), nontrivial=len(s) > 0)
        ctx.hist("wps_outcome_" + enc, r[1] if r[0] == "err" else "ok")
        mt = m_bytes(at)
        if r[:2] != mt:
            ctx.disagree("write_pascal_string: model(table codec) != code", {"s": cps(s), "enc": enc, "pad": p, "impl": _r(r), "model": _r(mt)})
        if enc in LEAN_CODEC:
            ml = m_bytes(next(ans_l))
            if r[:2] != ml:
                ctx.disagree("write_pascal_string: model(Lean codec) != code", {"s": cps(s), "enc": enc, "pad": p, "impl": _r(r), "model": _r(ml)})
        if p == 0:
            continue
        e = try_encode(s, enc)
        if e is None or len(e) > 255:
            want = "UnicodeError" if e is None else "struct.error"
            if r[0] != "err" or r[1] != want:
                ctx.fail(f"C19/write_pascal_string/{enc}/not-rejected", "unencodable or > 255 bytes must be rejected, not stored",
                         {"op": "wps", "s": cps(s), "enc": enc, "pad": p}, _r(r), want)
            continue
        if r[0] != "ok":
            ctx.fail(f"C19/write_pascal_string/{enc}/raises/{r[1]}", "encodable string within 255 bytes is rejected",
                     {"op": "wps", "s": cps(s), "enc": enc, "pad": p}, _r(r), "bytes")
            continue
        b = r[1]
        exp = bytes([len(e)]) + e
        exp += b"\x00" * (-len(exp) % p)
        if b != exp or r[2] != len(b):
            ctx.fail(f"C19/write_pascal_string/{enc}/truncated-or-altered", "bytes are not length + whole encoded string + padding",
                     {"op": "wps", "s": cps(s), "enc": enc, "pad": p}, hx(b), hx(exp))
        pwritten[(s, enc, p)] = b
    # readers
    prc = []
    for (s, enc, p), b in pwritten.items():
        pre = bytes(rng.randrange(256) for _ in range(rng.choice([0, 1, 3])))
        post = bytes(rng.randrange(256) for _ in range(rng.choice([0, 0, 2, 5])))
        prc.append((pre + b + post, len(pre), enc, p, ("framed", s, len(pre) + len(b))))
        if len(b) <= 12:
            for k in range(len(b)):
                prc.append((b[:k], 0, enc, p, ("trunc", None, None)))
    soup = [0x41, 0, 0x5C, 0x7E, 0x80, 0x82, 0xA0, 0xC3, 0xA9, 0xE3, 0x81, 0xF0, 0x9F, 0xFF, 0xED]
    for _ in range(300 if quick else 5000):
        n = rng.randrange(0, 6)
        data = bytes([max(0, n + rng.choice([0, 0, 0, 1, -1]))]) + bytes(rng.choice(soup) for _ in range(n)) + bytes(rng.randrange(3))
        prc.append((data, 0, rng.choice(ENCODINGS), rng.choice(PADS + [0]), ("soup", None, None)))
    reqs = []
    for d, pos, enc, p, _ in prc:
        tab = "-"
        if pos < len(d):
            raw = d[pos + 1:pos + 1 + d[pos]]
            if len(raw) == d[pos]:
                dec = try_decode(raw, enc)
                if dec is not None:
                    tab = f"{cps(dec)}={hx(raw)}"
        reqs.append(("uni.rps", "table", p, hx(d), pos, tab))
    ans_t = drv.batch(reqs)
    ans_l = iter(drv.batch([("uni.rps", LEAN_CODEC[enc], p, hx(d), pos) for d, pos, enc, p, _ in prc if enc in LEAN_CODEC]))
    for (d, pos, enc, p, (kind, s, end)), at in zip(prc, ans_t):
        r = py_read(U.read_pascal_string, d, pos, enc, p)
        ctx.corr_cases += 1
        ctx.count(("rps", d, pos, enc, p), nontrivial=len(d) > 1)
        ctx.hist("rps_kind", kind)
        ctx.hist("rps_outcome", r[1] if r[0] == "err" else "ok")
        mt = m_strpos(at)
        if r != mt:
            ctx.disagree("read_pascal_string: model(table codec) != code", {"data": hx(d), "pos": pos, "enc": enc, "pad": p, "impl": _r(r), "model": _r(mt)})
        if enc in LEAN_CODEC:
            ml = m_strpos(next(ans_l))
            if r != ml:
                ctx.disagree("read_pascal_string: model(Lean codec) != code", {"data": hx(d), "pos": pos, "enc": enc, "pad": p, "impl": _r(r), "model": _r(ml)})
        if kind == "framed":
            if r[0] != "ok" or r[1] != s:
                lossy = r[0] == "ok" and asym_explains(asym, enc, s, r[1])
                ctx.fail(sig_codec_asym(enc, asym) if lossy else f"C19/read_pascal_string/{enc}/roundtrip-differs",
                         "read_pascal_string(write_pascal_string(s)) != s for an encodable string",
                         {"op": "rps", "data": hx(d), "pos": pos, "enc": enc, "pad": p, "s": cps(s)}, _r(r), cps(s))
            elif r[2] != end:
                ctx.fail(f"C19/read_pascal_string/{enc}/framing", "reader does not stop where the writer stopped",
                         {"op": "rps", "data": hx(d), "pos": pos, "enc": enc, "pad": p, "s": cps(s)}, r[2], end)

    # =============== 3. every storage place (element classes, Python oracle) ===============
    places, have_pld = storage_places()
    if not have_pld:
        ctx.skipped.append("PlacedLayerData.uuid: no instance could be taken from placedLayer.psd")
    short = [s for s in wellformed if len(s) <= 12]
    pool_u = corp_strings + specials + rng.sample(short, min(len(short), 10 if quick else 40)) + \
        rng.sample(wellformed, 6 if quick else 40) + ["\U0001F47D" * 255, "\x00" * 255, "e\u0301" * 100]
    pool_p = corp_strings + specials + rng.sample(short, min(len(short), 10 if quick else 40)) + boundary_strings()[:8] + \
        ["\u00e9", "\u0416", "\u3042", "?", "\x00a\x00", "\u00e9" * 255, "\u00e9" * 128]
    pool_u = list(dict.fromkeys(pool_u))
    pool_p = list(dict.fromkeys(pool_p))
    for label, kind, make, get, wk, rk in places:
        pool = pool_u if kind == "unicode" else pool_p
        for s in pool:
            ctx.count(("place", label, s), nontrivial=len(s) > 0)
            ctx.hist("place", label)
            try:
                obj = make(s)
                want = get(obj)
            except Exception as e:  # constructor validation
                ctx.hist("place_ctor_rejects", label)
                continue
            try:
                b = obj.tobytes(**wk)
            except Exception as e:  # noqa
                c = ecls(e)
                if kind == "unicode":
                    sig = classify_unicode_failure(s, c) or f"C19/place/{label}/write-raises/{c}"
                    ctx.fail(sig, f"{label}: writing a well-formed string raises {c}", {"op": "place", "label": label, "s": cps(s)}, c, "bytes")
                else:
                    enc = kind[1]
                    e2 = try_encode(s, enc)
                    if e2 is not None and len(e2) <= 255:
                        ctx.fail(f"C19/place/{label}/write-raises/{c}", f"{label}: encodable string rejected", {"op": "place", "label": label, "s": cps(s)}, c, "bytes")
                    elif c not in ("UnicodeError", "struct.error"):
                        ctx.fail(f"C19/place/{label}/rejects-with/{c}", f"{label}: wrong rejection", {"op": "place", "label": label, "s": cps(s)}, c, "UnicodeError or struct.error")
                continue
            if kind != "unicode":
                e2 = try_encode(s, kind[1])
                if e2 is None or len(e2) > 255:
                    ctx.fail(f"C19/place/{label}/not-rejected", f"{label}: unencodable or too long string was stored",
                             {"op": "place", "label": label, "s": cps(s)}, hx(b)[:80], "UnicodeError or struct.error")
                    continue
            try:
                got = get(type(obj).frombytes(b, **rk))
            except Exception as e:  # noqa
                ctx.fail(f"C19/place/{label}/read-raises/{ecls(e)}", f"{label}: cannot re-read what was written",
                         {"op": "place", "label": label, "s": cps(s)}, ecls(e), "value")
                continue
            if got != want:
                lossy = False
                if kind != "unicode" and asym_explains(asym, kind[1], s, None):
                    try:
                        lossy = got == get(make(py_roundtrip(s, kind[1])))
                    except Exception:  # noqa
                        lossy = False
                sig = sig_codec_asym(kind[1], asym) if lossy else (classify_unicode_failure(s, "differs") if kind == "unicode" else None) or f"C19/place/{label}/roundtrip-differs"
                ctx.fail(sig, f"{label}: frombytes(tobytes(x)) != x", {"op": "place", "label": label, "s": cps(s)}, repr(got)[:120], repr(want)[:120])

    # =============== 4. the layer name: setter -> save -> open, bytes vs model ===============
    name_matrix(ctx, drv, quick)
    name_path(ctx, drv, rng, quick, corp_strings, wellformed)
    rename_histories(ctx, quick)

    ctx.rule = (
        "strings: corpus witnesses + one seeded string of every length 0..255 over mixed classes {ascii, MacRoman-only latin, Cyrillic, "
        "Japanese, combining marks, NUL, BMP edges, astral} + each class alone at lengths 1,2,3,127,128,254,255 + strings whose encoded "
        "length is 254..257 in each pascal codec + non-well-formed Python strs (unpaired / paired surrogates; correspondence only); "
        "x padding {1,2,4} (short strings also 3, 8, 0) x pascal codec {macroman, maccyrillic, utf_8, shift_jis, ascii}; readers on the "
        "written bytes embedded in random context (same and different padding), every truncation of short encodings, random unit / byte soup "
        "with wrong counts; %d storage places x string pool (Python == oracle); name path on API-created and fixture documents x 5 codecs. "
        "Seed-independent sweeps in front of the seeded streams: (a) %d strings that put each of %d characters a normaliser / sanitiser / "
        "terminator-stripper would touch (U+FEFF, U+FFFE, NUL, U+200B-U+200F, U+2028/9, astral, a combining mark, spaces, CR/LF, U+00A0, "
        "precomposed vs decomposed, compatibility forms, the shift_jis / cp932 look-alikes ...) alone, at the start, in the middle, at the end "
        "and doubled - through the primitives, every storage place (engine-data String included) and as layer names; (b) for each of "
        "%d legacy encodings the codec's WHOLE repertoire (every Unicode scalar value it encodes, found by trying all 1 112 064) through "
        "write_pascal_string / read_pascal_string, a layer record's legacy name and an image resource name; (c) every text-bearing API "
        "entry point (name setter on three kinds of layer, Group.new, Group.group_layers, PixelLayer.frompil into 8- and 16-bit documents "
        "and into a group) x %d classes of name x every one of those encodings as save/open `encoding`. "
        "A case is non-trivial when the string is non-empty (writers) / the stream is longer than its count field (readers); distinct = distinct "
        "(op, string or bytes, codec, padding) tuples." % (len(places), len(specials), len(SPECIAL_CHARS), len(WIDE_ENCODINGS), len(NAME_CLASSES))
    )
    ctx.model_coverage = {
        "modelled_byte_level": ["write_unicode_string", "read_unicode_string", "write_pascal_string", "read_pascal_string",
                                "write_padding", "read_padding", "Layer.name setter/getter", "LayerRecord._legacy_name",
                                "Group.new / Group.group_layers name (newGroupName)", "PixelLayer.frompil name (frompilName)",
                                "codecs ascii, mac_roman, mac_cyrillic, utf_8 (Lean, lawful by theorem)"],
        "table_codec": ["shift_jis, cp932, latin_1, gbk, euc_kr, cp1252, big5 (encode/decode results passed to the model per case)"],
        "python_oracle_only": [p[0] for p in places],
        "call_sites_in_source": gen["sites"],
    }
    ctx.extra["generated_constants"] = {k: v for k, v in gen.items() if k != "site_list"}
    ctx.notes += [
        "PascalString (CAPTION_PASCAL / CLIPPING_PATH_NAME) is written with padding 1 and read with the default padding 2; harmless "
        "because the element is the whole resource payload (value round-trips; the reader may consume one byte of following data otherwise)",
        "read_unicode_string / read_pascal_string padding reads are lenient at the end of the stream (short read, no error): modelled as such",
        "layer records of 16/32-bit documents live in Lr16/Lr32 tagged blocks, to which TaggedBlock.read/write do not forward the "
        "`encoding` option: their legacy fields are always MacRoman (consistent in both directions; known finding for legacy-only names); "
        "the byte-level comparison of the name path uses the encoding that actually reaches LayerRecord._write_extra",
        "the name setter tests MacRoman whatever the document encoding is: a name such as U+3042 gets '?' in the legacy field even when the "
        "file is saved as shift_jis; the unicode block keeps the name, so the property holds",
    ]
    ctx.notes += [
        "ties added after the round-3 seeds: nameEntryPoints (every API function that stores a caller-supplied layer name also stores the "
        "unicode block unconditionally - name_entry_points_tied; the theorems name_keeps_unicode_any_record / group_new_keeps_unicode / "
        "frompil_keeps_unicode quantify over the save encoding), primitiveCodecs (the pascal reader decodes with the parameter the writer "
        "encodes with, never rebound - primitive_codecs_tied), codecPairs (reader codec = writer codec, call site by call site - "
        "reader_codec_is_writer_codec), readerUses (no call site post-processes the string it read - reader_values_unprocessed)",
    ]
    if ctx.tier == "thorough":
        ctx.recheck(["PsdVerif.Props.C19"])


def sig_codec_asym(enc, asym):
    """Signature of 'Python's own codec does not decode what it encoded': specific to the codec and to the exact set of
    characters on which that codec is not injective (computed over the codec's whole repertoire in this run)."""
    a = asym.get(enc) or set()
    if enc == "shift_jis" and a == {0xA5, 0x203E}:
        return SIG_SJIS
    return f"C19/pascal/{enc}/python-codec-does-not-decode-what-it-encoded/" + "-".join(f"U+{c:04X}" for c in sorted(a))


def py_roundtrip(s, enc):
    b = try_encode(s, enc)
    return None if b is None else try_decode(b, enc)


def asym_explains(asym, enc, s, got):
    """True when `got` (what the library read back for `s`) is exactly what Python's codec makes of its own encoding of
    `s`, and it differs from `s` only at characters on which that codec is not injective."""
    a = asym.get(enc) or set()
    s2 = py_roundtrip(s, enc)
    if not a or s2 is None or s2 == s or len(s2) != len(s):
        return False
    if any(x != y and ord(x) not in a for x, y in zip(s, s2)):
        return False
    return got is None or got == s2


def codec_repertoire(enc):
    """[(code point, encoded length)] for every Unicode scalar value the Python codec `enc` encodes, and the set of those
    it does not decode back (decode(encode(c)) != c)."""
    rep, bad = [], set()
    planes = [range(0, 0xD800), range(0xE000, 0x10000)]
    astral = "".join(map(chr, range(0x10000, 0x110000)))
    if astral.encode(enc, "ignore"):
        planes.append(range(0x10000, 0x110000))
    for r in planes:
        for c in r:
            ch = chr(c)
            b = ch.encode(enc, "ignore")
            if not b:
                continue
            rep.append((c, len(b)))
            if try_decode(b, enc) != ch:
                bad.add(c)
    return rep, bad


def repertoire_sweep(ctx, quick):
    """For each supported legacy encoding: EVERY character the codec can encode goes through write_pascal_string /
    read_pascal_string, through a whole layer record (legacy name field, no unicode block) and through an image resource
    name, packed into strings of at most 255 encoded bytes; a string that does not come back is narrowed to its characters.
    Oracle: the Unicode text itself (Python ==). A character on which Python's own codec is not injective is the
    known, codec-specific finding; any other is a failing input. Returns {enc: set of non-injective code points}."""
    from psd_tools import utils as U
    from psd_tools.psd import image_resources as IR, layer_and_mask as LM
    asym = {}

    def via_pascal(s, enc, pad):
        w = py_write(U.write_pascal_string, s, enc, pad)
        if w[0] != "ok":
            return w, None
        return py_read(U.read_pascal_string, w[1], 0, enc, pad), w[1]

    def via_record(s, enc, pad):
        try:
            b = LM.LayerRecord(name=s).tobytes(encoding=enc)
            return ("ok", LM.LayerRecord.frombytes(b, encoding=enc).name, None), b
        except Exception as e:  # noqa
            return ("err", ecls(e)), None

    def via_resource(s, enc, pad):
        try:
            b = IR.ImageResource(key=1999, name=s, data=b"xy").tobytes(encoding=enc)
            return ("ok", IR.ImageResource.frombytes(b, encoding=enc).name, None), b
        except Exception as e:  # noqa
            return ("err", ecls(e)), None

    paths = [("write_pascal_string/read_pascal_string", "rps", via_pascal), ("LayerRecord legacy name", "oldname", via_record),
             ("ImageResource name", "resname", via_resource)]
    for enc in WIDE_ENCODINGS:
        rep, bad = codec_repertoire(enc)
        asym[enc] = bad
        ctx.count(("repertoire", enc), nontrivial=True, n=len(rep))
        ctx.hist("codec_repertoire", enc, len(rep))
        ctx.hist("codec_law_violations", enc, len(bad))
        chunks, cur, size = [], [], 0
        for c, n in rep:
            if size + n > 255 or len(cur) >= 96:
                chunks.append("".join(cur))
                cur, size = [], 0
            cur.append(chr(c))
            size += n
        if cur:
            chunks.append("".join(cur))
        for pi, (pname, op, via) in enumerate(paths):
            if pi > 0 and len(rep) > 70000:
                # utf_8 and the like: the whole repertoire through the primitives, every 7th string through the element classes
                todo = chunks[::7]
            else:
                todo = chunks
            culprits = {}          # known? -> [(char, input, observed)]
            for k, s in enumerate(todo):
                pad = PADS[k % 3]
                r, data = via(s, enc, pad)
                ctx.count(None, n=1)
                if r[0] == "ok" and r[1] == s:
                    continue
                # narrow to the characters
                found = 0
                for ch in s:
                    r1, d1 = via(ch, enc, pad)
                    if r1[0] == "ok" and r1[1] == ch:
                        continue
                    found += 1
                    # Python's own codec does not give the character back (another character, or bytes it refuses to decode)
                    # and the library shows exactly that
                    back = py_roundtrip(ch, enc)
                    known = ord(ch) in bad and ((r1[0] == "ok" and r1[1] == back) or (r1[0] == "err" and r1[1] == "UnicodeError" and back is None))
                    if op == "rps" and d1:
                        inp = {"op": "rps", "data": hx(d1), "pos": 0, "enc": enc, "pad": pad, "s": cps(ch)}
                    elif op == "rps":
                        inp = {"op": "wps", "s": cps(ch), "enc": enc, "pad": pad}
                    else:
                        inp = {"op": op, "s": cps(ch), "enc": enc}
                    culprits.setdefault(known, []).append((ch, inp, _r(r1)))
                if found == 0:
                    inp = {"op": op, "s": cps(s), "enc": enc, "pad": pad, "pos": 0, "data": hx(data) if data else "-"}
                    ctx.fail(f"C19/repertoire/{enc}/{pname}/string-does-not-round-trip-though-its-characters-do",
                             f"{pname} ({enc}): a string of encodable characters is not read back", inp, _r(r), cps(s))
            for known, lst in culprits.items():
                ch, inp, obs = lst[0]
                allc = " ".join(f"U+{ord(c):04X}" for c, _, _ in lst[:40]) + (" ..." if len(lst) > 40 else "")
                ctx.fail(sig_codec_asym(enc, asym) if known else f"C19/repertoire/{enc}/{pname}/encodable-character-does-not-round-trip",
                         f"{pname} ({enc}): {len(lst)} character(s) the codec encodes are not read back: {allc}",
                         dict(inp, all_failing=allc), obs, cps(ch))
    ctx.extra["codec_not_injective_on"] = {e: [f"U+{c:04X}" for c in sorted(b)] for e, b in asym.items() if b}
    return asym


def codec_law(ctx, drv, rng, quick):
    """Lean codecs == Python codecs (the law decode(encode(c)) == c of Python's codecs is swept by repertoire_sweep)."""
    # Lean codecs against Python's
    reqs, exp = [], []
    pool = "".join(CLASSES.values()) + "\u00a5\u203e\u00a0\u2020\u0490\u20ac"
    for enc, lean in LEAN_CODEC.items():
        for c in list(range(0, 0x500)) + [0x2020, 0x20AC, 0xD7FF, 0xD800, 0xDFFF, 0xE000, 0xFFFF, 0x10000, 0x10FFFF, 0x1F47D] + \
                [rng.randrange(0x110000) for _ in range(200 if quick else 3000)]:
            reqs.append(("uni.codec", lean, "e", str(c)))
            b = try_encode(chr(c), enc)
            exp.append(("ok", hx(b)) if b is not None else ("err", "UnicodeError"))
        for _ in range(150 if quick else 2000):
            s = "".join(rng.choice(pool) for _ in range(rng.randrange(0, 6)))
            reqs.append(("uni.codec", lean, "e", cps(s)))
            b = try_encode(s, enc)
            exp.append(("ok", hx(b)) if b is not None else ("err", "UnicodeError"))
        blobs = [bytes([x]) for x in range(256)]
        if enc == "utf_8":
            lead = [0x00, 0x7F, 0x80, 0xBF, 0xC0, 0xC1, 0xC2, 0xDF, 0xE0, 0xE1, 0xED, 0xEE, 0xEF, 0xF0, 0xF1, 0xF4, 0xF5, 0xFF, 0x9F, 0xA0, 0x8F, 0x90]
            for _ in range(1500 if quick else 20000):
                blobs.append(bytes(rng.choice(lead) for _ in range(rng.randrange(1, 6))))
            for a in lead:
                for b2 in lead:
                    blobs.append(bytes([a, b2]))
                    blobs.append(bytes([a, b2, 0x80]))
                    blobs.append(bytes([a, b2, 0x80, 0xBF]))
        for bb in blobs:
            reqs.append(("uni.codec", lean, "d", hx(bb)))
            d = try_decode(bb, enc)
            exp.append(("ok", cps(d)) if d is not None else ("err", "UnicodeError"))
    ans = drv.batch(reqs)
    for rq, a, e in zip(reqs, ans, exp):
        ctx.corr_cases += 1
        ctx.count(("codec", rq[1], rq[2], rq[3]))
        got = (a[0], a[1] if len(a) > 1 else "")
        if got != e:
            ctx.disagree("Lean codec != Python codec", {"req": list(rq), "python": list(e), "model": list(got)})
    ctx.hist("codec_cases", "lean-vs-python", len(reqs))


def spec_vs_python(ctx, drv, rng, quick, wellformed):
    """Spec.utf16Enc/Dec (transcribed from the standard) against Python's strict utf-16-be codec."""
    ss = [s for s in wellformed if len(s) <= 40][: (150 if quick else 1500)]
    ans = drv.batch([("uni.spec16enc", cps(s)) for s in ss])
    for s, a in zip(ss, ans):
        ctx.corr_cases += 1
        b = s.encode("utf-16-be")
        exp = ",".join(str(x) for x in struct.unpack(">%dH" % (len(b) // 2), b)) if b else "-"
        if a[0] != "ok" or a[1] != exp or b != ref_utf16(s):
            ctx.disagree("Spec.utf16Enc != Python utf-16-be", {"s": cps(s), "model": a, "python": exp})
    units = [0x41, 0, 0xD7FF, 0xD800, 0xDBFF, 0xDC00, 0xDFFF, 0xE000, 0xFFFF, 0xD83D, 0xDC7D]
    cases = [[u] for u in units] + [[u, v] for u in units for v in units]
    for _ in range(300 if quick else 5000):
        cases.append([rng.choice(units) for _ in range(rng.randrange(0, 6))])
    ans = drv.batch([("uni.spec16dec", ",".join(map(str, u)) if u else "-") for u in cases])
    for u, a in zip(cases, ans):
        ctx.corr_cases += 1
        ctx.count(("spec16dec", tuple(u)))
        d = try_decode(struct.pack(">%dH" % len(u), *u), "utf-16-be")
        exp = ("ok", cps(d)) if d is not None else ("err", "ILL-FORMED")
        if (a[0], a[1]) != exp:
            ctx.disagree("Spec.utf16Dec != Python strict utf-16-be", {"units": u, "model": a, "python": list(exp)})


# ---- the layer name through the API ---------------------------------------------------------
def _img():
    from PIL import Image
    return Image.new("RGB", (4, 4), (9, 8, 7))


def name_makers():
    """label -> (mode, make(name) -> (psd, index of the named layer among descendants())).
    mode 'set': the layer exists under another name and `layer.name = name` is applied by the caller;
    'new' / 'frompil': the name is given to the creating call (Group.new / Group.group_layers, PixelLayer.frompil)."""
    from psd_tools import PSDImage
    from psd_tools.api.layers import Group, PixelLayer

    def doc(depth=8):
        return PSDImage.new("RGB", (8, 8), depth=depth) if depth != 8 else PSDImage.new("RGB", (8, 8))

    def pixel(p, name):
        l = PixelLayer.frompil(_img(), p, name)
        if l not in list(p):
            p.append(l)
        return l

    def set_group(n):
        p = doc()
        Group.new("x", parent=p)
        return p, 0

    def set_pixel(n):
        p = doc()
        pixel(p, "x")
        return p, 0

    def set_nested(n):
        p = doc()
        g = Group.new("g", parent=p)
        l = PixelLayer.frompil(_img(), p, "x")
        if l in list(p):
            p.remove(l)
        g.append(l)
        return p, 1

    def new_group(n):
        p = doc()
        Group.new(n, parent=p)
        return p, 0

    def new_group_layers(n):
        p = doc()
        l = pixel(p, "x")
        Group.group_layers([l], name=n)
        return p, 0

    def frompil(n):
        p = doc()
        pixel(p, n)
        return p, 0

    def frompil16(n):
        p = doc(16)
        pixel(p, n)
        return p, 0

    def frompil_in_new_group(n):
        p = doc()
        g = Group.new("g", parent=p)
        l = PixelLayer.frompil(_img(), p, n)
        if l in list(p):
            p.remove(l)
        g.append(l)
        return p, 1

    return {
        "api:group": ("set", set_group), "api:pixel": ("set", set_pixel), "api:pixel-in-group": ("set", set_nested),
        "api:Group.new": ("new", new_group), "api:Group.group_layers": ("new", new_group_layers),
        "api:PixelLayer.frompil": ("frompil", frompil), "api:PixelLayer.frompil(16-bit document)": ("frompil", frompil16),
        "api:PixelLayer.frompil-into-group": ("frompil", frompil_in_new_group),
    }


def name_case(ctx, label, mode, mk, n, enc, reqs, info):
    """One name through the API: create / rename, observe at once, save(encoding=enc), open(encoding=enc), compare with the
    Unicode text given (the property, model-independent); then queue the byte-level comparison with the model."""
    import io as _io
    from psd_tools import PSDImage
    from psd_tools.constants import Tag
    from psd_tools.psd import layer_and_mask as LM

    ctx.count(("name", label, n, enc), nontrivial=len(n) > 0)
    ctx.hist("name_doc", label.split(":")[0] if label.startswith("fixture") else label)
    ctx.hist("name_enc", enc)
    inp = {"op": "name", "doc": label, "s": cps(n), "enc": enc}
    try:
        psd, idx = mk(n)
        layer = list(psd.descendants())[idx]
        kind = layer.kind
    except Exception as e:  # noqa
        if mode == "set":
            ctx.hist("name_doc_not_prepared", type(e).__name__)
        else:
            ctx.fail(f"C19/name/{label}/creation-raises/{ecls(e)}", f"{label}: creating a layer with a well-formed name shorter than 256 raises",
                     inp, ecls(e), "layer")
        return
    ctx.hist("name_layer_kind", kind)
    if mode == "set":
        try:
            layer.name = n
        except Exception as e:  # noqa
            ctx.fail(f"C19/name/setter-raises/{ecls(e)}", "layer.name = s raises for a well-formed name shorter than 256",
                     inp, ecls(e), "stored")
            return
    if layer.name != n:
        ctx.fail("C19/name/not-observable-at-once", "layer.name != s right after the assignment / creation", inp, cps(layer.name), cps(n))
    rec = layer._record
    mem_legacy = rec.name
    blk = rec.tagged_blocks.get(Tag.UNICODE_LAYER_NAME) if rec.tagged_blocks is not None else None
    ub = None
    if blk is not None:
        try:
            tb = blk.tobytes(padding=1)
            ub = tb[12:12 + struct.unpack(">I", tb[8:12])[0]]
        except Exception as e:  # noqa
            ub = ("err", ecls(e))
    # the Pascal field as the real save emits it for this record, and the encoding that reaches it
    # (layer records inside Lr16/Lr32 blocks are written and read with the default MacRoman whatever
    # `encoding` is passed to save/open: TaggedBlock.write does not forward it)
    state = {"on": False, "enc": None, "lb": None}
    orig = LM.write_pascal_string
    orig_we = LM.LayerRecord._write_extra

    def spy(fp, value, encoding="macroman", padding=2):
        start = fp.tell()
        w = orig(fp, value, encoding, padding)
        if state["on"] and state["lb"] is None:
            cur = fp.tell()
            fp.seek(start)
            state["lb"] = fp.read(w)
            fp.seek(cur)
        return w

    def we(self, fp, encoding, version):
        if self is rec:
            state["on"], state["enc"] = True, encoding
        try:
            return orig_we(self, fp, encoding, version)
        finally:
            state["on"] = False

    out = _io.BytesIO()
    LM.write_pascal_string = spy
    LM.LayerRecord._write_extra = we
    rec_err = None
    try:
        try:
            psd.save(out, encoding=enc)
        except Exception as e:  # noqa
            rec_err = ecls(e)
    finally:
        LM.write_pascal_string = orig
        LM.LayerRecord._write_extra = orig_we
    lb = state["lb"]
    enc_eff = state["enc"] or enc
    if enc_eff != enc:
        ctx.hist("name_effective_encoding_differs", f"{enc}->{enc_eff}")
    if rec_err is not None:
        res = ("err", rec_err)
    else:
        try:
            q = PSDImage.open(_io.BytesIO(out.getvalue()), encoding=enc)
            l2 = list(q.descendants())[idx]
            res = ("ok", l2.name, l2._record.name, l2.kind)
        except Exception as e:  # noqa
            res = ("err", ecls(e))
    # --- property on the real code
    if res[0] == "err":
        e0 = try_encode(mem_legacy, enc_eff)
        if res[1] == "UnicodeError" and e0 is None:
            sig = SIG_NAME_UNENC
        elif res[1] == "struct.error" and e0 is not None and len(e0) > 255:
            sig = SIG_NAME_LONG
        else:
            sig = classify_unicode_failure(n, res[1]) or f"C19/name/save-open-raises/{res[1]}"
        ctx.fail(sig, f"{label}: name = s; save(encoding); open(encoding) fails", inp, res[1], cps(n))
    elif res[1] != n:
        sig = classify_unicode_failure(n, "differs") or "C19/name/lost-after-save-open"
        ctx.fail(sig, f"{label}: name = s; save; open; name != s", inp, cps(res[1]), cps(n))
    elif res[3] != kind:
        ctx.fail("C19/name/layer-kind-changed", "the named layer changed kind after save/open", inp, res[3], kind)
    # --- byte-level correspondence with the model
    tab = ";".join(sorted({table_entry(n, enc_eff), table_entry("?", enc_eff), table_entry(mem_legacy, enc_eff)}))
    reqs.append(("uni.name", "table", mode, cps(n), "-", tab))
    info.append((inp, mem_legacy, lb, ub, rec_err, res, enc_eff))
    if enc_eff in LEAN_CODEC:
        reqs.append(("uni.name", LEAN_CODEC[enc_eff], mode, cps(n), "-"))
        info.append((inp, mem_legacy, lb, ub, rec_err, res, enc_eff))


def name_model_compare(ctx, drv, reqs, info):
    ans = drv.batch(reqs)
    for rq, a, (inp, mem_legacy, lb, ub, rec_err, res, enc) in zip(reqs, ans, info):
        ctx.corr_cases += 1
        if a[0] == "ok":
            m_leg, m_lb, m_ub, m_leg2, m_name = a[1], a[2], a[3], a[4], a[5]
            impl = [cps(mem_legacy), hx(lb) if lb is not None else f"err:{rec_err}", hx(ub) if isinstance(ub, bytes) else str(ub)]
            model = [m_leg, m_lb, m_ub]
            if res[0] == "ok":
                impl.append(cps(res[1]))
                model.append(m_name)
                x = from_cps(m_leg2)          # the string whose encoding the model wrote into the legacy field
                ex = try_encode(x, enc)
                if ex is not None and try_decode(ex, enc) == x:   # codec lawful on it: the re-read legacy name is determined
                    impl.append(cps(res[2]))
                    model.append(m_leg2)
                else:
                    ctx.hist("name_legacy_reread_skipped", "codec-not-lawful-on-legacy-string")
            else:
                impl.append("err:" + res[1])
                model.append(m_name)
            if impl != model or a[6] != "true":
                ctx.disagree("name path: model != code", {"input": inp, "codec": rq[1], "impl": impl, "model": model})
        else:
            stage = a[1]
            impl = f"write:{rec_err}" if rec_err else "ok"
            if stage != impl:
                ctx.disagree("name path: model != code (error)", {"input": inp, "codec": rq[1], "impl": impl, "model": stage})


# ---- rename histories: the name a layer HAD must not matter ---------------------------------------
RENAME_ENCODINGS = ["macroman", "utf_8", "maccyrillic"]


def _save_open_name(psd, idx, enc):
    from psd_tools import PSDImage
    out = io.BytesIO()
    psd.save(out, encoding=enc)
    q = PSDImage.open(io.BytesIO(out.getvalue()), encoding=enc)
    l2 = list(q.descendants())[idx]
    return l2.name, l2._record.name


def rename_name_set():
    """-> (names, collides): the name classes of NAME_CLASSES plus every literal text a stored form of one of them
    collides with, DERIVED on the real code and from Python's codecs: the legacy field the library keeps in memory after
    the name was set ("?" after a name MacRoman cannot express), the legacy field of the saved file as read back under
    every rename encoding (fallback / truncated forms of long names), decode(encode(n)) for every codec where it is not n
    (non-injective codecs), the 'replace' / 'ignore' forms under the legacy codecs, NFC / NFD forms (equal legacy forms
    of different Unicode strings), prefixes at the field-width boundaries. collides[a] = set of texts derived from a."""
    import unicodedata
    makers = name_makers()
    mode, mk = makers["api:pixel"]
    base = list(dict.fromkeys(list(NAME_CLASSES.values()) + ["\U0001F47D alien", "nul\x00name", "\u1eb9\u0301", "\u00e9", "??", "? "]))
    names = list(base)
    collides = {}

    def derive(n):
        out = []
        try:
            psd, idx = mk(n)
            layer = list(psd.descendants())[idx]
            layer.name = n
            out.append(layer._record.name)
            for enc in RENAME_ENCODINGS:
                try:
                    out.append(_save_open_name(psd, idx, enc)[1])
                except Exception:  # noqa (judged by name_case)
                    pass
        except Exception:  # noqa
            pass
        for enc in WIDE_ENCODINGS:
            b = try_encode(n, enc)
            if b is not None:
                d = try_decode(b, enc)
                if d is not None:
                    out.append(d)
        for enc in ("macroman", "maccyrillic", "ascii", "latin_1"):
            for how in ("replace", "ignore"):
                try:
                    out.append(n.encode(enc, how).decode(enc))
                except Exception:  # noqa
                    pass
        out += [unicodedata.normalize("NFC", n), unicodedata.normalize("NFD", n), n[:31], n[:63], n[:127], n[:254]]
        return [x for x in dict.fromkeys(out) if isinstance(x, str) and x != n and len(x) < 256 and is_scalar_str(x)]

    for n in base:
        collides[n] = set(derive(n))
        for x in collides[n]:
            if x not in names:
                names.append(x)
    for n in names:
        if n not in collides:
            collides[n] = set(derive(n)) & set(names)
    return names, collides


def rename_case(ctx, label, mode, mk, history, enc, every_step, kind, save=True):
    """first name through the creating call / the setter, the following ones through the setter; get-after-set after
    every step, save(encoding) -> open(encoding) after every step (every_step) or after the last one."""
    inp = {"op": "rename", "doc": label, "names": [cps(n) for n in history], "enc": enc}
    ctx.count(("rename", label, tuple(history), enc), nontrivial=True)
    ctx.hist("rename_history", kind)
    try:
        psd, idx = mk(history[0])
        layer = list(psd.descendants())[idx]
    except Exception as e:  # noqa
        ctx.hist("rename_doc_not_prepared", type(e).__name__)
        return
    for step, n in enumerate(history):
        upto = dict(inp, names=[cps(x) for x in history[:step + 1]])
        if step > 0 or mode == "set":
            try:
                layer.name = n
            except Exception as e:  # noqa
                ctx.fail(f"C19/rename/setter-raises/{ecls(e)}/{kind}", "layer.name = s raises for a well-formed name shorter than 256 "
                         "after the layer had other names", upto, ecls(e), "stored")
                return
        if layer.name != n:
            ctx.fail(f"C19/rename/not-observable-at-once/{kind}", "layer.name != s right after the assignment (the layer had other names before)",
                     upto, cps(layer.name), cps(n))
            return
        if save and (every_step or step == len(history) - 1):
            try:
                got = _save_open_name(psd, idx, enc)[0]
            except Exception as e:  # noqa
                sig = classify_unicode_failure(n, ecls(e)) or f"C19/rename/save-open-raises/{ecls(e)}/{kind}"
                ctx.fail(sig, "rename history; save(encoding); open(encoding) fails", upto, ecls(e), cps(n))
                return
            if got != n:
                sig = classify_unicode_failure(n, "differs") or f"C19/rename/lost-after-save-open/{kind}"
                ctx.fail(sig, "rename history; save; open; name != the last name set", upto, cps(got), cps(n))
                return


def rename_histories(ctx, quick):
    """Seed-independent. Every ordered pair (first, second) of the derived name set as a two-step history on a rotating
    entry point and encoding; every pair whose second name is a text that a STORED FORM of the first collides with (and
    the pair of equal names) on every entry point x every rename encoding, with a third step back to the first name."""
    names, collides = rename_name_set()
    makers = [(label, mode, mk) for label, (mode, mk) in name_makers().items()]
    ctx.extra["rename_names"] = len(names)
    k = 0
    pairs = [(a, b) for a in names for b in names if a != b]
    if quick:
        # long x long pairs add nothing the boundary pairs do not have; keep the quick tier quick
        pairs = [(a, b) for a, b in pairs if len(a) < 100 or len(b) < 100]
    for a, b in pairs:
        if b in collides.get(a, ()):
            continue
        label, mode, mk = makers[k % len(makers)]
        enc = RENAME_ENCODINGS[(k // len(makers)) % len(RENAME_ENCODINGS)]
        k += 1
        # get-after-set on every pair; in the quick tier the save -> open of one pair in five
        rename_case(ctx, label, mode, mk, [a, b], enc, False, "second-name-unrelated", save=(not quick or k % 5 == 0))
    n_coll = 0
    for a in names:
        for b in sorted(collides.get(a, ())) + [a]:
            for j, (label, mode, mk) in enumerate(makers):
                for e, enc in enumerate(RENAME_ENCODINGS):
                    if quick and (j + n_coll) % 4 != e:      # quick: two entry points per pair, encodings rotating
                        continue
                    rename_case(ctx, label, mode, mk, [a, b, a] if a != b else [a, a], enc, True,
                                "second-name-is-a-stored-form-of-the-first" if a != b else "same-name-twice")
            n_coll += 1
    ctx.extra["rename_histories"] = k + n_coll


NAME_CLASSES = {
    "empty": "", "ascii": "Layer 1", "macroman-latin": "Caf\u00e9 \u00a9 2024", "macroman-greek-math": "\u03a9 \u221a \u2260",
    "latin-1-beyond-macroman": "\u00d0\u00fd\u00de \u00bd\u00d7", "latin-beyond-latin-1": "\u0141\u00f3d\u017a \u0151\u0171",
    "cyrillic": "\u041f\u0440\u0438\u0432\u0435\u0442", "cjk-japanese": "\u65e5\u672c\u8a9e\u30ec\u30a4\u30e4\u30fc",
    "cjk-chinese": "\u56fe\u5c42 \u4e00", "hangul": "\ub808\uc774\uc5b4", "astral": "emoji \U0001F47D\U0001F600",
    "combining": "e\u0301 a\u0308\u20dd", "mixed": "A\u00e9\u0416\u3042\U0001F47D", "yen-overline": "\u00a5100 \u203e",
    "wave-dash": "\u301c\u2016\u2212\u00a2\u00a3\u00ac", "question": "?", "long-latin": "\u00e9" * 200, "long-cjk": "\u3042" * 128,
    "255": "n" * 254 + "\u00e9",
}


def name_matrix(ctx, drv, quick):
    """Seed-independent: every text-bearing API entry point x every class of name x every save/open encoding of
    WIDE_ENCODINGS; and the normaliser-bait characters at the start / middle / end of a name on the three kinds of entry
    point. Saving must succeed and the reopened name must be the Unicode text given, whatever the legacy field can hold."""
    makers = name_makers()
    reqs, info = [], []
    for label, (mode, mk) in makers.items():
        for cname, n in NAME_CLASSES.items():
            for enc in WIDE_ENCODINGS:
                if quick and len(n) > 100 and enc in ("cp1252", "big5", "gbk") and mode == "set":
                    continue
                ctx.hist("name_matrix", f"{mode}:{cname}")
                name_case(ctx, label, mode, mk, n, enc, reqs, info)
    sp = special_strings(("start", "middle", "end"))
    for label in ("api:pixel", "api:Group.new", "api:PixelLayer.frompil"):
        mode, mk = makers[label]
        for n in sp:
            for enc in ("macroman", "utf_8", "shift_jis"):
                ctx.hist("name_matrix", f"{mode}:special-characters")
                name_case(ctx, label, mode, mk, n, enc, reqs, info)
    name_model_compare(ctx, drv, reqs, info)


def name_path(ctx, drv, rng, quick, corp_strings, wellformed):
    from psd_tools import PSDImage
    from psd_tools.psd import layer_and_mask as LM

    fixtures = ["group.psd", "clipping-mask.psd", "layer-name-emoji.psd", "unicode_pathname.psd", "hidden-groups.psd"]
    pf = core.REPO / "tests" / "psd_files"
    fixtures = [f for f in fixtures if (pf / f).exists()]
    if not quick:
        fixtures = sorted(str(p.relative_to(pf)) for p in list(pf.rglob("*.psd")) + list(pf.rglob("*.psb")))

    makers = [(label, mode, mk) for label, (mode, mk) in name_makers().items()]

    def fixture_maker(fn, pick):
        def mk(n):
            p = PSDImage.open(str(pf / fn))
            ls = list(p.descendants())
            return p, pick % len(ls)
        return mk

    short = [s for s in wellformed if len(s) <= 10]
    names = corp_strings + ["", "a", "\u00e9", "\u00e9" * 200, "\u00e9" * 255, "\u3042", "\u0416\u00e9", "\U0001F47D", "\U0001F47D" * 255,
                            "a\x00b", "\x00", "e\u0301", "a" * 255, "?", "\u00a5", "\uffff"] + rng.sample(short, 8 if quick else 40) + \
        rng.sample(wellformed, 4 if quick else 40)
    names = [n for n in names if len(n) < 256]
    cases = []
    for n in names:
        for enc in ENCODINGS:
            for label, mode, mk in makers:
                if quick and (mode != "set" or (len(n) > 30 and label != "api:pixel")):
                    continue        # the creating entry points are crossed with every encoding in name_matrix
                cases.append((label, mode, mk, n, enc))
    for k, fn in enumerate(fixtures):
        try:
            p = PSDImage.open(str(pf / fn))
            nl = len(list(p.descendants()))
        except Exception as e:  # noqa
            ctx.hist("fixture_not_used", "open:" + type(e).__name__)
            continue
        if nl == 0:
            ctx.hist("fixture_not_used", "no-layers")
            continue
        ctx.hist("fixture_not_used", "used")
        for j in range(2):
            n = rng.choice(names)
            enc = WIDE_ENCODINGS[(k + j) % len(WIDE_ENCODINGS)]
            if enc != "macroman":
                # the untouched document must be savable in this encoding (resource names and legacy-only layer
                # names that the encoding cannot express are rejected - correctly - whatever the edited name is)
                try:
                    p.save(io.BytesIO(), encoding=enc)
                    PSDImage.open(str(pf / fn), encoding=enc)
                except Exception:
                    enc = "macroman"
            cases.append((f"fixture:{fn}", "set", fixture_maker(fn, rng.randrange(1000)), n, enc))

    reqs, info = [], []
    for label, mode, mk, n, enc in cases:
        name_case(ctx, label, mode, mk, n, enc, reqs, info)
    name_model_compare(ctx, drv, reqs, info)
    lr16_probe(ctx)
    # old files: no unicode block, legacy name written as is (no substitution)
    olds = ["a", "\u00e9", "\u3042", "\u00e9" * 200, ""]
    reqs = []
    for n in olds:
        for enc in ENCODINGS:
            reqs.append(("uni.name", "table", "old", "-", cps(n), table_entry(n, enc)))
    ans = drv.batch(reqs)
    k = 0
    for n in olds:
        for enc in ENCODINGS:
            a = ans[k]
            k += 1
            ctx.corr_cases += 1
            rec = LM.LayerRecord(name=n)
            try:
                b = rec.tobytes(encoding=enc)
                back = LM.LayerRecord.frombytes(b, encoding=enc).name
                impl = ("ok", back)
            except Exception as e:  # noqa
                impl = ("err", "write:" + ecls(e))
            model = ("ok", from_cps(a[5])) if a[0] == "ok" else ("err", a[1])
            if impl != model and not (enc == "shift_jis" and any(c in LOSSY_SJIS for c in n)):
                ctx.disagree("old-file name path: model != code", {"s": cps(n), "enc": enc, "impl": list(impl), "model": list(model)})
            e0 = try_encode(n, enc)
            if e0 is None or len(e0) > 255:
                if impl[0] != "err":
                    ctx.fail("C19/name/no-unicode-block/substituted-or-truncated",
                             "a legacy-only name that the save encoding cannot express was stored instead of rejected",
                             {"op": "oldname", "s": cps(n), "enc": enc}, list(impl), "error")
            elif impl != ("ok", n):
                ctx.fail("C19/name/no-unicode-block/roundtrip-differs", "legacy-only name does not round-trip",
                         {"op": "oldname", "s": cps(n), "enc": enc}, list(impl), cps(n))


def lr16_probe(ctx):
    """A legacy-only layer name (no unicode block) expressible in the save encoding must round-trip in
    8-, 16- and 32-bit documents alike."""
    from psd_tools import PSDImage
    from psd_tools.constants import Tag
    pf = core.REPO / "tests" / "psd_files"
    for fn in ("group.psd", "colormodes/4x4_16bit_rgb.psd", "colormodes/4x4_32bit_rgb.psd"):
        if not (pf / fn).exists():
            ctx.skipped.append(f"legacy-only name probe: {fn} missing")
            continue
        for n, enc in (("\u3042", "shift_jis"), ("\u0416", "maccyrillic"), ("\u00e9", "macroman")):
            inp = {"op": "legacyonly", "doc": fn, "s": cps(n), "enc": enc}
            ctx.count(("legacyonly", fn, n, enc))
            try:
                p = PSDImage.open(str(pf / fn))
                l = list(p.descendants())[0]
                rec = l._record
                if Tag.UNICODE_LAYER_NAME in rec.tagged_blocks:
                    del rec.tagged_blocks[Tag.UNICODE_LAYER_NAME]
                rec.name = n
                out = io.BytesIO()
                p.save(out, encoding=enc)
                q = PSDImage.open(io.BytesIO(out.getvalue()), encoding=enc)
                got = ("ok", list(q.descendants())[0].name)
            except Exception as e:  # noqa
                got = ("err", ecls(e))
            if got != ("ok", n):
                deep = fn != "group.psd" and enc != "macroman"
                ctx.fail(SIG_LR16 if deep else f"C19/name/no-unicode-block/{fn}/{enc}/roundtrip-fails",
                         "legacy-only layer name expressible in the save encoding does not survive save/open",
                         inp, _r(got), cps(n))


def _r(o):
    out = []
    for x in o:
        if isinstance(x, (bytes, bytearray)):
            out.append(hx(x))
        elif isinstance(x, str) and o[0] == "ok" and x != "ok":
            out.append(cps(x))
        else:
            out.append(x)
    return out


def replay(ctx, data):
    import io as _io
    from psd_tools import utils as U
    inp = data.get("input") or {}
    print("replaying", data.get("signature"))
    op = inp.get("op")
    if op == "wus":
        print("write_unicode_string ->", _r(py_write(U.write_unicode_string, from_cps(inp["s"]), inp["pad"])))
    elif op == "rus":
        print("read_unicode_string ->", _r(py_read(U.read_unicode_string, unhx(inp["data"]), inp["pos"], inp["pad"])))
    elif op == "wps":
        print("write_pascal_string ->", _r(py_write(U.write_pascal_string, from_cps(inp["s"]), inp["enc"], inp["pad"])))
    elif op == "rps":
        print("read_pascal_string ->", _r(py_read(U.read_pascal_string, unhx(inp["data"]), inp["pos"], inp["enc"], inp["pad"])))
    elif op == "place":
        places, _ = storage_places()
        for label, kind, make, get, wk, rk in places:
            if label == inp["label"]:
                try:
                    o = make(from_cps(inp["s"]))
                    print(label, "->", repr(get(type(o).frombytes(o.tobytes(**wk), **rk)))[:200])
                except Exception as e:  # noqa
                    print(label, "-> raises", type(e).__name__, e)
    elif op == "name":
        from psd_tools import PSDImage
        doc = inp["doc"]
        n = from_cps(inp["s"])
        try:
            if doc.startswith("fixture:"):
                p = PSDImage.open(str(core.REPO / "tests" / "psd_files" / doc.split(":", 1)[1]))
                layer = list(p.descendants())[0]
                layer.name = n
            else:
                mode, mk = name_makers()[doc]
                p, idx = mk(n)
                layer = list(p.descendants())[idx]
                if mode == "set":
                    layer.name = n
            print("name right after creation / assignment ->", cps(layer.name))
            out = _io.BytesIO()
            p.save(out, encoding=inp["enc"])
            q = PSDImage.open(_io.BytesIO(out.getvalue()), encoding=inp["enc"])
            print("names after save/open ->", [cps(l.name) for l in q.descendants()][:5])
        except Exception as e:  # noqa
            print("raises", type(e).__name__, e)
    elif op == "rename":
        mode, mk = name_makers()[inp["doc"]]
        hist = [from_cps(x) for x in inp["names"]]
        try:
            p, idx = mk(hist[0])
            layer = list(p.descendants())[idx]
            for step, n in enumerate(hist):
                if step > 0 or mode == "set":
                    layer.name = n
                print("step", step, "set", cps(n), "-> name", cps(layer.name), "legacy field", cps(layer._record.name))
            print("after save/open ->", [cps(x) for x in _save_open_name(p, idx, inp["enc"])])
        except Exception as e:  # noqa
            print("raises", type(e).__name__, e)
    elif op == "resname":
        from psd_tools.psd import image_resources as IR
        try:
            b = IR.ImageResource(key=1999, name=from_cps(inp["s"]), data=b"xy").tobytes(encoding=inp["enc"])
            print("->", cps(IR.ImageResource.frombytes(b, encoding=inp["enc"]).name))
        except Exception as e:  # noqa
            print("raises", type(e).__name__, e)
    elif op == "legacyonly":
        from psd_tools import PSDImage
        from psd_tools.constants import Tag
        try:
            p = PSDImage.open(str(core.REPO / "tests" / "psd_files" / inp["doc"]))
            rec = list(p.descendants())[0]._record
            if Tag.UNICODE_LAYER_NAME in rec.tagged_blocks:
                del rec.tagged_blocks[Tag.UNICODE_LAYER_NAME]
            rec.name = from_cps(inp["s"])
            out = _io.BytesIO()
            p.save(out, encoding=inp["enc"])
            q = PSDImage.open(_io.BytesIO(out.getvalue()), encoding=inp["enc"])
            print("first layer name after save/open ->", cps(list(q.descendants())[0].name))
        except Exception as e:  # noqa
            print("raises", type(e).__name__, e)
    elif op == "oldname":
        from psd_tools.psd import layer_and_mask as LM
        try:
            b = LM.LayerRecord(name=from_cps(inp["s"])).tobytes(encoding=inp["enc"])
            print("->", cps(LM.LayerRecord.frombytes(b, encoding=inp["enc"]).name))
        except Exception as e:  # noqa
            print("raises", type(e).__name__, e)
    else:
        print("input:", inp)
    print("observed at discovery:", data.get("observed"))
    print("expected:", data.get("expected"))
    return 0
