"""C19 - Unicode text survives storage (string primitives, every storage place, the layer name)."""
from __future__ import annotations

import io
import json
import struct
import warnings

import core
import extract_c19
from core import hx, unhx, err_class

ENCODINGS = ["macroman", "maccyrillic", "utf_8", "shift_jis", "ascii"]
LEAN_CODEC = {"macroman": "mac-roman", "maccyrillic": "mac-cyrillic", "utf_8": "utf-8", "ascii": "ascii"}
PADS = [1, 2, 4]
SIG_OVERFLOW = "C19/write_unicode_string/OverflowError/code-point-above-U+FFFF"
SIG_PAIR = "C19/read_unicode_string/surrogate-pair-read-as-two-characters"
SIG_NAME_UNENC = "C19/name/legacy-field-unencodable-in-save-encoding"
SIG_NAME_LONG = "C19/name/legacy-field-longer-than-255-bytes-in-save-encoding"
SIG_SJIS = "C19/pascal/shift_jis/python-codec-maps-U+00A5-U+203E-to-ascii-bytes"
SIG_LR16 = "C19/name/no-unicode-block/encoding-not-forwarded-into-Lr16-Lr32-blocks"

CLASSES = {
    "ascii": "aZ09 ~?_",
    "latin": "\u00e9\u00fc\u00f1\u00c5",            # in MacRoman, not in ASCII / MacCyrillic
    "cyr": "\u041f\u0440\u0438\u0432\u0435\u0442\u0416",
    "jp": "\u3042\u3044\u3046\u6f22\u5b57\uff76",
    "comb": "e\u0301a\u20dd\u0300",
    "nul": "\x00",
    "bmp_edge": "\uffff\ufffe\ud7ff\ue000\u0080\u00ff\u0100",
    "astral": "\U0001F47D\U00010000\U0010FFFF\U0001F600\U000E0100",
}
LOSSY_SJIS = "\u00a5\u203e"


# ---- helpers --------------------------------------------------------------------------
def cps(s):
    return ",".join(str(ord(c)) for c in s) if s else "-"


def from_cps(t):
    return "" if t == "-" else "".join(chr(int(x)) for x in t.split(","))


def is_scalar_str(s):
    return all(not (0xD800 <= ord(c) <= 0xDFFF) for c in s)


def has_astral(s):
    return any(ord(c) > 0xFFFF for c in s)


def has_pair(s):
    return any(0xD800 <= ord(a) < 0xDC00 <= ord(b) < 0xE000 for a, b in zip(s, s[1:]))


def ecls(e):
    c = err_class(e)
    return "Other" if c.startswith("Other") else c


def ref_utf16(s):
    """UTF-16BE from the Unicode Standard (table 3-5), independent of the codec module."""
    out = bytearray()
    for ch in s:
        c = ord(ch)
        if c < 0x10000:
            out += struct.pack(">H", c)
        else:
            w = (c >> 16) - 1
            out += struct.pack(">HH", 0xD800 | (w << 6) | ((c >> 10) & 0x3F), 0xDC00 | (c & 0x3FF))
    return bytes(out)


def try_encode(s, enc):
    try:
        return s.encode(enc)
    except UnicodeEncodeError:
        return None


def try_decode(b, enc):
    try:
        return b.decode(enc)
    except UnicodeDecodeError:
        return None


def table_entry(s, enc):
    b = try_encode(s, enc)
    return f"{cps(s)}={'X' if b is None else hx(b)}"


def gen_strings(rng, quick):
    """Seeded strings: every length 0..255, every class alone and mixed."""
    out = []
    names = list(CLASSES)
    for n in range(256):
        k = rng.randrange(1, 4)
        cl = rng.sample(names, k)
        pool = "".join(CLASSES[c] for c in cl)
        out.append("".join(rng.choice(pool) for _ in range(n)))
    for c in names:
        for n in (1, 2, 3, 127, 128, 254, 255):
            out.append("".join(rng.choice(CLASSES[c]) for _ in range(n)))
    if not quick:
        for _ in range(1500):
            n = rng.choice([0, 1, 2, 5, 17, 63, 64, 100, 200, 255])
            pool = "".join(CLASSES[c] for c in rng.sample(names, rng.randrange(1, len(names) + 1)))
            out.append("".join(rng.choice(pool) for _ in range(n)))
    return out


def boundary_strings():
    """Encoded length 254..257 for every pascal encoding."""
    E, A, Z, X = "\u00e9", "\u3042", "\u0416", "\U0001F47D"
    out = []
    for n in (254, 255, 256, 257):
        out.append("a" * n)                                   # 1 byte everywhere
    out += [E * 127, E * 127 + "a", E * 128, E * 128 + "a"]          # utf_8: 2 bytes
    out += [A * 127, A * 127 + "a", A * 128, A * 85, A * 85 + "a", A * 86]   # shift_jis 2 bytes, utf_8 3 bytes
    out += [E * 255, E * 256, Z * 255, Z * 256, Z * 127 + "a", Z * 128]
    out += [X * 63 + "abc", X * 64]                             # utf_8: 4 bytes -> 255 / 256
    return out


WEIRD = ["\ud83d", "\udc7d", "\udc7d\ud83d", "a\udfff", "\ud800a", "\ud83d\udc7d", "a\ud83d\udc7db", "\udbff\udfff", "\ud83d\ud83d\udc7d"]


# ---- real implementation wrappers ------------------------------------------------------
def py_write(fn, *a, **k):
    f = io.BytesIO()
    try:
        n = fn(f, *a, **k)
    except Exception as e:  # noqa
        return ("err", ecls(e))
    b = f.getvalue()
    return ("ok", b, n)


def py_read(fn, data, pos, *a, **k):
    f = io.BytesIO(data)
    f.seek(pos)
    try:
        s = fn(f, *a, **k)
    except Exception as e:  # noqa
        return ("err", ecls(e))
    return ("ok", s, f.tell())


def m_bytes(ans):
    if ans[0] == "ok":
        return ("ok", unhx(ans[1]))
    return ("err", ans[1] if len(ans) > 1 else ans[0])


def m_strpos(ans):
    if ans[0] == "ok":
        return ("ok", from_cps(ans[1]), int(ans[2]))
    return ("err", ans[1] if len(ans) > 1 else ans[0])


# ---- storage places (full element classes; Python-only oracle) --------------------------
def storage_places():
    """[(label, kind, make(s) -> element, get(element) -> value, write kwargs, read kwargs)];
    kind = 'unicode' or ('pascal', encoding)."""
    import attr
    from psd_tools.psd import (adjustments as ADJ, base as B, descriptor as D, filter_effects as FE,
                               image_resources as IR, layer_and_mask as LM, linked_layer as LL, patterns as PT,
                               tagged_blocks as TB)
    from psd_tools.constants import LinkedLayerType, Tag
    from psd_tools import PSDImage

    T = core.REPO / "tests"
    places = []

    def add(label, kind, make, get, wk=None, rk=None):
        places.append((label, kind, make, get, wk or {}, rk or {}))

    for pad in PADS:
        add(f"StringElement(pad={pad})", "unicode", lambda s: B.StringElement(s), lambda o: o.value, {"padding": pad}, {"padding": pad})
    add("tagged-block unicode name (written pad 4, read pad 1)", "unicode",
        lambda s: TB.TaggedBlock(key=Tag.UNICODE_LAYER_NAME, data=B.StringElement(s)), lambda o: o.data.value,
        {"padding": 1}, {"padding": 1})
    add("descriptor.String", "unicode", lambda s: D.String(s), lambda o: o.value)
    add("descriptor.Descriptor.name", "unicode", lambda s: D.Descriptor(name=s, classID=b"null"), lambda o: o.name)
    add("descriptor.ObjectArray.name", "unicode", lambda s: D.ObjectArray(name=s, classID=b"null"), lambda o: o.name)
    add("descriptor.Property.name", "unicode", lambda s: D.Property(name=s), lambda o: o.name)
    add("descriptor.Class.name", "unicode", lambda s: D.Class(name=s), lambda o: o.name)
    add("descriptor.Class1.name", "unicode", lambda s: D.Class1(name=s), lambda o: o.name)
    add("descriptor.EnumeratedReference.name", "unicode", lambda s: D.EnumeratedReference(name=s), lambda o: o.name)
    add("descriptor.Offset.name", "unicode", lambda s: D.Offset(name=s), lambda o: o.name)
    add("descriptor.Name.name+value", "unicode", lambda s: D.Name(name=s, value=s[::-1]), lambda o: (o.name, o.value))

    def nested(s):
        d = D.Descriptor(name=s, classID=b"null")
        d[b"Nm  "] = D.String(s)
        d[b"Lst "] = D.List([D.String(s), D.Name(name=s, value=s)])
        d[b"Obj "] = D.Descriptor(name=s, classID=b"abcd")
        return d

    add("descriptor nested (String in Descriptor/List)", "unicode", nested,
        lambda o: (o.name, o[b"Nm  "].value, o[b"Lst "][0].value, o[b"Lst "][1].name, o[b"Obj "].name))
    add("descriptor.DescriptorBlock.name", "unicode", lambda s: D.DescriptorBlock(name=s, classID=b"null"), lambda o: o.name)
    add("resource AlphaNamesUnicode", "unicode", lambda s: IR.AlphaNamesUnicode([s, "", s + "x"]), lambda o: list(o))
    add("resource SlicesV6 + SliceV6", "unicode",
        lambda s: IR.SlicesV6(name=s, items=[IR.SliceV6(name=s, url=s + "u", target=s, message="m" + s, alt_tag=s, cell_text=s)]),
        lambda o: (o.name, [(i.name, i.url, i.target, i.message, i.alt_tag, i.cell_text) for i in o.items]))
    add("resource URLList/URLItem", "unicode", lambda s: IR.URLList([IR.URLItem(name=s), IR.URLItem(number=1, name=s)]),
        lambda o: [i.name for i in o])
    add("resource VersionInfo", "unicode", lambda s: IR.VersionInfo(writer=s, reader=s + "r"), lambda o: (o.writer, o.reader))
    add("adjustments.GradientMap.name", "unicode",
        lambda s: ADJ.GradientMap(name=s, minimum_color=[0] * 4, maximum_color=[0] * 4), lambda o: o.name)
    add("LinkedLayer.filename+child_id", "unicode",
        lambda s: LL.LinkedLayer(kind=LinkedLayerType.DATA, version=7, uuid="u", filename=s, filesize=2, data=b"xy",
                                 child_id=s, mod_time=0.0, lock_state=0, timestamp=(2020, 1, 1, 1, 1, 1.0)),
        lambda o: (o.filename, o.child_id))
    pat = PT.Pattern.frombytes((T / "tagged_blocks" / "Patt_1.dat").read_bytes())
    pat = attr.evolve(pat, data=PT.VirtualMemoryArrayList(rectangle=(0, 0, 0, 0), channels=[]))
    try:
        PT.Pattern.frombytes(pat.tobytes())
    except Exception:  # keep the full pattern if the emptied one does not round-trip
        pat = PT.Pattern.frombytes((T / "tagged_blocks" / "Patt_1.dat").read_bytes())
    add("Pattern.name", "unicode", lambda s: attr.evolve(pat, name=s), lambda o: o.name)

    # pascal places
    for enc in ENCODINGS:
        add(f"LayerRecord.name legacy field, no unicode block ({enc})", ("pascal", enc),
            lambda s: LM.LayerRecord(name=s), lambda o: o.name, {"encoding": enc}, {"encoding": enc})
        add(f"ImageResource.name ({enc})", ("pascal", enc),
            lambda s: IR.ImageResource(key=1999, name=s, data=b"xy"), lambda o: o.name, {"encoding": enc}, {"encoding": enc})
    add("resource AlphaNamesPascal", ("pascal", "macroman"), lambda s: IR.AlphaNamesPascal([s, "", "c"]), lambda o: list(o))
    add("resource PascalString (written pad 1, read pad 2)", ("pascal", "macroman"), lambda s: IR.PascalString(s), lambda o: o.value)
    add("Annotation author/name/mod_date", ("pascal", "macroman"),
        lambda s: TB.Annotation(author=s, name=s, mod_date=s), lambda o: (o.author, o.name, o.mod_date))
    add("LinkedLayer.uuid", ("pascal", "macroman"),
        lambda s: LL.LinkedLayer(kind=LinkedLayerType.DATA, version=7, uuid=s, filename="f", filesize=2, data=b"xy",
                                 child_id="c", mod_time=0.0, lock_state=0, timestamp=(2020, 1, 1, 1, 1, 1.0)),
        lambda o: o.uuid)
    add("Pattern.pattern_id", ("pascal", "ascii"), lambda s: attr.evolve(pat, pattern_id=s), lambda o: o.pattern_id)
    fe = FE.FilterEffects.frombytes((T / "tagged_blocks" / "filter_effects_1.dat").read_bytes())[0]
    fe = attr.evolve(fe, channels=[FE.FilterEffectChannel() for _ in fe.channels], extra=None)
    try:
        FE.FilterEffect.frombytes(fe.tobytes())
    except Exception:
        fe = FE.FilterEffects.frombytes((T / "tagged_blocks" / "filter_effects_1.dat").read_bytes())[0]
    add("FilterEffect.uuid", ("pascal", "ascii"), lambda s: attr.evolve(fe, uuid=s), lambda o: o.uuid)
    pld = None
    try:
        psd = PSDImage.open(str(T / "psd_files" / "placedLayer.psd"))
        for l in psd.descendants():
            b = l.tagged_blocks.get_data(Tag.PLACED_LAYER2) or l.tagged_blocks.get_data(Tag.PLACED_LAYER1)
            if b is not None and hasattr(b, "uuid"):
                pld = b
                break
    except Exception:
        pld = None
    if pld is not None:
        add("PlacedLayerData.uuid", ("pascal", "macroman"), lambda s: attr.evolve(pld, uuid=s), lambda o: o.uuid)
    return places, pld is not None


def classify_unicode_failure(s, what):
    if what == "OverflowError" and has_astral(s):
        return SIG_OVERFLOW
    if what == "differs" and has_astral(s):
        return SIG_PAIR
    return None


# ---- the check -------------------------------------------------------------------------
def run(ctx: core.Run):
    warnings.simplefilter("ignore")
    gen = extract_c19.gen_strings(ctx)
    ctx.prove(["PsdVerif.Props.C19"])
    ctx.trusted_base += [
        "Lean 4.33 kernel; axioms allowed: propext, Classical.choice, Quot.sound (audited per theorem)",
        "Model/Unicode.lean is a hand transliteration of utils.py string primitives, the Layer.name setter/getter and "
        "LayerRecord._legacy_name; tied by this run's byte-level correspondence check",
        "harness/extract_c19.py: call-site table (encoding/padding literals), name-setter constants, codec tables regenerated on every run",
        "UTF-16 of the Unicode Standard (ch. 3.9, table 3-5) as transcribed in Spec.utf16Enc/Dec; compared on every run with "
        "Python's strict utf-16-be codec and with a second transcription in the harness",
        "Python's codecs (mac_roman, mac_cyrillic, utf_8, shift_jis, ascii, utf-16-be/surrogatepass)",
    ]
    ctx.assumptions += [
        "Python codecs: decode(encode(s)) == s whenever encode succeeds - proved for the Lean ascii/mac_roman/mac_cyrillic/utf_8 "
        "codecs (compared with Python's on every run), checked per code point for all five Python codecs on every run; it FAILS for "
        "shift_jis on U+00A5 and U+203E (known finding), so pascal_roundtrip takes the law as a hypothesis on the string at hand",
        "strings shorter than 2^31 characters (32-bit unit count); padding divisor != 0 (every call site passes 1, 2 or 4: theorem call_sites_tied)",
        "a Python str whose surrogates form a (high, low) pair is not a well-formed Unicode string: it is written as the pair and read as the astral character",
    ]
    quick = ctx.quick
    rng = ctx.rng
    drv = ctx.driver()

    from psd_tools import utils as U

    corpus = json.loads((core.VERIF / "harness" / "corpus" / "C19.json").read_text())
    corp_strings = [from_cps(c["cps"]) for c in corpus if c["kind"] == "string"]
    strings = corp_strings + gen_strings(rng, quick) + boundary_strings()
    wellformed = [s for s in strings if is_scalar_str(s)]
    assert len(wellformed) == len(strings)
    allstr = strings + WEIRD

    # =============== 0. hypotheses on Python's codecs, exercised ===============
    codec_law(ctx, drv, rng, quick)
    spec_vs_python(ctx, drv, rng, quick, wellformed)

    # =============== 1. write_unicode_string / read_unicode_string ===============
    pads_all = PADS + [3, 8, 0]
    wcases = [(s, p) for s in allstr for p in (PADS if len(s) > 40 else pads_all)]
    if quick:
        wcases = [c for k, c in enumerate(wcases) if len(c[0]) < 20 or k % 3 == 0]
    ans = drv.batch([("uni.wus", p, cps(s)) for s, p in wcases])
    written = {}
    for (s, p), a in zip(wcases, ans):
        r = py_write(U.write_unicode_string, s, p) if p != 0 else py_write(U.write_unicode_string, s, padding=0)
        m = m_bytes(a)
        ctx.corr_cases += 1
        ctx.count(("wus", s, p), nontrivial=len(s) > 0)
        ctx.hist("wus_outcome", r[1] if r[0] == "err" else "ok")
        ctx.hist("string_len", min(len(s), 255) // 32 * 32)
        if r[:2] != m:
            ctx.disagree("write_unicode_string: model != code", {"s": cps(s), "pad": p, "impl": _r(r), "model": _r(m)})
        # --- the property on the real code (model-independent)
        if p == 0:
            continue
        if r[0] == "err":
            if is_scalar_str(s):
                sig = classify_unicode_failure(s, r[1]) or f"C19/write_unicode_string/raises/{r[1]}"
                ctx.fail(sig, f"write_unicode_string raises {r[1]} for a well-formed string", {"op": "wus", "s": cps(s), "pad": p}, _r(r), "bytes")
            continue
        b, n = r[1], r[2]
        written[(s, p)] = b
        if n != len(b):
            ctx.fail("C19/write_unicode_string/returned-count-differs", "returned count != bytes written",
                     {"op": "wus", "s": cps(s), "pad": p}, n, len(b))
        if is_scalar_str(s):
            u = ref_utf16(s)
            exp = struct.pack(">I", len(u) // 2) + u
            exp += b"\x00" * (-len(exp) % p)
            if b != exp:
                ctx.fail("C19/write_unicode_string/not-utf16", "bytes are not count + UTF-16BE + zero padding",
                         {"op": "wus", "s": cps(s), "pad": p}, hx(b), hx(exp))
    ctx.sample({"wus": cps(allstr[7])[:80], "pad": 4})

    # readers: framed in a stream, writer's padding and a different padding, truncations, raw unit soup
    rcases = []
    for (s, p), b in written.items():
        if len(s) > 64 and rng.random() < (0.8 if quick else 0.3):
            continue
        pre = bytes(rng.randrange(256) for _ in range(rng.choice([0, 1, 3])))
        post = bytes(rng.randrange(256) for _ in range(rng.choice([0, 0, 2, 5])))
        rcases.append((pre + b + post, len(pre), p, ("framed", s, len(pre) + len(b))))
        q = rng.choice([x for x in PADS if x != p])
        rcases.append((pre + b + post, len(pre), q, ("value", s, None)))
        if len(b) <= 24:
            for k in range(len(b)):
                rcases.append((b[:k], 0, p, ("trunc", None, None)))
    units = [0x41, 0, 0xD800, 0xDBFF, 0xDC00, 0xDFFF, 0xD83D, 0xDC7D, 0xFFFF, 0xE000, 0x3042]
    for _ in range(400 if quick else 6000):
        n = rng.randrange(0, 7)
        body = b"".join(struct.pack(">H", rng.choice(units)) for _ in range(n))
        cnt = max(0, n + rng.choice([0, 0, 0, 0, 1, -1, 3]))
        data = struct.pack(">I", cnt) + body + bytes(rng.randrange(256) for _ in range(rng.choice([0, 0, 1, 2, 3])))
        if rng.random() < 0.2:
            data = data[:rng.randrange(len(data) + 1)]
        rcases.append((data, 0, rng.choice(PADS + [0]), ("soup", None, None)))
    for c in corpus:
        if c["kind"] == "rus":
            rcases.insert(0, (unhx(c["data"]), c["pos"], c["pad"], ("corpus", from_cps(c["expect"]) if "expect" in c else None, None)))
    ans = drv.batch([("uni.rus", p, hx(d), pos) for d, pos, p, _ in rcases])
    for (d, pos, p, (kind, s, end)), a in zip(rcases, ans):
        r = py_read(U.read_unicode_string, d, pos, p) if p != 0 else py_read(U.read_unicode_string, d, pos, padding=0)
        m = m_strpos(a)
        ctx.corr_cases += 1
        ctx.count(("rus", d, pos, p), nontrivial=len(d) > 4)
        ctx.hist("rus_kind", kind)
        ctx.hist("rus_outcome", r[1] if r[0] == "err" else "ok")
        if r != m:
            ctx.disagree("read_unicode_string: model != code", {"data": hx(d), "pos": pos, "pad": p, "impl": _r(r), "model": _r(m)})
        if kind in ("framed", "value", "corpus") and s is not None and not has_pair(s):
            if r[0] != "ok" or r[1] != s:
                sig = (SIG_PAIR if has_astral(s) and r[0] == "ok" else "C19/read_unicode_string/roundtrip-differs")
                ctx.fail(sig, "read_unicode_string(write_unicode_string(s)) != s", {"op": "rus", "data": hx(d), "pos": pos, "pad": p, "s": cps(s)},
                         _r(r), cps(s))
            elif kind == "framed" and r[2] != end:
                ctx.fail("C19/read_unicode_string/framing", "reader does not stop where the writer stopped",
                         {"op": "rus", "data": hx(d), "pos": pos, "pad": p, "s": cps(s)}, r[2], end)
        if r[0] == "ok":
            # re-save: what was read is written back unit for unit
            cnt = struct.unpack(">I", d[pos:pos + 4])[0]
            raw = d[pos + 4:pos + 4 + 2 * cnt]
            if len(raw) == 2 * cnt and p != 0:
                w = py_write(U.write_unicode_string, r[1], p)
                if w[0] != "ok" or w[1][:4 + 2 * cnt] != d[pos:pos + 4 + 2 * cnt]:
                    ctx.fail("C19/unicode-string/resave-differs", "write(read(bytes)) != bytes",
                             {"op": "rus", "data": hx(d), "pos": pos, "pad": p}, _r(w), hx(d[pos:pos + 4 + 2 * cnt]))
    ctx.sample({"rus": hx(rcases[len(rcases) // 2][0])[:80], "pad": rcases[len(rcases) // 2][2]})

    # =============== 2. write_pascal_string / read_pascal_string ===============
    pstr = [s for s in allstr if len(s) <= 24 or rng.random() < (0.15 if quick else 0.5)] + boundary_strings() + list(LOSSY_SJIS) + ["a\u00a5b"]
    pcases = [(s, enc, p) for s in pstr for enc in ENCODINGS for p in (PADS if len(s) > 8 else pads_all)]
    if quick:
        pcases = [c for k, c in enumerate(pcases) if len(c[0]) < 6 or len(c[0]) > 250 or k % 4 == 0]
    reqs = []
    for s, enc, p in pcases:
        reqs.append(("uni.wps", "table", p, cps(s), table_entry(s, enc)))
    ans_t = drv.batch(reqs)
    reqs = [("uni.wps", LEAN_CODEC[enc], p, cps(s)) for s, enc, p in pcases if enc in LEAN_CODEC]
    ans_l = iter(drv.batch(reqs))
    pwritten = {}
    for (s, enc, p), at in zip(pcases, ans_t):
        r = py_write(U.write_pascal_string, s, enc, p)
        ctx.corr_cases += 1
        ctx.count(("wps", s, enc, p), nontrivial=len(s) > 0)
        ctx.hist("wps_outcome_" + enc, r[1] if r[0] == "err" else "ok")
        mt = m_bytes(at)
        if r[:2] != mt:
            ctx.disagree("write_pascal_string: model(table codec) != code", {"s": cps(s), "enc": enc, "pad": p, "impl": _r(r), "model": _r(mt)})
        if enc in LEAN_CODEC:
            ml = m_bytes(next(ans_l))
            if r[:2] != ml:
                ctx.disagree("write_pascal_string: model(Lean codec) != code", {"s": cps(s), "enc": enc, "pad": p, "impl": _r(r), "model": _r(ml)})
        if p == 0:
            continue
        e = try_encode(s, enc)
        if e is None or len(e) > 255:
            want = "UnicodeError" if e is None else "struct.error"
            if r[0] != "err" or r[1] != want:
                ctx.fail(f"C19/write_pascal_string/{enc}/not-rejected", "unencodable or > 255 bytes must be rejected, not stored",
                         {"op": "wps", "s": cps(s), "enc": enc, "pad": p}, _r(r), want)
            continue
        if r[0] != "ok":
            ctx.fail(f"C19/write_pascal_string/{enc}/raises/{r[1]}", "encodable string within 255 bytes is rejected",
                     {"op": "wps", "s": cps(s), "enc": enc, "pad": p}, _r(r), "bytes")
            continue
        b = r[1]
        exp = bytes([len(e)]) + e
        exp += b"\x00" * (-len(exp) % p)
        if b != exp or r[2] != len(b):
            ctx.fail(f"C19/write_pascal_string/{enc}/truncated-or-altered", "bytes are not length + whole encoded string + padding",
                     {"op": "wps", "s": cps(s), "enc": enc, "pad": p}, hx(b), hx(exp))
        pwritten[(s, enc, p)] = b
    # readers
    prc = []
    for (s, enc, p), b in pwritten.items():
        pre = bytes(rng.randrange(256) for _ in range(rng.choice([0, 1, 3])))
        post = bytes(rng.randrange(256) for _ in range(rng.choice([0, 0, 2, 5])))
        prc.append((pre + b + post, len(pre), enc, p, ("framed", s, len(pre) + len(b))))
        if len(b) <= 12:
            for k in range(len(b)):
                prc.append((b[:k], 0, enc, p, ("trunc", None, None)))
    soup = [0x41, 0, 0x5C, 0x7E, 0x80, 0x82, 0xA0, 0xC3, 0xA9, 0xE3, 0x81, 0xF0, 0x9F, 0xFF, 0xED]
    for _ in range(300 if quick else 5000):
        n = rng.randrange(0, 6)
        data = bytes([max(0, n + rng.choice([0, 0, 0, 1, -1]))]) + bytes(rng.choice(soup) for _ in range(n)) + bytes(rng.randrange(3))
        prc.append((data, 0, rng.choice(ENCODINGS), rng.choice(PADS + [0]), ("soup", None, None)))
    reqs = []
    for d, pos, enc, p, _ in prc:
        tab = "-"
        if pos < len(d):
            raw = d[pos + 1:pos + 1 + d[pos]]
            if len(raw) == d[pos]:
                dec = try_decode(raw, enc)
                if dec is not None:
                    tab = f"{cps(dec)}={hx(raw)}"
        reqs.append(("uni.rps", "table", p, hx(d), pos, tab))
    ans_t = drv.batch(reqs)
    ans_l = iter(drv.batch([("uni.rps", LEAN_CODEC[enc], p, hx(d), pos) for d, pos, enc, p, _ in prc if enc in LEAN_CODEC]))
    for (d, pos, enc, p, (kind, s, end)), at in zip(prc, ans_t):
        r = py_read(U.read_pascal_string, d, pos, enc, p)
        ctx.corr_cases += 1
        ctx.count(("rps", d, pos, enc, p), nontrivial=len(d) > 1)
        ctx.hist("rps_kind", kind)
        ctx.hist("rps_outcome", r[1] if r[0] == "err" else "ok")
        mt = m_strpos(at)
        if r != mt:
            ctx.disagree("read_pascal_string: model(table codec) != code", {"data": hx(d), "pos": pos, "enc": enc, "pad": p, "impl": _r(r), "model": _r(mt)})
        if enc in LEAN_CODEC:
            ml = m_strpos(next(ans_l))
            if r != ml:
                ctx.disagree("read_pascal_string: model(Lean codec) != code", {"data": hx(d), "pos": pos, "enc": enc, "pad": p, "impl": _r(r), "model": _r(ml)})
        if kind == "framed":
            if r[0] != "ok" or r[1] != s:
                lossy = enc == "shift_jis" and r[0] == "ok" and len(r[1]) == len(s) and \
                    all(a == b or a in LOSSY_SJIS for a, b in zip(s, r[1]))
                ctx.fail(SIG_SJIS if lossy else f"C19/read_pascal_string/{enc}/roundtrip-differs",
                         "read_pascal_string(write_pascal_string(s)) != s for an encodable string",
                         {"op": "rps", "data": hx(d), "pos": pos, "enc": enc, "pad": p, "s": cps(s)}, _r(r), cps(s))
            elif r[2] != end:
                ctx.fail(f"C19/read_pascal_string/{enc}/framing", "reader does not stop where the writer stopped",
                         {"op": "rps", "data": hx(d), "pos": pos, "enc": enc, "pad": p, "s": cps(s)}, r[2], end)

    # =============== 3. every storage place (element classes, Python oracle) ===============
    places, have_pld = storage_places()
    if not have_pld:
        ctx.skipped.append("PlacedLayerData.uuid: no instance could be taken from placedLayer.psd")
    short = [s for s in wellformed if len(s) <= 12]
    pool_u = corp_strings + rng.sample(short, min(len(short), 10 if quick else 40)) + \
        rng.sample(wellformed, 6 if quick else 40) + ["\U0001F47D" * 255, "\x00" * 255, "e\u0301" * 100]
    pool_p = corp_strings + rng.sample(short, min(len(short), 10 if quick else 40)) + boundary_strings()[:8] + \
        ["\u00e9", "\u0416", "\u3042", "?", "\x00a\x00", "\u00e9" * 255, "\u00e9" * 128]
    for label, kind, make, get, wk, rk in places:
        pool = pool_u if kind == "unicode" else pool_p
        for s in pool:
            ctx.count(("place", label, s), nontrivial=len(s) > 0)
            ctx.hist("place", label)
            try:
                obj = make(s)
                want = get(obj)
            except Exception as e:  # constructor validation
                ctx.hist("place_ctor_rejects", label)
                continue
            try:
                b = obj.tobytes(**wk)
            except Exception as e:  # noqa
                c = ecls(e)
                if kind == "unicode":
                    sig = classify_unicode_failure(s, c) or f"C19/place/{label}/write-raises/{c}"
                    ctx.fail(sig, f"{label}: writing a well-formed string raises {c}", {"op": "place", "label": label, "s": cps(s)}, c, "bytes")
                else:
                    enc = kind[1]
                    e2 = try_encode(s, enc)
                    if e2 is not None and len(e2) <= 255:
                        ctx.fail(f"C19/place/{label}/write-raises/{c}", f"{label}: encodable string rejected", {"op": "place", "label": label, "s": cps(s)}, c, "bytes")
                    elif c not in ("UnicodeError", "struct.error"):
                        ctx.fail(f"C19/place/{label}/rejects-with/{c}", f"{label}: wrong rejection", {"op": "place", "label": label, "s": cps(s)}, c, "UnicodeError or struct.error")
                continue
            if kind != "unicode":
                e2 = try_encode(s, kind[1])
                if e2 is None or len(e2) > 255:
                    ctx.fail(f"C19/place/{label}/not-rejected", f"{label}: unencodable or too long string was stored",
                             {"op": "place", "label": label, "s": cps(s)}, hx(b)[:80], "UnicodeError or struct.error")
                    continue
            try:
                got = get(type(obj).frombytes(b, **rk))
            except Exception as e:  # noqa
                ctx.fail(f"C19/place/{label}/read-raises/{ecls(e)}", f"{label}: cannot re-read what was written",
                         {"op": "place", "label": label, "s": cps(s)}, ecls(e), "value")
                continue
            if got != want:
                lossy = kind != "unicode" and kind[1] == "shift_jis" and any(ch in LOSSY_SJIS for ch in s)
                sig = SIG_SJIS if lossy else (classify_unicode_failure(s, "differs") if kind == "unicode" else None) or f"C19/place/{label}/roundtrip-differs"
                ctx.fail(sig, f"{label}: frombytes(tobytes(x)) != x", {"op": "place", "label": label, "s": cps(s)}, repr(got)[:120], repr(want)[:120])

    # =============== 4. the layer name: setter -> save -> open, bytes vs model ===============
    name_path(ctx, drv, rng, quick, corp_strings, wellformed)

    ctx.rule = (
        "strings: corpus witnesses + one seeded string of every length 0..255 over mixed classes {ascii, MacRoman-only latin, Cyrillic, "
        "Japanese, combining marks, NUL, BMP edges, astral} + each class alone at lengths 1,2,3,127,128,254,255 + strings whose encoded "
        "length is 254..257 in each pascal codec + non-well-formed Python strs (unpaired / paired surrogates; correspondence only); "
        "x padding {1,2,4} (short strings also 3, 8, 0) x pascal codec {macroman, maccyrillic, utf_8, shift_jis, ascii}; readers on the "
        "written bytes embedded in random context (same and different padding), every truncation of short encodings, random unit / byte soup "
        "with wrong counts; %d storage places x string pool (Python == oracle); name path on API-created and fixture documents x 5 codecs. "
        "A case is non-trivial when the string is non-empty (writers) / the stream is longer than its count field (readers); distinct = distinct "
        "(op, string or bytes, codec, padding) tuples." % len(places)
    )
    ctx.model_coverage = {
        "modelled_byte_level": ["write_unicode_string", "read_unicode_string", "write_pascal_string", "read_pascal_string",
                                "write_padding", "read_padding", "Layer.name setter/getter", "LayerRecord._legacy_name",
                                "codecs ascii, mac_roman, mac_cyrillic, utf_8 (Lean, lawful by theorem)"],
        "table_codec": ["shift_jis (encode/decode results passed to the model per case)"],
        "python_oracle_only": [p[0] for p in places],
        "call_sites_in_source": gen["sites"],
    }
    ctx.extra["generated_constants"] = {k: v for k, v in gen.items() if k != "site_list"}
    ctx.notes += [
        "PascalString (CAPTION_PASCAL / CLIPPING_PATH_NAME) is written with padding 1 and read with the default padding 2; harmless "
        "because the element is the whole resource payload (value round-trips; the reader may consume one byte of following data otherwise)",
        "read_unicode_string / read_pascal_string padding reads are lenient at the end of the stream (short read, no error): modelled as such",
        "layer records of 16/32-bit documents live in Lr16/Lr32 tagged blocks, to which TaggedBlock.read/write do not forward the "
        "`encoding` option: their legacy fields are always MacRoman (consistent in both directions; known finding for legacy-only names); "
        "the byte-level comparison of the name path uses the encoding that actually reaches LayerRecord._write_extra",
        "the name setter tests MacRoman whatever the document encoding is: a name such as U+3042 gets '?' in the legacy field even when the "
        "file is saved as shift_jis; the unicode block keeps the name, so the property holds",
    ]
    if ctx.tier == "thorough":
        ctx.recheck(["PsdVerif.Props.C19"])


def codec_law(ctx, drv, rng, quick):
    """decode(encode(s)) == s for Python's codecs (per code point, exhaustive), Lean codecs == Python codecs."""
    hi = 0x110000
    for enc in ENCODINGS:
        bad = []
        for c in range(hi):
            ch = chr(c)
            b = try_encode(ch, enc)
            if b is None:
                continue
            if try_decode(b, enc) != ch:
                bad.append(c)
        ctx.count(("codec-law", enc), nontrivial=True, n=hi)
        ctx.hist("codec_law_violations", enc, len(bad))
        if bad:
            if enc == "shift_jis" and set(bad) <= {0xA5, 0x203E}:
                r = py_write(__import__("psd_tools.utils", fromlist=["x"]).write_pascal_string, chr(bad[0]), enc, 2)
                back = py_read(__import__("psd_tools.utils", fromlist=["x"]).read_pascal_string, r[1], 0, enc, 2) if r[0] == "ok" else r
                if back[0] != "ok" or back[1] != chr(bad[0]):
                    ctx.fail(SIG_SJIS, "a string the codec accepts is read back as a different string",
                             {"op": "rps", "data": hx(r[1]) if r[0] == "ok" else "-", "pos": 0, "enc": enc, "pad": 2, "s": cps(chr(bad[0]))},
                             _r(back), cps(chr(bad[0])))
            else:
                ctx.fail(f"C19/codec/{enc}/decode-encode-differs", f"Python codec {enc}: decode(encode(c)) != c",
                         {"op": "codec", "enc": enc, "cps": [hex(c) for c in bad[:10]]}, len(bad), 0)
    # Lean codecs against Python's
    reqs, exp = [], []
    pool = "".join(CLASSES.values()) + "\u00a5\u203e\u00a0\u2020\u0490\u20ac"
    for enc, lean in LEAN_CODEC.items():
        for c in list(range(0, 0x500)) + [0x2020, 0x20AC, 0xD7FF, 0xD800, 0xDFFF, 0xE000, 0xFFFF, 0x10000, 0x10FFFF, 0x1F47D] + \
                [rng.randrange(0x110000) for _ in range(200 if quick else 3000)]:
            reqs.append(("uni.codec", lean, "e", str(c)))
            b = try_encode(chr(c), enc)
            exp.append(("ok", hx(b)) if b is not None else ("err", "UnicodeError"))
        for _ in range(150 if quick else 2000):
            s = "".join(rng.choice(pool) for _ in range(rng.randrange(0, 6)))
            reqs.append(("uni.codec", lean, "e", cps(s)))
            b = try_encode(s, enc)
            exp.append(("ok", hx(b)) if b is not None else ("err", "UnicodeError"))
        blobs = [bytes([x]) for x in range(256)]
        if enc == "utf_8":
            lead = [0x00, 0x7F, 0x80, 0xBF, 0xC0, 0xC1, 0xC2, 0xDF, 0xE0, 0xE1, 0xED, 0xEE, 0xEF, 0xF0, 0xF1, 0xF4, 0xF5, 0xFF, 0x9F, 0xA0, 0x8F, 0x90]
            for _ in range(1500 if quick else 20000):
                blobs.append(bytes(rng.choice(lead) for _ in range(rng.randrange(1, 6))))
            for a in lead:
                for b2 in lead:
                    blobs.append(bytes([a, b2]))
                    blobs.append(bytes([a, b2, 0x80]))
                    blobs.append(bytes([a, b2, 0x80, 0xBF]))
        for bb in blobs:
            reqs.append(("uni.codec", lean, "d", hx(bb)))
            d = try_decode(bb, enc)
            exp.append(("ok", cps(d)) if d is not None else ("err", "UnicodeError"))
    ans = drv.batch(reqs)
    for rq, a, e in zip(reqs, ans, exp):
        ctx.corr_cases += 1
        ctx.count(("codec", rq[1], rq[2], rq[3]))
        got = (a[0], a[1] if len(a) > 1 else "")
        if got != e:
            ctx.disagree("Lean codec != Python codec", {"req": list(rq), "python": list(e), "model": list(got)})
    ctx.hist("codec_cases", "lean-vs-python", len(reqs))


def spec_vs_python(ctx, drv, rng, quick, wellformed):
    """Spec.utf16Enc/Dec (transcribed from the standard) against Python's strict utf-16-be codec."""
    ss = [s for s in wellformed if len(s) <= 40][: (150 if quick else 1500)]
    ans = drv.batch([("uni.spec16enc", cps(s)) for s in ss])
    for s, a in zip(ss, ans):
        ctx.corr_cases += 1
        b = s.encode("utf-16-be")
        exp = ",".join(str(x) for x in struct.unpack(">%dH" % (len(b) // 2), b)) if b else "-"
        if a[0] != "ok" or a[1] != exp or b != ref_utf16(s):
            ctx.disagree("Spec.utf16Enc != Python utf-16-be", {"s": cps(s), "model": a, "python": exp})
    units = [0x41, 0, 0xD7FF, 0xD800, 0xDBFF, 0xDC00, 0xDFFF, 0xE000, 0xFFFF, 0xD83D, 0xDC7D]
    cases = [[u] for u in units] + [[u, v] for u in units for v in units]
    for _ in range(300 if quick else 5000):
        cases.append([rng.choice(units) for _ in range(rng.randrange(0, 6))])
    ans = drv.batch([("uni.spec16dec", ",".join(map(str, u)) if u else "-") for u in cases])
    for u, a in zip(cases, ans):
        ctx.corr_cases += 1
        ctx.count(("spec16dec", tuple(u)))
        d = try_decode(struct.pack(">%dH" % len(u), *u), "utf-16-be")
        exp = ("ok", cps(d)) if d is not None else ("err", "ILL-FORMED")
        if (a[0], a[1]) != exp:
            ctx.disagree("Spec.utf16Dec != Python strict utf-16-be", {"units": u, "model": a, "python": list(exp)})


def name_path(ctx, drv, rng, quick, corp_strings, wellformed):
    from PIL import Image
    from psd_tools import PSDImage
    from psd_tools.api.layers import Group, PixelLayer
    from psd_tools.constants import Tag
    from psd_tools.psd import layer_and_mask as LM

    fixtures = ["group.psd", "clipping-mask.psd", "layer-name-emoji.psd", "unicode_pathname.psd", "hidden-groups.psd"]
    pf = core.REPO / "tests" / "psd_files"
    fixtures = [f for f in fixtures if (pf / f).exists()]
    if not quick:
        fixtures = sorted(str(p.relative_to(pf)) for p in list(pf.rglob("*.psd")) + list(pf.rglob("*.psb")))

    def mk_group():
        p = PSDImage.new("RGB", (8, 8))
        g = Group.new("x", parent=p)
        return p, 0

    def mk_pixel():
        p = PSDImage.new("RGB", (8, 8))
        l = PixelLayer.frompil(Image.new("RGB", (4, 4), (9, 8, 7)), p, "x")
        if l not in list(p):
            p.append(l)
        return p, 0

    def mk_nested():
        p = PSDImage.new("RGB", (8, 8))
        g = Group.new("g", parent=p)
        l = PixelLayer.frompil(Image.new("RGB", (4, 4)), p, "x")
        if l in list(p):
            p.remove(l)
        g.append(l)
        return p, 1

    makers = [("api:group", mk_group), ("api:pixel", mk_pixel), ("api:pixel-in-group", mk_nested)]

    def fixture_maker(fn, pick):
        def mk():
            p = PSDImage.open(str(pf / fn))
            ls = list(p.descendants())
            return p, pick % len(ls)
        return mk

    short = [s for s in wellformed if len(s) <= 10]
    names = corp_strings + ["", "a", "\u00e9", "\u00e9" * 200, "\u00e9" * 255, "\u3042", "\u0416\u00e9", "\U0001F47D", "\U0001F47D" * 255,
                            "a\x00b", "\x00", "e\u0301", "a" * 255, "?", "\u00a5", "\uffff"] + rng.sample(short, 8 if quick else 40) + \
        rng.sample(wellformed, 4 if quick else 40)
    names = [n for n in names if len(n) < 256]
    cases = []
    for n in names:
        for enc in ENCODINGS:
            for label, mk in makers:
                if quick and len(n) > 30 and label != "api:pixel":
                    continue
                cases.append((label, mk, n, enc))
    for k, fn in enumerate(fixtures):
        try:
            p = PSDImage.open(str(pf / fn))
            nl = len(list(p.descendants()))
        except Exception as e:  # noqa
            ctx.hist("fixture_not_used", "open:" + type(e).__name__)
            continue
        if nl == 0:
            ctx.hist("fixture_not_used", "no-layers")
            continue
        ctx.hist("fixture_not_used", "used")
        for j in range(2):
            n = rng.choice(names)
            enc = ENCODINGS[(k + j) % len(ENCODINGS)]
            if enc != "macroman":
                # the untouched document must be savable in this encoding (resource names and legacy-only layer
                # names that the encoding cannot express are rejected - correctly - whatever the edited name is)
                try:
                    p.save(io.BytesIO(), encoding=enc)
                    PSDImage.open(str(pf / fn), encoding=enc)
                except Exception:
                    enc = "macroman"
            cases.append((f"fixture:{fn}", fixture_maker(fn, rng.randrange(1000)), n, enc))

    reqs, info = [], []
    for label, mk, n, enc in cases:
        ctx.count(("name", label, n, enc), nontrivial=len(n) > 0)
        ctx.hist("name_doc", label.split(":")[0])
        ctx.hist("name_enc", enc)
        inp = {"op": "name", "doc": label, "s": cps(n), "enc": enc}
        try:
            psd, idx = mk()
            layer = list(psd.descendants())[idx]
            kind = layer.kind
        except Exception as e:  # noqa
            ctx.hist("name_doc_not_prepared", type(e).__name__)
            continue
        ctx.hist("name_layer_kind", kind)
        try:
            layer.name = n
        except Exception as e:  # noqa
            ctx.fail(f"C19/name/setter-raises/{ecls(e)}", "layer.name = s raises for a well-formed name shorter than 256",
                     inp, ecls(e), "stored")
            continue
        if layer.name != n:
            ctx.fail("C19/name/not-observable-at-once", "layer.name != s right after the assignment", inp, cps(layer.name), cps(n))
        rec = layer._record
        mem_legacy = rec.name
        blk = rec.tagged_blocks.get(Tag.UNICODE_LAYER_NAME)
        ub = None
        if blk is not None:
            try:
                tb = blk.tobytes(padding=1)
                ub = tb[12:12 + struct.unpack(">I", tb[8:12])[0]]
            except Exception as e:  # noqa
                ub = ("err", ecls(e))
        # the Pascal field as the real save emits it for this record, and the encoding that reaches it
        # (layer records inside Lr16/Lr32 blocks are written and read with the default MacRoman whatever
        # `encoding` is passed to save/open: TaggedBlock.write does not forward it)
        state = {"on": False, "enc": None, "lb": None}
        orig = LM.write_pascal_string
        orig_we = LM.LayerRecord._write_extra

        def spy(fp, value, encoding="macroman", padding=2):
            start = fp.tell()
            w = orig(fp, value, encoding, padding)
            if state["on"] and state["lb"] is None:
                cur = fp.tell()
                fp.seek(start)
                state["lb"] = fp.read(w)
                fp.seek(cur)
            return w

        def we(self, fp, encoding, version):
            if self is rec:
                state["on"], state["enc"] = True, encoding
            try:
                return orig_we(self, fp, encoding, version)
            finally:
                state["on"] = False

        out = io.BytesIO()
        LM.write_pascal_string = spy
        LM.LayerRecord._write_extra = we
        rec_err = None
        try:
            try:
                psd.save(out, encoding=enc)
            except Exception as e:  # noqa
                rec_err = ecls(e)
        finally:
            LM.write_pascal_string = orig
            LM.LayerRecord._write_extra = orig_we
        lb = state["lb"]
        enc_eff = state["enc"] or enc
        if enc_eff != enc:
            ctx.hist("name_effective_encoding_differs", f"{enc}->{enc_eff}")
        if rec_err is not None:
            res = ("err", rec_err)
        else:
            try:
                q = PSDImage.open(io.BytesIO(out.getvalue()), encoding=enc)
                l2 = list(q.descendants())[idx]
                res = ("ok", l2.name, l2._record.name, l2.kind)
            except Exception as e:  # noqa
                res = ("err", ecls(e))
        # --- property on the real code
        if res[0] == "err":
            e0 = try_encode(mem_legacy, enc_eff)
            if res[1] == "UnicodeError" and e0 is None:
                sig = SIG_NAME_UNENC
            elif res[1] == "struct.error" and e0 is not None and len(e0) > 255:
                sig = SIG_NAME_LONG
            else:
                sig = classify_unicode_failure(n, res[1]) or f"C19/name/save-open-raises/{res[1]}"
            ctx.fail(sig, "layer.name = s; save; open fails", inp, res[1], cps(n))
        elif res[1] != n:
            sig = classify_unicode_failure(n, "differs") or "C19/name/lost-after-save-open"
            ctx.fail(sig, "layer.name = s; save; open; name != s", inp, cps(res[1]), cps(n))
        elif res[3] != kind:
            ctx.fail("C19/name/layer-kind-changed", "the renamed layer changed kind after save/open", inp, res[3], kind)
        # --- byte-level correspondence with the model
        tab = ";".join(sorted({table_entry(n, enc_eff), table_entry("?", enc_eff), table_entry(mem_legacy, enc_eff)}))
        reqs.append(("uni.name", "table", "set", cps(n), "-", tab))
        info.append((inp, mem_legacy, lb, ub, rec_err, res, enc_eff))
        if enc_eff in LEAN_CODEC:
            reqs.append(("uni.name", LEAN_CODEC[enc_eff], "set", cps(n), "-"))
            info.append((inp, mem_legacy, lb, ub, rec_err, res, enc_eff))
    ans = drv.batch(reqs)
    for rq, a, (inp, mem_legacy, lb, ub, rec_err, res, enc) in zip(reqs, ans, info):
        ctx.corr_cases += 1
        if a[0] == "ok":
            m_leg, m_lb, m_ub, m_leg2, m_name = a[1], a[2], a[3], a[4], a[5]
            impl = [cps(mem_legacy), hx(lb) if lb is not None else f"err:{rec_err}", hx(ub) if isinstance(ub, bytes) else str(ub)]
            model = [m_leg, m_lb, m_ub]
            if res[0] == "ok":
                impl.append(cps(res[1]))
                model.append(m_name)
                x = from_cps(m_leg2)          # the string whose encoding the model wrote into the legacy field
                ex = try_encode(x, enc)
                if ex is not None and try_decode(ex, enc) == x:   # codec lawful on it: the re-read legacy name is determined
                    impl.append(cps(res[2]))
                    model.append(m_leg2)
                else:
                    ctx.hist("name_legacy_reread_skipped", "codec-not-lawful-on-legacy-string")
            else:
                impl.append("err:" + res[1])
                model.append(m_name)
            if impl != model or a[6] != "true":
                ctx.disagree("name path: model != code", {"input": inp, "codec": rq[1], "impl": impl, "model": model})
        else:
            stage = a[1]
            impl = f"write:{rec_err}" if rec_err else "ok"
            if stage != impl:
                ctx.disagree("name path: model != code (error)", {"input": inp, "codec": rq[1], "impl": impl, "model": stage})
    lr16_probe(ctx)
    # old files: no unicode block, legacy name written as is (no substitution)
    olds = ["a", "\u00e9", "\u3042", "\u00e9" * 200, ""]
    reqs = []
    for n in olds:
        for enc in ENCODINGS:
            reqs.append(("uni.name", "table", "old", "-", cps(n), table_entry(n, enc)))
    ans = drv.batch(reqs)
    k = 0
    for n in olds:
        for enc in ENCODINGS:
            a = ans[k]
            k += 1
            ctx.corr_cases += 1
            rec = LM.LayerRecord(name=n)
            try:
                b = rec.tobytes(encoding=enc)
                back = LM.LayerRecord.frombytes(b, encoding=enc).name
                impl = ("ok", back)
            except Exception as e:  # noqa
                impl = ("err", "write:" + ecls(e))
            model = ("ok", from_cps(a[5])) if a[0] == "ok" else ("err", a[1])
            if impl != model and not (enc == "shift_jis" and any(c in LOSSY_SJIS for c in n)):
                ctx.disagree("old-file name path: model != code", {"s": cps(n), "enc": enc, "impl": list(impl), "model": list(model)})
            e0 = try_encode(n, enc)
            if e0 is None or len(e0) > 255:
                if impl[0] != "err":
                    ctx.fail("C19/name/no-unicode-block/substituted-or-truncated",
                             "a legacy-only name that the save encoding cannot express was stored instead of rejected",
                             {"op": "oldname", "s": cps(n), "enc": enc}, list(impl), "error")
            elif impl != ("ok", n):
                ctx.fail("C19/name/no-unicode-block/roundtrip-differs", "legacy-only name does not round-trip",
                         {"op": "oldname", "s": cps(n), "enc": enc}, list(impl), cps(n))


def lr16_probe(ctx):
    """A legacy-only layer name (no unicode block) expressible in the save encoding must round-trip in
    8-, 16- and 32-bit documents alike."""
    from psd_tools import PSDImage
    from psd_tools.constants import Tag
    pf = core.REPO / "tests" / "psd_files"
    for fn in ("group.psd", "colormodes/4x4_16bit_rgb.psd", "colormodes/4x4_32bit_rgb.psd"):
        if not (pf / fn).exists():
            ctx.skipped.append(f"legacy-only name probe: {fn} missing")
            continue
        for n, enc in (("\u3042", "shift_jis"), ("\u0416", "maccyrillic"), ("\u00e9", "macroman")):
            inp = {"op": "legacyonly", "doc": fn, "s": cps(n), "enc": enc}
            ctx.count(("legacyonly", fn, n, enc))
            try:
                p = PSDImage.open(str(pf / fn))
                l = list(p.descendants())[0]
                rec = l._record
                if Tag.UNICODE_LAYER_NAME in rec.tagged_blocks:
                    del rec.tagged_blocks[Tag.UNICODE_LAYER_NAME]
                rec.name = n
                out = io.BytesIO()
                p.save(out, encoding=enc)
                q = PSDImage.open(io.BytesIO(out.getvalue()), encoding=enc)
                got = ("ok", list(q.descendants())[0].name)
            except Exception as e:  # noqa
                got = ("err", ecls(e))
            if got != ("ok", n):
                deep = fn != "group.psd" and enc != "macroman"
                ctx.fail(SIG_LR16 if deep else f"C19/name/no-unicode-block/{fn}/{enc}/roundtrip-fails",
                         "legacy-only layer name expressible in the save encoding does not survive save/open",
                         inp, _r(got), cps(n))


def _r(o):
    out = []
    for x in o:
        if isinstance(x, (bytes, bytearray)):
            out.append(hx(x))
        elif isinstance(x, str) and o[0] == "ok" and x != "ok":
            out.append(cps(x))
        else:
            out.append(x)
    return out


def replay(ctx, data):
    import io as _io
    from psd_tools import utils as U
    inp = data.get("input") or {}
    print("replaying", data.get("signature"))
    op = inp.get("op")
    if op == "wus":
        print("write_unicode_string ->", _r(py_write(U.write_unicode_string, from_cps(inp["s"]), inp["pad"])))
    elif op == "rus":
        print("read_unicode_string ->", _r(py_read(U.read_unicode_string, unhx(inp["data"]), inp["pos"], inp["pad"])))
    elif op == "wps":
        print("write_pascal_string ->", _r(py_write(U.write_pascal_string, from_cps(inp["s"]), inp["enc"], inp["pad"])))
    elif op == "rps":
        print("read_pascal_string ->", _r(py_read(U.read_pascal_string, unhx(inp["data"]), inp["pos"], inp["enc"], inp["pad"])))
    elif op == "place":
        places, _ = storage_places()
        for label, kind, make, get, wk, rk in places:
            if label == inp["label"]:
                try:
                    o = make(from_cps(inp["s"]))
                    print(label, "->", repr(get(type(o).frombytes(o.tobytes(**wk), **rk)))[:200])
                except Exception as e:  # noqa
                    print(label, "-> raises", type(e).__name__, e)
    elif op == "name":
        from PIL import Image
        from psd_tools import PSDImage
        from psd_tools.api.layers import Group, PixelLayer
        doc = inp["doc"]
        try:
            if doc.startswith("fixture:"):
                p = PSDImage.open(str(core.REPO / "tests" / "psd_files" / doc.split(":", 1)[1]))
                layer = list(p.descendants())[0]
            else:
                p = PSDImage.new("RGB", (8, 8))
                layer = Group.new("x", parent=p) if doc == "api:group" else PixelLayer.frompil(Image.new("RGB", (4, 4)), p, "x")
                if layer not in list(p.descendants()):
                    p.append(layer)
            layer.name = from_cps(inp["s"])
            out = _io.BytesIO()
            p.save(out, encoding=inp["enc"])
            q = PSDImage.open(_io.BytesIO(out.getvalue()), encoding=inp["enc"])
            print("names after save/open ->", [cps(l.name) for l in q.descendants()][:5])
        except Exception as e:  # noqa
            print("raises", type(e).__name__, e)
    elif op == "legacyonly":
        from psd_tools import PSDImage
        from psd_tools.constants import Tag
        try:
            p = PSDImage.open(str(core.REPO / "tests" / "psd_files" / inp["doc"]))
            rec = list(p.descendants())[0]._record
            if Tag.UNICODE_LAYER_NAME in rec.tagged_blocks:
                del rec.tagged_blocks[Tag.UNICODE_LAYER_NAME]
            rec.name = from_cps(inp["s"])
            out = _io.BytesIO()
            p.save(out, encoding=inp["enc"])
            q = PSDImage.open(_io.BytesIO(out.getvalue()), encoding=inp["enc"])
            print("first layer name after save/open ->", cps(list(q.descendants())[0].name))
        except Exception as e:  # noqa
            print("raises", type(e).__name__, e)
    elif op == "oldname":
        from psd_tools.psd import layer_and_mask as LM
        try:
            b = LM.LayerRecord(name=from_cps(inp["s"])).tobytes(encoding=inp["enc"])
            print("->", cps(LM.LayerRecord.frombytes(b, encoding=inp["enc"]).name))
        except Exception as e:  # noqa
            print("raises", type(e).__name__, e)
    else:
        print("input:", inp)
    print("observed at discovery:", data.get("observed"))
    print("expected:", data.get("expected"))
    return 0
