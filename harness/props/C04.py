"""C04 - channel compression is lossless for every codec, depth, size and file version."""
from __future__ import annotations

import json
import struct
import time
import types
import zlib
from contextlib import contextmanager

import core
import extract_c04
import pyx_emul
from core import hx, unhx, err_class

COMP = core.REPO / "src" / "psd_tools" / "compression"
RAW, RLE, ZIP, ZIPP = 0, 1, 2, 3
CODEC_NAME = {RAW: "raw", RLE: "rle", ZIP: "zip", ZIPP: "zip-prediction"}
DEPTHS = [1, 8, 16, 32]
CONTENTS = ["constant", "runs", "noise", "ramps", "alternating"]


def row_bytes(w, depth):
    """Bytes of one row: rows are padded to whole bytes (Adobe spec; matters for depth 1)."""
    return (w * depth + 7) // 8


def content(rng, kind, n):
    if n == 0:
        return b""
    if kind == "constant":
        return bytes([rng.randrange(256)]) * n
    if kind == "runs":
        out = bytearray()
        while len(out) < n:
            out += bytes([rng.choice([0, 1, 254, 255, rng.randrange(256)])]) * rng.choice([1, 2, 3, 4, 7, 130])
        return bytes(out[:n])
    if kind == "noise":
        return rng.randbytes(n)
    if kind == "ramps":
        step, off = rng.choice([1, 3, 17, 255]), rng.randrange(256)
        return bytes((off + i * step) % 256 for i in range(n))
    a, b = rng.randrange(256), rng.randrange(256)
    return bytes([a, b] * ((n + 1) // 2))[:n]


def norm_err(e: BaseException) -> str:
    c = err_class(e)
    return "Other" if c.startswith("Other") else c


def call(f, *a):
    try:
        r = f(*a)
        return ("ok", bytes(r) if r is not None else None)
    except pyx_emul.OutOfBounds:
        return ("err", "OUT-OF-BOUNDS")
    except Exception as e:  # noqa
        return ("err", norm_err(e))


def answer(fields):
    if fields[0] == "ok":
        return ("ok", unhx(fields[1]))
    return ("err", fields[1] if len(fields) > 1 else fields[0])


def _r(o):
    return [o[0], hx(o[1]) if isinstance(o[1], (bytes, bytearray)) else o[1]]


def short(b, n=48):
    h = hx(b)
    return h if len(h) <= 2 * n else h[:2 * n] + f"...({len(b)} bytes)"


# ---- independent encoders following the Adobe specification (search oracle only) -----------
def packbits_literal(row: bytes) -> bytes:
    out = bytearray()
    for i in range(0, len(row), 128):
        chunk = row[i:i + 128]
        out.append(len(chunk) - 1)
        out += chunk
    return bytes(out)


def packbits_greedy(row: bytes) -> bytes:
    out, i, n = bytearray(), 0, len(row)
    while i < n:
        j = i
        while j + 1 < n and row[j + 1] == row[i] and j + 1 - i < 128:
            j += 1
        if j > i:                                   # run of j-i+1 (2..128) equal bytes
            out += bytes([257 - (j - i + 1), row[i]])
            i = j + 1
            continue
        k = i
        while k < n and k - i < 128 and not (k + 1 < n and row[k] == row[k + 1]):
            k += 1
        k = max(k, i + 1)
        out.append(k - i - 1)
        out += row[i:k]
        i = k
    return bytes(out)


def _rows(data, n):
    return [data[i:i + n] for i in range(0, len(data), n)]


def spec_pred_encode(data: bytes, w, h, depth) -> bytes:
    """Adobe 'ZIP with prediction', before deflate: each scan line is delta coded on its own."""
    out = bytearray()
    if depth == 32:
        for row in _rows(data, 4 * w):
            planes = b"".join(row[k::4] for k in range(4))          # b0 of every pixel, then b1, b2, b3
            out += bytes([planes[0]] + [(planes[i] - planes[i - 1]) & 0xFF for i in range(1, len(planes))])
        return bytes(out)
    size = depth // 8
    mod = 1 << depth
    for row in _rows(data, size * w):
        words = [int.from_bytes(row[i:i + size], "big") for i in range(0, len(row), size)]
        deltas = [words[0]] + [(words[i] - words[i - 1]) % mod for i in range(1, len(words))]
        out += b"".join(x.to_bytes(size, "big") for x in deltas)
    return bytes(out)


def spec_pred_decode(enc: bytes, w, h, depth) -> bytes:
    out = bytearray()
    if depth == 32:
        for row in _rows(enc, 4 * w):
            acc, planes = 0, bytearray()
            for i, b in enumerate(row):
                acc = b if i == 0 else (acc + b) & 0xFF
                planes.append(acc)
            for i in range(w):
                out += bytes(planes[k * w + i] for k in range(4))
        return bytes(out)
    size = depth // 8
    mod = 1 << depth
    for row in _rows(enc, size * w):
        acc = 0
        for i in range(0, len(row), size):
            v = int.from_bytes(row[i:i + size], "big")
            acc = v if i == 0 else (acc + v) % mod
            out += acc.to_bytes(size, "big")
    return bytes(out)


def spec_stream(data: bytes, w, h, depth, version, rowenc):
    rs = row_bytes(w, depth)
    rows = [rowenc(data[k * rs:(k + 1) * rs]) for k in range(h)]
    fmt = ">H" if version == 1 else ">I"
    if any(len(r) >= (1 << (16 * version)) for r in rows):
        return None
    return b"".join(struct.pack(fmt, len(r)) for r in rows) + b"".join(rows)


# ---- implementations -----------------------------------------------------------------------
@contextmanager
def rle_impl(mod):
    import psd_tools.compression as C
    old = C.rle_impl
    C.rle_impl = mod
    try:
        yield
    finally:
        C.rle_impl = old


def classify(codec, w, h, depth, version, what):
    if codec == RLE and depth == 1 and w % 8 != 0:
        return "C04/rle/depth1-width-not-multiple-of-8"
    if codec == RLE and w == 0 and h > 0:
        return "C04/rle/zero-width-rows"
    return f"C04/{CODEC_NAME[codec]}/{what}/depth{depth}/v{version}"


def allowed_rejection(codec, w, h, depth, version, err, rows_fit):
    """compress may refuse (never corrupt): the row table overflow, 1-bit prediction,
    the zero-width 32-bit shuffle."""
    if codec == RLE and err == "OverflowError" and not rows_fit:
        return "row-table-overflow"
    if codec == ZIPP and depth == 1 and err == "ValueError":
        return "prediction-depth-1"
    if codec == ZIPP and depth == 32 and w == 0 and err == "ValueError":
        return "prediction-depth32-zero-width"
    return None


def run(ctx: core.Run):
    gen = ctx.regenerate(extract_c04.gen_compression)
    import extract
    ctx.regenerate(extract.gen_rle)
    ctx.prove(["PsdVerif.Props.C04"])
    ctx.trusted_base += [
        "Lean 4.33 kernel; axioms allowed: propext, Classical.choice, Quot.sound (audited per theorem)",
        "Model/Compression.lean is a hand transliteration of compression/__init__.py (+ utils.be_array_*); tied by this "
        "run's correspondence check and by the regenerated row-size table / table formats / prediction parameters",
        "Model/Rle.lean (C05) for the per-row codec; the Cython decoder equals the Python one by C05.impl_agree_dec",
        "harness/pyx_emul.py: translation of _rle.pyx to Python with C integer and bounds semantics",
        "zlib: parameter of the model with hypothesis inflate (deflate x) = x, exercised on every zip case of the run",
    ]
    ctx.assumptions += [
        "zlib.decompress(zlib.compress(x)) == x (hypothesis ZCodec.Lawful; exercised dynamically, not proved)",
        "little-endian host with array('H').itemsize == 2 and array('I').itemsize == 4 (regenerated and checked)",
        "raster bytes follow the row geometry: len(data) == ceil(width*depth/8) * height, depth in {1, 8, 16, 32}",
        "PSD/PSB row tables: every encoded row is shorter than 2^16 (version 1) / 2^32 (version 2) -- otherwise compress "
        "raises OverflowError (run on the real code: rejection, not corruption)",
    ]

    import psd_tools.compression as C
    from psd_tools.compression import rle as rle_py
    from psd_tools.constants import Compression

    try:
        enc_c, dec_c, _ = pyx_emul.load(COMP / "_rle.pyx")
        pyx_mod = types.SimpleNamespace(encode=enc_c, decode=dec_c, __name__="emulated _rle.pyx")
    except pyx_emul.EmulError as e:
        pyx_mod = None
        ctx.disagree("pyx emulator cannot translate the current _rle.pyx: %s" % e, None)
    impls = [("py", rle_py)] + ([("pyx", pyx_mod)] if pyx_mod else [])
    ctx.skipped.append("the prebuilt _rle .so (what `rle_impl` is when importable) is not used: every case runs with "
                       "rle_impl patched to rle.py and to the emulation of the current _rle.pyx")

    quick = ctx.quick
    rng = ctx.rng
    drv = ctx.driver()
    t_budget = time.time()

    # ---------------- cases: (data, codec, w, h, depth, version, tag)
    cases = []
    corpus = core.VERIF / "harness" / "corpus" / "C04.json"
    if corpus.exists():
        for c in json.loads(corpus.read_text()):
            cases.append((unhx(c["data"]), c["codec"], c["w"], c["h"], c["depth"], c["version"], "corpus"))
    top = 4 if quick else 6
    for w in range(0, top + 1):
        for h in range(0, top + 1):
            for depth in DEPTHS:
                n = row_bytes(w, depth) * h
                for version in (1, 2):
                    for codec in (RAW, RLE, ZIP, ZIPP):
                        for kind in CONTENTS:
                            cases.append((content(rng, kind, n), codec, w, h, depth, version, "small"))
    crit = [1, 2, 127, 128, 129, 130, 131, 255, 256, 257, 258]
    for w in crit:
        for h in ((1, 3) if quick else (1, 2, 3)):
            for depth in DEPTHS:
                n = row_bytes(w, depth) * h
                for version in (1, 2):
                    for codec in (RAW, RLE, ZIP, ZIPP):
                        for kind in (("runs", "noise") if quick else CONTENTS):
                            cases.append((content(rng, kind, n), codec, w, h, depth, version, "critical"))
    # 1-bit widths around byte boundaries (the rows are padded to whole bytes)
    for w in [7, 8, 9, 15, 16, 17, 23, 24, 25, 1023, 1024, 1025]:
        for h in (1, 2, 5):
            for version in (1, 2):
                for codec in (RAW, RLE, ZIP):
                    cases.append((content(rng, rng.choice(CONTENTS), row_bytes(w, 1) * h), codec, w, h, 1, version, "bitmap"))
    if not quick:
        for w in (16383, 16384, 16385):
            for depth in DEPTHS:
                n = row_bytes(w, depth) * 2
                for version in (1, 2):
                    for codec in (RAW, RLE, ZIP, ZIPP):
                        for kind in ("constant", "runs", "noise"):
                            cases.append((content(rng, kind, n), codec, w, 2, depth, version, "wide"))
    # the PSD (version 1) row-table overflow point: an incompressible row of >= 65024 bytes
    for (w, depth) in ([(16384, 32)] if quick else [(16384, 32), (16256, 32), (32512, 16), (65100, 8)]):
        d = content(rng, "noise", row_bytes(w, depth))
        cases.append((d, RLE, w, 1, depth, 1, "overflow-point"))
        cases.append((d, RLE, w, 1, depth, 2, "overflow-point"))
    # data that does not follow the geometry (short / long), odd versions: model = code on the error paths
    for _ in range(150 if quick else 1500):
        w, h = rng.randrange(0, 6), rng.randrange(0, 5)
        depth = rng.choice(DEPTHS + [24, 0])
        n = max(0, row_bytes(w, depth) * h + rng.choice([-3, -2, -1, 1, 2, 5]))
        version = rng.choice([1, 1, 2, 2, 0, 3])
        cases.append((content(rng, rng.choice(CONTENTS), n), rng.choice([RAW, RLE, ZIP, ZIPP]), w, h, depth, version, "off-geometry"))

    # ---------------- compress: model vs implementation(s), then decompress what the implementation produced
    m_comp = drv.batch([("cmp.compress", hx(d), c, w, h, depth, v) for (d, c, w, h, depth, v, _) in cases])
    dec_reqs, dec_meta = [], []
    zip_checked = 0
    for (d, c, w, h, depth, v, tag), a in zip(cases, m_comp):
        model = answer(a)
        valid = depth in DEPTHS and len(d) == row_bytes(w, depth) * h and v in (1, 2)
        rows_fit = True
        if c == RLE and valid:
            rs = row_bytes(w, depth)
            rows_fit = all(len(rle_py.encode(d[k * rs:(k + 1) * rs])) < (1 << (16 * v)) for k in range(h))
        for name, mod in (impls if c == RLE else impls[:1]):
            with rle_impl(mod):
                o = call(C.compress, d, Compression(c), w, h, depth, v)
            ctx.corr_cases += 1
            ctx.count(("compress", d, c, w, h, depth, v, name), nontrivial=len(d) > 0)
            ctx.hist("codec", CODEC_NAME[c])
            ctx.hist("depth", depth)
            ctx.hist("class", tag)
            stage = o
            if o[0] == "ok" and c in (ZIP, ZIPP):
                stage = ("ok", zlib.decompress(o[1]))        # the bytes handed to zlib
                if zlib.decompress(zlib.compress(stage[1])) != stage[1]:
                    ctx.fail("C04/zlib/inflate-deflate", "zlib.decompress(zlib.compress(x)) != x", {"data": hx(stage[1])})
                zip_checked += 1
            if stage != model:
                ctx.disagree(f"compress: model != {name}", dict(data=short(d), codec=c, w=w, h=h, depth=depth, version=v,
                                                                 impl=_short_r(stage), model=_short_r(model)))
            ctx.hist("compress_outcome", o[1] if o[0] == "err" else "ok")
            if o[0] == "err":
                if valid:
                    why = allowed_rejection(c, w, h, depth, v, o[1], rows_fit)
                    if why is None:
                        ctx.fail(classify(c, w, h, depth, v, "compress-raises-" + o[1]), f"compress raises {o[1]} on a well-formed raster",
                                 dict(data=hx(d), codec=c, w=w, h=h, depth=depth, version=v, impl=name), _r(o), "compressed bytes")
                    else:
                        ctx.hist("rejections", why)
                continue
            if valid and c == RLE and not rows_fit:
                ctx.fail(classify(c, w, h, depth, v, "row-table-overflow-not-rejected"),
                         "a row longer than the row-table item was stored", dict(data=hx(d), codec=c, w=w, h=h, depth=depth, version=v, impl=name),
                         "ok", "OverflowError")
            # decompress what was produced (real code), property on the real code
            with rle_impl(mod):
                back = call(C.decompress, o[1], Compression(c), w, h, depth, v)
            if valid and back != ("ok", d):
                ctx.fail(classify(c, w, h, depth, v, "roundtrip"), "decompress(compress(x)) != x",
                         dict(data=hx(d), codec=c, w=w, h=h, depth=depth, version=v, impl=name), _short_r(back), short(d))
            dec_reqs.append(("cmp.decompress", hx(stage[1]), c, w, h, depth, v))
            dec_meta.append((back, name, dict(data=short(stage[1]), codec=c, w=w, h=h, depth=depth, version=v)))
    for a, (back, name, meta) in zip(drv.batch(dec_reqs), dec_meta):
        ctx.corr_cases += 1
        ctx.hist("decompress_outcome", back[1] if back[0] == "err" else "ok")
        if answer(a) != back:
            ctx.disagree(f"decompress: model != {name}", dict(meta, impl=_short_r(back), model=_short_r(answer(a))))
    ctx.sample({"compress": dict(data=short(cases[len(cases) // 3][0]), codec=cases[len(cases) // 3][1], whd=cases[len(cases) // 3][2:6])})

    # ---------------- malformed / foreign streams into decompress: model = code on every path
    mal = []
    base = [cs for cs in cases if cs[6] in ("small", "critical", "bitmap") and cs[1] in (RLE, ZIPP, RAW)]
    for _ in range(600 if quick else 6000):
        d, c, w, h, depth, v, _t = rng.choice(base)
        with rle_impl(rle_py):
            o = call(C.compress, d, Compression(c), w, h, depth, v)
        if o[0] != "ok":
            continue
        e = bytearray(zlib.decompress(o[1]) if c == ZIPP else o[1])
        k = rng.randrange(6)
        if k == 0 and e:
            del e[rng.randrange(len(e)):]
        elif k == 1 and e:
            e[rng.randrange(min(len(e), 2 * h * v + 1))] = rng.choice([0, 1, 2, 127, 128, 129, 255])
        elif k == 2:
            e += bytes(rng.choice([0, 128, 255]) for _ in range(rng.randrange(1, 4)))
        elif k == 3:
            w = max(0, w + rng.choice([-1, 1]))
        elif k == 4:
            h = max(0, h + rng.choice([-1, 1]))
        else:
            depth, v = rng.choice(DEPTHS), rng.choice([1, 2, 0, 3])
        mal.append((bytes(e), c, w, h, depth, v))
    m_mal = drv.batch([("cmp.decompress", hx(e), c, w, h, depth, v) for (e, c, w, h, depth, v) in mal])
    for (e, c, w, h, depth, v), a in zip(mal, m_mal):
        wire = zlib.compress(e) if c == ZIPP else e
        for name, mod in (impls if c == RLE else impls[:1]):
            with rle_impl(mod):
                o = call(C.decompress, wire, Compression(c), w, h, depth, v)
            ctx.corr_cases += 1
            ctx.count(("mal", e, c, w, h, depth, v, name), nontrivial=True)
            ctx.hist("malformed_outcome", o[1] if o[0] == "err" else "ok")
            if o != answer(a):
                ctx.disagree(f"decompress(malformed): model != {name}",
                             dict(data=short(e), codec=c, w=w, h=h, depth=depth, version=v, impl=_short_r(o), model=_short_r(answer(a))))

    # ---------------- stage functions: prediction codec, shuffle
    st = []
    for _ in range(300 if quick else 3000):
        w, h = rng.randrange(0, 7), rng.randrange(0, 5)
        depth = rng.choice([8, 16, 32, 32])
        n = max(0, row_bytes(w, depth) * h + rng.choice([0, 0, 0, 0, -1, 1, 4]))
        st.append((content(rng, rng.choice(CONTENTS), n), w, h, depth))
    for (d, w, h, depth), a_e, a_d in zip(st, drv.batch([("cmp.encPred", hx(d), w, h, depth) for d, w, h, depth in st]),
                                          drv.batch([("cmp.decPred", hx(d), w, h, depth) for d, w, h, depth in st])):
        for fn, a, f in (("encode_prediction", a_e, C.encode_prediction), ("decode_prediction", a_d, C.decode_prediction)):
            o = call(f, d, w, h, depth)
            ctx.corr_cases += 1
            ctx.count((fn, d, w, h, depth), nontrivial=len(d) > 0)
            if o != answer(a):
                ctx.disagree(f"{fn}: model != impl", dict(data=short(d), w=w, h=h, depth=depth, impl=_short_r(o), model=_short_r(answer(a))))
    import array as _array
    sh = [(content(rng, "noise", max(0, 4 * w * h + rng.choice([0, 0, 0, -1, 3]))), w, h)
          for w in range(0, 6) for h in range(0, 4) for _ in range(2)]
    for (d, w, h), a_s, a_r in zip(sh, drv.batch([("cmp.shuffle", hx(d), w, h) for d, w, h in sh]),
                                   drv.batch([("cmp.restore", hx(d), w, h) for d, w, h in sh])):
        for fn, a, f in (("_shuffle_byte_order", a_s, C._shuffle_byte_order), ("_restore_byte_order", a_r, C._restore_byte_order)):
            o = call(lambda: f(_array.array("B", d), w, h).tobytes())
            ctx.corr_cases += 1
            ctx.count((fn, d, w, h), nontrivial=len(d) > 0)
            if o != answer(a):
                ctx.disagree(f"{fn}: model != impl", dict(data=short(d), w=w, h=h, impl=_short_r(o), model=_short_r(answer(a))))

    # ---------------- containers
    containers(ctx, drv, rng, impls, quick)

    # ---------------- histories: the laws over SEQUENCES and INTERLEAVINGS of calls
    histories(ctx, rng, impls, quick)

    # ---------------- search: streams of independent encoders must decode to the pixels
    n_spec = 0
    for (d, c, w, h, depth, v, tag) in cases:
        if c != RLE or tag == "off-geometry" or depth not in DEPTHS or len(d) != row_bytes(w, depth) * h or v not in (1, 2):
            continue
        if tag == "wide" and depth != 8:
            continue
        for ename, rowenc in (("literal-only", packbits_literal), ("greedy", packbits_greedy)):
            s = spec_stream(d, w, h, depth, v, rowenc)
            if s is None:
                continue
            for name, mod in impls:
                with rle_impl(mod):
                    o = call(C.decompress, s, Compression.RLE, w, h, depth, v)
                n_spec += 1
                ctx.count(("spec", ename, d, w, h, depth, v, name), nontrivial=len(d) > 0)
                if o != ("ok", d):
                    ctx.fail(classify(RLE, w, h, depth, v, f"spec-stream-{ename}"),
                             f"a conforming {ename} PackBits stream does not decode to the pixels ({name})",
                             dict(data=hx(d), stream=hx(s), codec=RLE, w=w, h=h, depth=depth, version=v, impl=name), _short_r(o), short(d))
    # the same for ZIP with prediction: an independent delta / byte-shuffle coder written from the Adobe
    # specification (per SCAN LINE; big-endian words; 32-bit rows split into four byte planes), both directions
    import zlib as _z
    n_pred = 0
    for (d, c, w, h, depth, v, tag) in cases:
        if depth not in (8, 16, 32) or tag == "off-geometry" or w == 0 or h == 0 or len(d) != w * h * depth // 8:
            continue
        if tag == "wide" and depth != 8:
            continue
        key = ("pred", d, w, h, depth)
        if key in ctx.distinct:
            continue
        enc = spec_pred_encode(d, w, h, depth)
        o = call(C.decompress, _z.compress(enc), Compression.ZIP_WITH_PREDICTION, w, h, depth, 1)
        n_pred += 1
        ctx.count(key, nontrivial=h >= 2 and w >= 2)
        if o != ("ok", d):
            ctx.fail(classify(ZIPP, w, h, depth, 1, "spec-stream-prediction"),
                     "a conforming ZIP-with-prediction stream does not decode to the pixels",
                     dict(data=hx(d), predicted=hx(enc), w=w, h=h, depth=depth), _short_r(o), short(d))
        o2 = call(C.compress, d, Compression.ZIP_WITH_PREDICTION, w, h, depth, 1)
        if o2[0] == "ok":
            back = spec_pred_decode(_z.decompress(o2[1]), w, h, depth)
            if back != d:
                ctx.fail(classify(ZIPP, w, h, depth, 1, "library-stream-not-spec-prediction"),
                         "the library's ZIP-with-prediction stream does not decode to the pixels under the specification's decoder",
                         dict(data=hx(d), w=w, h=h, depth=depth), short(back), short(d))
    ctx.extra["spec_prediction_streams"] = n_pred
    ctx.extra["spec_encoder_streams"] = n_spec
    ctx.extra["zlib_assumption_exercised"] = zip_checked
    ctx.extra["generated_constants"] = gen
    ctx.extra["implementations_compared"] = [n for n, _ in impls]

    ctx.rule = (
        "codec level: every shape w,h in 0..%d x depth {1,8,16,32} x version {1,2} x codec {raw,rle,zip,zip+prediction} x content "
        "{constant, runs, noise, ramps, alternating} (exhaustive over the shapes, contents seeded), critical widths 1,2,127..131,255..258%s, "
        "1-bit widths around byte boundaries, the PSD row-table overflow point, off-geometry data and versions 0/3 (error paths), "
        "mutated streams into decompress, the prediction/shuffle stages alone, container calls (ChannelData, ImageData with a FileHeader, "
        "VirtualMemoryArray). RLE cases run twice: rle_impl = rle.py and = the emulation of the current _rle.pyx. zlib bytes are not "
        "compared: the stage before deflate is. A case is non-trivial when the raster has at least one byte; distinct = distinct "
        "(function, bytes, geometry, implementation) tuples." % (top, "" if quick else ", 16383..16385")
    )
    ctx.model_coverage = {
        "modelled": ["compress", "decompress", "encode_rle", "decode_rle", "encode_prediction", "decode_prediction", "_delta_encode",
                     "_delta_decode", "_shuffled_order", "_shuffle_byte_order", "_restore_byte_order", "utils.be_array_from_bytes/to_bytes, "
                     "read_be_array/write_be_array (as big-endian item lists)", "ChannelData.get_data/set_data", "ImageData.get_data/set_data",
                     "VirtualMemoryArray.get_data/set_data"],
        "parameter": ["zlib.compress/zlib.decompress"],
        "not_modelled": ["decompress: the `result is None` branch (unreachable: no codec returns None)", "logging"],
    }
    ctx.notes += [
        "compress refuses (ValueError/OverflowError, nothing stored) on: 1-bit data with ZIP_WITH_PREDICTION, zero-width 32-bit data with "
        "ZIP_WITH_PREDICTION (range() step 0 in _shuffled_order), a row whose PackBits form does not fit the row-table item; these are "
        "hypotheses of compress_roundtrip and are run on the real code (histogram `rejections`)",
        "VirtualMemoryArray.get_data takes width/height from rectangle[3]/rectangle[2] (right/bottom): equal to the size only for "
        "rectangles anchored at (0,0), which is what set_data stores; rectangles read from files are outside this property",
    ]
    ctx.extra["phase_wall_s"] = round(time.time() - t_budget, 1)
    if ctx.tier == "thorough":
        ctx.recheck(["PsdVerif.Props.C04"])


# ---- laws over histories ------------------------------------------------------------------------
def _packbits_spec_decode(e: bytes):
    out, i = bytearray(), 0
    while i < len(e):
        hd = e[i]
        i += 1
        if hd < 128:
            if i + hd + 1 > len(e):
                return None
            out += e[i:i + hd + 1]
            i += hd + 1
        elif hd > 128:
            if i >= len(e):
                return None
            out += bytes([e[i]]) * (257 - hd)
            i += 1
    return bytes(out)


def spec_reading(stream: bytes, codec, w, h, depth, version):
    """What a reader written from the Adobe specification gets out of `stream` (None: not a conforming stream).
    Independent of the library and of whatever the library did before."""
    try:
        if codec == RAW:
            return bytes(stream)
        if codec == ZIP:
            return zlib.decompress(stream)
        if codec == ZIPP:
            return spec_pred_decode(zlib.decompress(stream), w, h, depth)
        cw = 2 * version
        if len(stream) < cw * h:
            return None
        counts = [int.from_bytes(stream[k * cw:(k + 1) * cw], "big") for k in range(h)]
        pos = cw * h
        if sum(counts) != len(stream) - pos:
            return None
        out = bytearray()
        for c in counts:
            row = _packbits_spec_decode(stream[pos:pos + c])
            pos += c
            if row is None or len(row) != row_bytes(w, depth):
                return None
            out += row
        return bytes(out)
    except Exception:  # noqa
        return None


def spec_writing(d: bytes, codec, w, h, depth, version):
    """A conforming stream for the raster, produced without the library."""
    if codec == RAW:
        return d
    if codec == ZIP:
        return zlib.compress(d)
    if codec == ZIPP:
        return zlib.compress(spec_pred_encode(d, w, h, depth))
    return spec_stream(d, w, h, depth, version, packbits_greedy)


HIST_SHAPES = [(1, 6), (6, 1), (2, 3), (3, 2), (1, 4), (4, 1), (2, 2), (2, 6), (6, 2), (3, 4), (4, 3), (12, 1), (1, 12),
               (4, 6), (6, 4), (12, 2), (2, 12)]


def histories(ctx, rng, impls, quick):
    """compress A, compress B, THEN decompress A (and B): every ordered pair of configurations (shape, depth) from a
    small set that contains, for every member, a transposed shape of equal area and rasters of equal byte length at
    the other depths; every codec; each compressed stream is also read by the independent specification reader and a
    stream written by the independent specification writer is decoded - whatever was processed before. Then whole
    batches: all rasters of a depth written, then all read back (in order and in reverse), at the codec level and
    through ChannelData objects."""
    import psd_tools.compression as C
    from psd_tools.constants import Compression
    from psd_tools.psd.layer_and_mask import ChannelData

    confs = [(w, h, depth) for depth in (8, 16, 32) for (w, h) in HIST_SHAPES]
    confs += [(8, 3, 1), (16, 3, 1), (24, 1, 1), (24, 2, 1)]
    rasters = {}
    for k, (w, h, depth) in enumerate(confs):
        n = row_bytes(w, depth) * h
        rasters[(w, h, depth)] = content(rng, "noise" if k % 3 else "ramps", n)
    n_hist = 0

    def step(hist, op, codec, w, h, depth, version, payload):
        hist.append(dict(op=op, codec=codec, w=w, h=h, depth=depth, version=version, data=hx(payload)))
        f = C.compress if op == "compress" else C.decompress
        return call(f, payload, Compression(codec), w, h, depth, version)

    def bad(codec, cf, version, what, msg, hist, observed, expected, name):
        w, h, depth = cf
        ctx.fail(classify(codec, w, h, depth, version, "history/" + what), msg + f" ({name})",
                 dict(history=list(hist), failing_step=len(hist) - 1, impl=name), observed, expected)

    pairs = [(a, b) for a in confs for b in confs if a != b]
    for (a, b) in pairs:
        da, db = rasters[a], rasters[b]
        for codec in (RAW, RLE, ZIP, ZIPP):
            if codec == ZIPP and 1 in (a[2], b[2]):
                continue
            version = 1 + (n_hist % 2)
            for name, mod in (impls if codec == RLE else impls[:1]):
                n_hist += 1
                ctx.count(("history", a, b, codec, version, name))
                hist = []
                with rle_impl(mod):
                    ca = step(hist, "compress", codec, *a, version, da)
                    if ca[0] != "ok":
                        continue
                    cb = step(hist, "compress", codec, *b, version, db)
                    if cb[0] != "ok":
                        continue
                    if spec_reading(cb[1], codec, *b, version) != db:
                        bad(codec, b, version, "stream-not-the-specification",
                            "after compressing another raster, compress produces a stream the specification's reader does not "
                            "expand to the pixels", hist, short(cb[1]), short(db), name)
                    if spec_reading(ca[1], codec, *a, version) != da:
                        bad(codec, a, version, "stream-not-the-specification", "compress produces a stream the specification's "
                            "reader does not expand to the pixels", hist[:1], short(ca[1]), short(da), name)
                    ra = step(hist, "decompress", codec, *a, version, ca[1])
                    if ra != ("ok", da):
                        bad(codec, a, version, "roundtrip-across-another-call",
                            "compress A, compress B, decompress A: A does not come back", hist, _short_r(ra), short(da), name)
                    rb = step(hist, "decompress", codec, *b, version, cb[1])
                    if rb != ("ok", db):
                        bad(codec, b, version, "roundtrip-across-another-call",
                            "compress A, compress B, decompress A, decompress B: B does not come back", hist, _short_r(rb), short(db), name)
                    sa = spec_writing(da, codec, *a, version)
                    if sa is not None:
                        rs = step(hist, "decompress", codec, *a, version, sa)
                        if rs != ("ok", da):
                            bad(codec, a, version, "spec-stream-after-other-calls",
                                "a conforming stream does not decode to the pixels after other rasters were processed", hist,
                                _short_r(rs), short(da), name)
    ctx.extra["history_pairs"] = n_hist
    # ---- whole batches: everything written, then everything read
    n_batch = 0
    for depth in (1, 8, 16, 32):
        group = [cf for cf in confs if cf[2] == depth]
        for codec in (RAW, RLE, ZIP, ZIPP):
            if codec == ZIPP and depth == 1:
                continue
            for version in (1, 2):
                for name, mod in (impls if codec == RLE else impls[:1]):
                    with rle_impl(mod):
                        hist, streams = [], []
                        for cf in group:
                            streams.append(step(hist, "compress", codec, *cf, version, rasters[cf]))
                        order = list(range(len(group)))
                        for idxs in (order, order[::-1]):
                            for k in idxs:
                                if streams[k][0] != "ok":
                                    continue
                                n_batch += 1
                                r = step(hist, "decompress", codec, *group[k], version, streams[k][1])
                                if r != ("ok", rasters[group[k]]):
                                    # shrink to: all writes, this read
                                    bad(codec, group[k], version, "all-written-then-all-read",
                                        "all rasters compressed, then read back: one does not come back", hist,
                                        _short_r(r), short(rasters[group[k]]), name)
                        # through container objects: one ChannelData per channel, all set, then all got
                        objs = [ChannelData(compression=codec) for _ in group]
                        ok = []
                        for o, cf in zip(objs, group):
                            ok.append(call(lambda: (o.set_data(rasters[cf], *cf, version), b"")[1])[0] == "ok")
                        for o, cf, fine in zip(objs, group, ok):
                            if not fine:
                                continue
                            n_batch += 1
                            g = call(o.get_data, *cf, version)
                            if g != ("ok", rasters[cf]):
                                ctx.fail(classify(codec, *cf, version, "history/channels-all-set-then-all-got"),
                                         f"ChannelData.set_data on every channel, then get_data on every channel: one differs ({name})",
                                         dict(history=[dict(op="ChannelData.set_data", codec=codec, w=c[0], h=c[1], depth=c[2],
                                                            version=version, data=hx(rasters[c])) for c in group]
                                              + [dict(op="ChannelData.get_data", index=group.index(cf))], impl=name),
                                         _short_r(g), short(rasters[cf]))
                            elif spec_reading(o.data, codec, *cf, version) != rasters[cf]:
                                ctx.fail(classify(codec, *cf, version, "history/channel-stream-not-the-specification"),
                                         f"ChannelData.set_data on every channel: a stored stream is not what the specification's reader expands to the pixels ({name})",
                                         dict(history=[dict(op="ChannelData.set_data", codec=codec, w=c[0], h=c[1], depth=c[2],
                                                            version=version, data=hx(rasters[c])) for c in group[:group.index(cf) + 1]],
                                              impl=name), short(o.data), short(rasters[cf]))
    ctx.count(("history-batches",), n=n_batch)
    ctx.extra["history_batch_reads"] = n_batch
    ctx.hist("history", "pairs", n_hist)
    ctx.hist("history", "batch reads", n_batch)


def _short_r(o):
    return [o[0], short(o[1]) if isinstance(o[1], (bytes, bytearray)) else o[1]]


def containers(ctx, drv, rng, impls, quick):
    import psd_tools.compression as C  # noqa
    from psd_tools.constants import ColorMode, Compression
    from psd_tools.psd.header import FileHeader
    from psd_tools.psd.image_data import ImageData
    from psd_tools.psd.layer_and_mask import ChannelData
    from psd_tools.psd.patterns import VirtualMemoryArray

    shapes = [(w, h) for w in (1, 2, 3, 5, 8, 9, 129) for h in (1, 2, 4)]
    if quick:
        shapes = shapes[::2]
    jobs = []
    for (w, h) in shapes:
        for depth in DEPTHS:
            for codec in (RAW, RLE, ZIP, ZIPP):
                for version in (1, 2):
                    jobs.append((w, h, depth, codec, version, rng.choice([1, 2, 3, 4]), rng.choice(CONTENTS)))
    reqs, meta = [], []
    for (w, h, depth, codec, version, ch, kind) in jobs:
        pn = row_bytes(w, depth) * h
        for name, mod in (impls if codec == RLE else impls[:1]):
            with rle_impl(mod):
                # --- ChannelData
                d = content(rng, kind, pn)
                cd = ChannelData(compression=codec)
                o = call(lambda: (cd.set_data(d, w, h, depth, version), cd.data)[1])
                g = call(cd.get_data, w, h, depth, version) if o[0] == "ok" else None
                _container_case(ctx, "ChannelData", name, codec, w, h, depth, version, d, o, g,
                                reqs, meta, ("cmp.compress", hx(d), codec, w, h, depth, version),
                                lambda st: ("cmp.decompress", hx(st), codec, w, h, depth, version))
                # --- ImageData with a header
                planes = [content(rng, kind, pn) for _ in range(ch)]
                hdr = FileHeader(version=version, channels=ch, height=h, width=w, depth=depth,
                                 color_mode=ColorMode.BITMAP if depth == 1 else ColorMode.MULTICHANNEL)
                im = ImageData(compression=codec)
                o = call(lambda: (im.set_data(planes, hdr), im.data)[1])
                g = None
                if o[0] == "ok":
                    try:
                        g = ("ok", [bytes(p) for p in im.get_data(hdr)])
                    except Exception as e:  # noqa
                        g = ("err", norm_err(e))
                _container_case(ctx, "ImageData", name, codec, w, h, depth, version, planes, o, g,
                                reqs, meta, ("cmp.imageSet", ",".join(hx(p) for p in planes), codec, w, h, ch, depth, version),
                                lambda st: ("cmp.imageGet", hx(st), codec, w, h, ch, depth, version))
                # --- VirtualMemoryArray (always version 1)
                if version == 1:
                    d = content(rng, kind, pn)
                    vm = VirtualMemoryArray()
                    o = call(lambda: (vm.set_data((w, h), d, depth, codec), vm.data)[1])
                    g = call(vm.get_data) if o[0] == "ok" else None
                    rect = tuple(vm.rectangle) if o[0] == "ok" else None
                    _container_case(ctx, "VirtualMemoryArray", name, codec, w, h, depth, 1, d, o, g,
                                    reqs, meta, ("cmp.vmaSet", hx(d), codec, w, h, depth),
                                    lambda st: ("cmp.vmaGet", hx(st), codec, *rect, depth), rect=rect)
    # --- a container is a variable, not a one-shot: write, read, write other pixels, read again on the SAME object
    # (a read must reflect the last write, also when the new stream has the same length as the old one)
    for (w, h, depth, codec, version, ch, kind) in jobs[:: (3 if quick else 1)]:
        pn = row_bytes(w, depth) * h
        if pn == 0:
            continue
        a = content(rng, kind, pn)
        b = bytes((x + 1) % 256 for x in a) if codec in (RAW, ZIP) else bytes(reversed(a))
        b = b if b != a else bytes((x ^ 0x55) for x in a)
        hdr = FileHeader(version=version, channels=1, height=h, width=w, depth=depth,
                         color_mode=ColorMode.BITMAP if depth == 1 else ColorMode.MULTICHANNEL)
        objs = [("ChannelData", ChannelData(compression=codec),
                 lambda o, d: o.set_data(d, w, h, depth, version), lambda o: bytes(o.get_data(w, h, depth, version))),
                ("ImageData", ImageData(compression=codec),
                 lambda o, d: o.set_data([d], hdr), lambda o: bytes(o.get_data(hdr)[0]))]
        if version == 1:
            objs.append(("VirtualMemoryArray", VirtualMemoryArray(),
                         lambda o, d: o.set_data((w, h), d, depth, codec), lambda o: bytes(o.get_data())))
        for cname, obj, setter, getter in objs:
            def seq():
                setter(obj, a)
                r1 = getter(obj)
                setter(obj, b)
                r2 = getter(obj)
                return r1, r2
            ctx.count(("rewrite", cname, codec, w, h, depth, version, a), nontrivial=True)
            try:
                r1, r2 = seq()
            except Exception:  # noqa  (refusals are judged by the single-shot cases above)
                continue
            if r1 == a and r2 != b:
                ctx.fail(f"C04/container/{cname}/read-after-second-write-returns-stale-data/{CODEC_NAME[codec]}",
                         f"{cname}: set_data(A); get_data(); set_data(B); get_data() does not return B",
                         dict(container=cname, codec=codec, w=w, h=h, depth=depth, version=version, a=hx(a), b=hx(b)),
                         short(r2), short(b))
    ans = drv.batch(reqs)
    for a, (kind, cont, name, expect, info) in zip(ans, meta):
        ctx.corr_cases += 1
        if kind == "set":
            got = answer(a)
            if cont == "VirtualMemoryArray" and got[0] == "ok":
                got = ("ok", got[1], tuple(int(x) for x in a[2].split(",")))
            if got != expect:
                ctx.disagree(f"{cont}.set_data: model != {name}", dict(info, impl=str(expect)[:200], model=str(got)[:200]))
        else:
            if cont == "ImageData":
                got = ("ok", [unhx(p) for p in a[1].split(",")]) if a[0] == "ok" else ("err", a[1])
            else:
                got = answer(a)
            if got != expect:
                ctx.disagree(f"{cont}.get_data: model != {name}", dict(info, impl=str(expect)[:200], model=str(got)[:200]))


def _container_case(ctx, cont, name, codec, w, h, depth, version, d, o, g, reqs, meta, set_req, get_req, rect=None):
    info = dict(container=cont, codec=codec, w=w, h=h, depth=depth, version=version)
    ctx.count((cont, name, codec, w, h, depth, version, repr(d)), nontrivial=True)
    ctx.hist("container", cont)
    stage = o
    if o[0] == "ok" and codec in (ZIP, ZIPP):
        stage = ("ok", zlib.decompress(o[1]))
    reqs.append(set_req)
    meta.append(("set", cont, name, stage if rect is None else (stage + (rect,) if stage[0] == "ok" else stage), info))
    if o[0] != "ok":
        if allowed_rejection(codec, w, h, depth, version, o[1], True) is None:
            ctx.fail(classify(codec, w, h, depth, version, f"{cont}-set_data-raises-{o[1]}"), f"{cont}.set_data raises {o[1]}",
                     dict(info, data=repr(d)[:300], impl=name), _r(o), "stored bytes")
        return
    reqs.append(get_req(stage[1]))
    meta.append(("get", cont, name, g, info))
    want = ("ok", [bytes(p) for p in d]) if cont == "ImageData" else ("ok", d)
    if g != want:
        ctx.fail(classify(codec, w, h, depth, version, f"{cont}-roundtrip"), f"{cont}.get_data(set_data(x)) != x",
                 dict(info, data=(hx(b"".join(d)) if cont == "ImageData" else hx(d)), impl=name), str(g)[:300], "the bytes stored")


def replay(ctx, data):
    import psd_tools.compression as C
    from psd_tools.compression import rle as rle_py
    from psd_tools.constants import Compression
    inp = data.get("input") or {}
    print("replaying", data.get("signature"))
    if "history" in inp:
        mod = rle_py
        if inp.get("impl") == "pyx":
            e, dd, _ = pyx_emul.load(COMP / "_rle.pyx")
            mod = types.SimpleNamespace(encode=e, decode=dd)
        from psd_tools.psd.layer_and_mask import ChannelData
        objs = []
        with rle_impl(mod):
            for k, st in enumerate(inp["history"]):
                if st["op"] in ("compress", "decompress"):
                    f = C.compress if st["op"] == "compress" else C.decompress
                    o = call(f, unhx(st["data"]), Compression(st["codec"]), st["w"], st["h"], st["depth"], st["version"])
                elif st["op"] == "ChannelData.set_data":
                    cd = ChannelData(compression=st["codec"])
                    objs.append((cd, st))
                    o = call(lambda: (cd.set_data(unhx(st["data"]), st["w"], st["h"], st["depth"], st["version"]), cd.data)[1])
                else:
                    cd, s0 = objs[st["index"]]
                    o = call(cd.get_data, s0["w"], s0["h"], s0["depth"], s0["version"])
                    print("   expected", short(unhx(s0["data"])))
                print(k, st["op"], {x: st[x] for x in st if x not in ("data", "op")}, "->", _short_r(o))
        print("expected:", data.get("expected"))
        return 0
    if not {"data", "codec", "w", "h", "depth", "version"} <= set(inp):
        print("input is not a codec-level case:", json.dumps(inp)[:300])
        return 0
    d = unhx(inp["data"])
    mods = [("py", rle_py)]
    try:
        e, dd, _ = pyx_emul.load(COMP / "_rle.pyx")
        mods.append(("pyx", types.SimpleNamespace(encode=e, decode=dd)))
    except pyx_emul.EmulError:
        pass
    for name, mod in mods:
        with rle_impl(mod):
            if "stream" in inp:
                o = ("ok", unhx(inp["stream"]))
            else:
                o = call(C.compress, d, Compression(inp["codec"]), inp["w"], inp["h"], inp["depth"], inp["version"])
            print(name, "compress ->", _short_r(o))
            if o[0] == "ok":
                b = call(C.decompress, o[1], Compression(inp["codec"]), inp["w"], inp["h"], inp["depth"], inp["version"])
                print(name, "decompress ->", _short_r(b), "== input:", b == ("ok", d))
    print("expected:", data.get("expected"))
    return 0
