"""C06 - malformed input fails safely.

Lean side (lean/PsdVerif/Props/C06.lean): the skeleton reader `PSD.read` is total, its cursor stays inside the
stream, its outcomes are ordinary exception classes, invalid headers are rejected, its steps and requested bytes
are bounded in the input length, and the native PackBits decoder stays in bounds (C05).

This module is the Python half:
  correspondence  model `psd.dec` (outcome class / final cursor) vs `PSD.read` with raw payloads on the malformed
                  stream, the real parse running inside the guarded worker (the parent never parses hostile bytes);
  search          the watchdog: `PSDImage.open(io.BytesIO(b))` (and, on a subset, composite()/topil()/layer exports)
                  in a supervised pool of worker subprocesses with RLIMIT_AS and a wall-clock limit.  A crash
                  (signal), a hang (timeout), a MemoryError / resident-set blow-up on open, an exception that is not
                  an `Exception`, or an invalid header that opens is a concrete violation.
"""
from __future__ import annotations

import itertools
import json
import math
import time

import c06_gen as G
import c06_pairs as CP
import c06_pool
import codec_common as cc
import core
import extract_c01
import extract_c06
import extract_c06_re
import extract_c06_reg
import lenient_common as lc
from core import Infra, hx, unhx

MODEL_MAX = 300_000           # bytes; larger inputs are watchdog-only (`List UInt8` model)
HEX_MAX = 24_000              # failing inputs up to this size are stored as hex, larger ones as a recipe
TIMEOUT = 20.0
RSS_CONST_KB = 16 * 1024      # open: peak RSS growth allowed = 16 MiB + 160 * len(b)  (see ctx.rule)
RSS_FACTOR = 160
# An export may legitimately allocate in proportion to the pixel volume the file DECLARES (header + layer rectangles):
# the compositor keeps float32 colour / alpha / shape buffers per group level, measured here at up to ~45 x the declared
# 8-bit volume.  A MemoryError (headroom 1200 MiB) or a hang on a file declaring at most 8 MiB of pixels (> 150 x) is
# therefore not explained by the declared sizes and is a violation; above that it is information.
EXPORT_DECLARED_OK = 8 << 20
CHUNK = 3000
READ_VOLUME_CONST = 1 << 20
MAX_HARD = 12                 # hangs / worker deaths after which the search stops (the verdict is a violation anyway)
# time against the cost theorem: CPU seconds of PSDImage.open <= max(TIME_FLOOR, TIME_FACTOR * c * ticks), ticks = the
# counting twin's ticks for THIS input (open.cost; by open_steps_bound <= the polynomial bound, which is used instead when
# the input has no twin answer), c = seconds per tick measured in this run (95th percentile over the inputs seen so far)
TIME_FLOOR = 1.0
TIME_FACTOR = 30.0
FLUSH = None                  # stream sentinel: run what has been generated so far before generating more


# ------------------------------------------------------------------------------------------------ helpers
def bucket(x, unit):
    """log-scale bucket label (powers of 4)"""
    if x <= 0:
        return f"0{unit}"
    k = max(0, math.ceil(math.log(x, 4)))
    return f"<={4 ** k}{unit}"


def top10(entries):
    return sorted(entries, key=lambda e: (e[0], str(e)), reverse=True)[:10]


def py_outcome(r):
    """worker 'raw' outcome -> ('ok', cursor) | ('err', class as the model names it)"""
    if r["k"] == "ok":
        return ("ok", r.get("tell"))
    e = r.get("err", "Other")
    return ("err", "Other" if e.startswith("Other") else e)


def model_outcome(a):
    if not a:
        return ("bad", None)
    if a[0] == "ok":
        try:
            return ("ok", int(a[-1]))
        except ValueError:
            return ("bad", a[-1][:40])
    if a[0] == "err" and len(a) > 1:
        return ("err", a[1])
    return ("bad", a[0][:40])


BATTERY = {"reject": [], "same": []}      # filled by make_battery()


def make_battery(fixture_small=None):
    """the fixed battery every worker re-runs after each input: headers with one invalid field (two values per field)
    on the synthetic document, and good files whose fresh-process digest is the reference"""
    from psd_tools.constants import ColorMode
    base = G.syn_doc(1)
    inv, _val = G.header_cases({m.value for m in ColorMode})
    seen = {}
    rej = []
    for fld, vn, off, raw in inv:
        if seen.get(fld, 0) >= 2 or base[off:off + len(raw)] == raw:
            continue
        seen[fld] = seen.get(fld, 0) + 1
        rej.append([f"{fld}={vn}", hx(base[:off] + raw + base[off + len(raw):])])
    same = [["syn-v1", hx(base)], ["syn-v2", hx(G.syn_doc(2, image_comp=1))]]
    if fixture_small is not None:
        same.append([fixture_small.name, hx(fixture_small.read_bytes())])
    BATTERY["reject"], BATTERY["same"] = rej, same
    return BATTERY


def input_repr(c, fxbytes, sig=None):
    """self-contained description of a case's bytes for a replay file"""
    b = c["b"]
    d = {"why": c["why"], "op": c["op"], "len": len(b), "flags": c["flags"]}
    then = (c.get("_then") or {}).get(sig)
    if then:
        d["sequence"] = "this input, then (same interpreter) the battery item named in `then`"
        d["then"] = {"name": then, "file": next((h for n, h in BATTERY["reject"] + BATTERY["same"] if n == then), None)}
    if c.get("hostile"):
        d["hostile"] = c["hostile"]
    if len(b) <= HEX_MAX:
        d["file"] = hx(b)
    elif c.get("fx") and c["fx"] in fxbytes:
        p, s, mid = G.delta(fxbytes[c["fx"]], b)
        d.update(fixture=c["fx"], prefix=p, suffix=s, middle=hx(mid))
    elif not c.get("hostile"):
        d["file"] = hx(b)
    return d


def bytes_of_input(d):
    if "file" in d:
        return unhx(d["file"])
    if "fixture" in d:
        f = next(p for p in cc.fixtures() if p.name == d["fixture"])
        return G.apply_delta(f.read_bytes(), d["prefix"], d["suffix"], unhx(d["middle"]))
    if "hostile" in d:
        for nm, b, _ in G.hostile() + G.big_hostile():
            if nm == d["hostile"]:
                return b
    raise Infra("replay: input has neither file, fixture recipe nor hostile name")


def n_changed(c, fxbytes):
    base = fxbytes.get(c.get("fx") or "")
    if base is None:
        return len(c["b"])
    p, s, mid = G.delta(base, c["b"])
    return max(len(mid), len(base) - p - s)


# ------------------------------------------------------------------------------------------------ classification
def violations_of(c, r):
    """-> [(signature, what, observed)] for one pool result (the property itself; no model involved)"""
    out = []
    st = r["status"]
    om = r.get("open") or {}
    decl = (om.get("declared") or {}).get("bytes")
    if st in ("hang", "crash", "exit"):
        stage = r.get("stage", "open")
        mech = c06_pool.mechanism(r.get("stack"))
        obs = {"status": st, "stage": stage, "signal": r.get("signal"), "exit_code": r.get("exit_code"),
               "stack": r.get("stack"), "waited_s": r.get("waited"), "declared_bytes": decl,
               "stderr_tail": (r.get("stderr_tail") or "")[-300:]}
        if st == "hang":
            if stage == "open":
                out.append((f"C06/open/hang/{mech}", f"PSDImage.open did not return within {TIMEOUT:.0f} s", obs))
            elif decl is not None and decl <= EXPORT_DECLARED_OK:
                out.append((f"C06/export/hang/{mech}",
                            f"export (composite/topil/layer export) of a file declaring {decl} bytes of pixels did not "
                            f"finish within {TIMEOUT:.0f} s", obs))
            else:
                c["_info"] = ("export-slow-large-declared", obs)
        else:
            what = f"worker died with {r.get('signal')}" if st == "crash" else f"worker process exited with code {r.get('exit_code')}"
            kind = r.get("signal") if st == "crash" else f"exit-{r.get('exit_code')}"
            out.append((f"C06/{stage}/crash/{kind}/{mech}", what + f" during {stage}", obs))
        if stage == "open" or not om:
            return out
    o = om.get("open")
    if not o:
        return out
    bat = (r.get("export") or {}).get("battery") or om.get("battery")
    if bat and bat.get("bad"):
        pred = "rejected-input" if o["k"] != "ok" else "accepted-input"
        for x in bat["bad"]:
            obs = {"second_input": x["name"], "second_outcome": x["got"], "fresh_process_outcome":
                   "rejected" if x["kind"] == "reject" else "opens with digest %s" % x.get("ref"),
                   "first_input_outcome": o if o["k"] != "ok" else "ok", "detail": x.get("msg")}
            if x["kind"] == "reject":
                fld = x["name"].split("=")[0]
                out.append((f"C06/sequence/header/{fld}-accepted-after-{pred}",
                            f"in one interpreter: after this input was opened ({pred}), data with an invalid header "
                            f"({x['name']}) was opened instead of rejected; a fresh interpreter rejects it", obs))
            else:
                out.append((f"C06/sequence/reopen-differs-after-{pred}",
                            f"in one interpreter: after this input was opened ({pred}), the good file {x['name']} "
                            f"{x['got']}; in a fresh interpreter it opens with digest {x.get('ref')}", obs))
            c.setdefault("_then", {})[out[-1][0]] = x["name"]
    if o["k"] == "memory":
        out.append((f"C06/open/memory/{o['where']}", "MemoryError (RLIMIT_AS) while opening", o))
    elif o["k"] == "non-exception":
        out.append((f"C06/open/non-exception/{o['cls']}/{o['where']}",
                    f"opening raised {o['cls']}, which is not an Exception subclass", o))
    grow = om.get("grow_kb", 0)
    bound = RSS_CONST_KB + RSS_FACTOR * len(c["b"]) // 1024
    if grow > bound:
        out.append((f"C06/open/memory/rss-growth/{o['where'] if o['k'] != 'ok' else 'accepted'}",
                    f"peak resident set grew by {grow} KiB while opening {len(c['b'])} bytes (bound {bound} KiB)",
                    {"grow_kb": grow, "bound_kb": bound, "outcome": o}))
    cnt = om.get("count")
    if cnt and "bytes" in cnt:
        vol = cnt["bytes"] + cnt["init_bytes"]
        # a nesting level of Lr16 reads and copies its block twice (the tagged block, the record's extra data): 4 * depth
        READ_VOLUME_FACTOR = 4 * (D_LR16 + 8) + 64
        bound_v = READ_VOLUME_FACTOR * len(c["b"]) + READ_VOLUME_CONST
        if vol > bound_v:
            out.append((f"C06/open/read-volume/{cnt.get('culprit') or '?'}",
                        f"PSD.read of {len(c['b'])} bytes made fp.read return / the reader copy {vol} bytes in {cnt['reads']} reads "
                        f"(bound {READ_VOLUME_FACTOR} * len + {READ_VOLUME_CONST} = {bound_v}): super-linear re-reading",
                        {"bytes_returned": cnt["bytes"], "bytes_copied_into_nested_streams": cnt["init_bytes"], "reads": cnt["reads"],
                         "culprit": cnt.get("culprit"), "bound": bound_v, "t_s": round(om.get("t_count", 0), 2)}))
    pth = om.get("path")
    if pth and pth.get("k") == "memory":
        out.append((f"C06/open-from-path/memory/{pth.get('site', '?')}",
                    "PSDImage.open(<path>) raised MemoryError under RLIMIT_AS: the declared length is handed to the buffered "
                    "file object's read(), which reserves it before it reads (io.BytesIO allocates what it returns)",
                    {"outcome": pth, "same_bytes_through_BytesIO": o}))
    hf = c.get("hdr_invalid")
    if hf and o["k"] == "ok":
        out.append((f"C06/header/{hf}-accepted", f"header with invalid {hf} = {c['hdr_value']} was opened, not rejected",
                    {"field": hf, "value": c["hdr_value"], "outcome": "ok"}))
    em = r.get("export")
    if em:
        small = decl is not None and decl <= EXPORT_DECLARED_OK
        for op, x in em.get("ops", {}).items():
            if x["k"] == "non-exception":
                out.append((f"C06/export/non-exception/{x['cls']}/{x['where']}", f"{op} raised {x['cls']}", x))
            elif x["k"] == "memory" and small:
                out.append((f"C06/export/memory/{x['where']}",
                            f"{op}: MemoryError (RLIMIT_AS) although the file declares only {decl} bytes of pixels", x))
        g = em.get("grow_kb", 0)
        if decl is not None and g > 256 * 1024 + 48 * decl // 1024:
            bad = [x["where"] for x in em.get("ops", {}).values() if x["k"] != "ok"]
            out.append((f"C06/export/memory/rss-growth/{bad[0] if bad else 'no-exception'}",
                        f"export grew the resident set by {g} KiB for {decl} declared bytes of pixels",
                        {"grow_kb": g, "declared_bytes": decl, "ops": {k: v["k"] for k, v in em.get("ops", {}).items()}}))
    return out


# ------------------------------------------------------------------------------------------------ the stream
def build_plan(ctx, quick):
    """fixture selection and per-section counts (all from ctx.rng)"""
    rng = ctx.rng
    fx = cc.fixtures()
    small = [p for p in fx if p.stat().st_size <= 7200]
    mid = [p for p in fx if 7200 < p.stat().st_size <= MODEL_MAX]
    big = [p for p in fx if p.stat().st_size > MODEL_MAX]
    if quick:
        mid = sorted(rng.sample(mid, min(16, len(mid))), key=lambda p: p.stat().st_size)
        big = rng.sample(big, min(2, len(big)))
        n = dict(trunc_small=260, trunc_b=10, bits_small=330, bits=12, maxs_small=70, maxs=3, mut=30, rand=420,
                 hdr_bases=2, syn_stride=1, big_div=2, C=4000)
    else:
        n = dict(trunc_small=None, trunc_b=40, bits_small=None, bits=40, maxs_small=None, maxs=15, mut=80, rand=6000,
                 hdr_bases=None, syn_stride=1, big_div=3, C=6000)
    return small, mid, big, n


def gen_stream(ctx, quick, info):
    """yields cases; everything random comes from ctx.rng in a fixed order"""
    rng = ctx.rng
    small, mid, big, n = build_plan(ctx, quick)
    info["fixtures"] = {"small": [p.name for p in small], "others<=300KB": len(mid), "others>300KB": len(big)}
    fxbytes = info["fxbytes"]

    def case(b, op, why, fx=None, hostile=None, label=None, **kw):
        return dict(b=b, op=op, why=why, fx=fx, hostile=hostile, label=label, **kw)

    # ---- corpus of past failures / witnesses (runs first)
    cf = core.VERIF / "harness" / "corpus" / "C06.json"
    host = {nm: (b, note) for nm, b, note in G.hostile()}
    if cf.exists():
        for e in json.loads(cf.read_text()):
            if "hostile" in e:
                if e["hostile"] not in host:
                    ctx.notes.append(f"corpus entry names an unknown hostile builder: {e['hostile']}")
                    continue
                b = host[e["hostile"]][0]
            elif "fixture" in e:
                import lenient_common as _lc
                b = _lc.apply_edits((core.REPO / "tests" / "psd_files" / e["fixture"]).read_bytes(), e["edits"])
            else:
                b = unhx(e["file"])
            yield case(b, "corpus", e.get("note", "")[:80], hostile=e.get("hostile"), force_export=True, force_model=True)
    # ---- hand-made hostile files
    for nm, (b, note) in host.items():
        yield case(b, "hostile", nm, hostile=nm, force_export=True, force_model=True,
                   from_path=("length-max" in nm or nm.startswith("channel-length-")))
    for nm, b, note in G.big_hostile():
        # the counted parse multiplies the time under one watchdog timer: keep it for the read-volume witness only (the
        # 1.4 MB token file is a time witness and sat close to the limit on a loaded machine)
        yield case(b, "hostile-big", nm, hostile=nm, force_export=False, counted=not nm.startswith("enginedata-tokens"))
    # ---- synthetic small documents: every truncation offset, every header bit, every skeleton field
    syn = [("syn-v1", G.syn_doc(1)), ("syn-v2", G.syn_doc(2, image_comp=1))]
    if not quick:
        syn += [("syn-v1-16bit", G.syn_doc(1, 3, depth=16)), ("syn-v1-nested", G.document(G.header(), b"", b"", G.lam(
            G.layer_info(G.nested_lr16(3)), G.P("I", 0)), None))]
    maps = {}
    for nm, b in syn:
        fxbytes[nm] = b
        res, sm = lc.trace_parse(b)
        if res[0] != "ok":
            raise Infra(f"C06 builder produced a document the parser rejects: {nm}: {res[1]}")
        maps[nm] = sm
        for bb, why in G.truncations_all(b, 3 if quick else 1):
            yield case(bb, "trunc-all", why, fx=nm)
        flds = G.skeleton_count_fields(sm)
        bf = G.bitflips_header(b) + G.bitflips_fields(b, flds)
        if quick:
            bf = rng.sample(bf, min(len(bf), 250))
        for bb, why in bf:
            yield case(bb, "bitflip", why, fx=nm)
        mx = G.maxsubst(b, [f for f in sm.nums])
        if quick:
            mx = rng.sample(mx, min(len(mx), 80))
        for bb, why in mx:
            yield case(bb, "maxsubst", why, fx=nm)
    # ---- headers with exactly one invalid field (and valid boundary values)
    from psd_tools.constants import ColorMode
    valid_modes = {m.value for m in ColorMode}
    inv, val = G.header_cases(valid_modes)
    bases = [(nm, b) for nm, b in syn[:2]] + [(p.name, p.read_bytes()) for p in small]
    psb = [p for p in cc.fixtures() if p.suffix.lower() == ".psb" and p.stat().st_size <= MODEL_MAX]
    if psb:
        bases.append((psb[0].name, psb[0].read_bytes()))
    if n["hdr_bases"]:
        bases = bases[:n["hdr_bases"]] + bases[-1:]
    for nm, b in bases:
        fxbytes.setdefault(nm, b)
        for fld, vn, off, raw in inv:
            if b[off:off + len(raw)] == raw:
                continue
            yield case(b[:off] + raw + b[off + len(raw):], "header-invalid", f"{fld}={vn}", fx=nm, hdr_invalid=fld,
                       hdr_value=vn, force_model=True, label="FileHeader")
        for fld, vn, off, raw in val:
            yield case(b[:off] + raw + b[off + len(raw):], "header-valid", f"{fld}={vn}", fx=nm, hdr_valid=fld,
                       hdr_value=vn, force_model=True, label="FileHeader")
    # ---- PAIRS of co-located extremal fields, for every count-driven loop of the regenerated ReadLoops table
    yield from gen_pairs(ctx, quick, info, case, syn)
    # ---- NESTING chains for every recursive container of the cost model, depth by depth
    yield FLUSH
    dead = info.setdefault("dead_chains", set())
    info["nest_stages"] = []
    for depths in CP.stages(info.get("D") or 123):
        row = CP.nest_stage(depths, dead)
        info["nest_stages"].append({"depths": list(depths), "inputs": len(row), "chains_dropped_before": len(dead)})
        for chain, b, why in row:
            yield case(b, "nest", why, chain=chain, force_model=True, counted=True, force_export=False,
                       label=chain.split("/")[0])
        yield FLUSH
    # ---- fixtures
    donors = []
    t_trace = 0.0
    for grp, files in (("small", small), ("mid", mid), ("big", big)):
        for p in files:
            b = p.read_bytes()
            fxbytes[p.name] = b
            t0 = time.time()
            res, sm = lc.trace_parse(b)
            t_trace += time.time() - t0
            if res[0] != "ok":
                ctx.hist("fixture_trace", "rejected:" + str(res[1]))
            div = n["big_div"] if grp == "big" else 1
            skel = G.skeleton_count_fields(sm)
            # truncations
            if grp == "small":
                tr = G.truncations_all(b)
                if n["trunc_small"]:
                    keep = set(rng.sample(range(len(tr)), min(len(tr), n["trunc_small"])))
                    tb = {len(x[0]) for x in G.truncations_boundaries(rng, sm, 12)}
                    tr = [x for k, x in enumerate(tr) if k in keep or len(x[0]) in tb]
                op = "trunc-all"
            else:
                tr = G.truncations_boundaries(rng, sm, max(3, n["trunc_b"] // div))
                op = "trunc-boundary"
            for bb, why in tr:
                yield case(bb, op, why, fx=p.name)
            # single-bit flips in header / length / count fields
            if grp == "small":
                bf = G.bitflips_header(b) + G.bitflips_fields(b, skel)
                if n["bits_small"]:
                    bf = rng.sample(bf, min(len(bf), n["bits_small"]))
            else:
                k = max(3, n["bits"] // div)
                cand = [(f, o, bit) for f in rng.sample(skel, min(len(skel), k)) for o in range(f.off, f.off + f.size) for bit in range(8)]
                pick = rng.sample(cand, min(len(cand), k - k // 4))
                bf = [(lc.mutate_bitflip(b, o, bit, f.label)[0], f"bit@{o}.{bit}({f.label})") for f, o, bit in pick]
                hb = G.bitflips_header(b)
                bf += rng.sample(hb, min(len(hb), k // 4))
            for bb, why in bf:
                yield case(bb, "bitflip", why, fx=p.name, label=why[why.find("(") + 1:-1])
            # max-value substitution in the aligned 2/4/8-byte fields of the structural map
            f248 = [f for f in sm.nums if f.size in (2, 4, 8)]
            if grp == "small":
                mx = G.maxsubst(b, f248)
                if n["maxs_small"]:
                    mx = rng.sample(mx, min(len(mx), n["maxs_small"]))
            else:
                k = max(1, n["maxs"] // div)
                sk = [f for f in f248 if f.label in lc.SKELETON]
                ot = [f for f in f248 if f.label not in lc.SKELETON]
                mx = G.maxsubst(b, rng.sample(sk, min(len(sk), k - k // 3)) + rng.sample(ot, min(len(ot), max(1, k // 3))))
            for bb, why in mx:
                yield case(bb, "maxsubst", why, fx=p.name, label=why[why.find("(") + 1:-1])
            # the structure-aware engine of lenient_common (lengths/counts +-1 +-2 x2, splices, dup/del of blocks ...)
            for bb, rec in lc.gen_mutants(rng, sm, donors[-6:] if donors else [(b, sm)], max(4, n["mut"] // div)):
                yield case(bb, "mutant:" + rec["op"], json.dumps({k: v for k, v in rec.items() if k not in ("a", "b", "edits")})[:120],
                           fx=p.name, label=rec.get("label"))
            # text engine data (regular-expression tokenizer) under same-length hostile replacements
            if grp != "big" or not quick:
                for bb, why in G.engine_data_attacks(sm)[:None if not quick else 3]:
                    yield case(bb, "enginedata", why, fx=p.name, label="EngineData", force_export=False)
            if len(b) <= 200_000:
                donors.append((b, sm))
    info["t_trace"] = round(t_trace, 1)
    # ---- payload interiors: for every reader statement that swallowed an opaque payload in some fixture (<= 300 KB),
    # ---- a few such payloads (smallest files first) under same-length adversarial overwrites
    t0 = time.time()
    from concurrent.futures import ProcessPoolExecutor
    cands = [p for p in cc.fixtures() if p.stat().st_size <= MODEL_MAX]
    with ProcessPoolExecutor(min(12, len(cands) or 1)) as ex:
        idx = list(ex.map(G.index_opaque, cands, chunksize=4))
    info["t_payload_index"] = round(time.time() - t0, 1)
    per_feat = {}
    for (nm, size, sites), p in zip(idx, cands):
        got = set()
        for ft, off, ln, lab in sites:
            if ft in got:
                continue                      # one payload per (statement, file)
            got.add(ft)
            per_feat.setdefault(ft, []).append((p, off, ln, lab))
    k_pay = 2 if quick else 6
    n_pay = 0
    info["payload_kinds"] = {}
    for ft in sorted(per_feat):
        for p, off, ln, lab in per_feat[ft][:k_pay]:
            b = fxbytes.get(p.name)
            if b is None:
                b = p.read_bytes()
                fxbytes[p.name] = b
            att = G.payload_attacks(b, off, ln, rng, n_random=16 if quick else 60, full=not quick)
            info["payload_kinds"][lab] = info["payload_kinds"].get(lab, 0) + len(att)
            for k, (bb, why) in enumerate(att):
                n_pay += 1
                yield case(bb, "payload", f"{lab} {why}", fx=p.name, label=lab, force_export=None if k % 20 == 0 else False)
    # ---- random byte strings
    for bb, why in G.random_strings(rng, n["rand"]):
        yield case(bb, "random:" + why.split("[")[0], why)


def gen_pairs(ctx, quick, info, case, syn):
    """count = max x every length / size field of the first item, for every count-driven loop the table names (while
    loops, item fields alone, in the thorough tier): on fixtures that contain an instance (quick: the three smallest and
    one more drawn from ctx.rng; thorough: the 24 smallest and eight more) and on a synthetic minimal instance (the enclosing tagged block / image
    resource transplanted into the small synthetic document, PSD and PSB; the skeleton loops: the synthetic documents)"""
    import extract_c06
    from concurrent.futures import ProcessPoolExecutor
    rng = ctx.rng
    fxbytes = info["fxbytes"]
    t0 = time.time()
    spans = [sp for sp in extract_c06.loop_spans(core.REPO / "src" / "psd_tools")
             if sp["kind"] == "count" or (not quick and sp["kind"] == "while")]
    keys = [CP.loop_key(sp) for sp in spans]
    cands = [p for p in cc.fixtures() if p.stat().st_size <= MODEL_MAX]
    with ProcessPoolExecutor(min(12, len(cands) or 1)) as ex:
        idx = list(ex.map(CP.index_file, [(p, spans) for p in cands], chunksize=4))
    info["t_pairs_index"] = round(time.time() - t0, 1)
    per = {}
    paths = {p.name: p for p in cands}
    for nm, size, found in idx:
        for k, inst in found.items():
            per.setdefault(k, []).append((size, nm, inst))
    for nm, b in syn[:2]:
        _res, found = CP.find_instances(b, spans)
        for k, inst in found.items():
            per.setdefault(k, []).append((len(b), nm, inst))
    stats = {}
    for k in keys:
        hosts = sorted(per.get(k, []), key=lambda x: (x[0], x[1]))
        st = stats.setdefault(k, {"fixtures_with_instance": len(hosts), "hosts": [], "synthetic": [], "inputs": 0})
        if not hosts:
            continue
        if quick:
            chosen = hosts[:3] + ([rng.choice(hosts[3:])] if len(hosts) > 3 else [])
        else:
            chosen = hosts[:24] + rng.sample(hosts[24:], min(8, len(hosts[24:])))
        label = k.split(":")[1].split(".")[0]
        for size, nm, inst in chosen:
            b = fxbytes.get(nm)
            if b is None:
                b = paths[nm].read_bytes()
                fxbytes[nm] = b
            st["hosts"].append(nm)
            for bb, why in CP.pair_mutants(b, inst):
                st["inputs"] += 1
                yield case(bb, "pair", f"{k} {why}", fx=nm, label=label, force_export=False)
        # the synthetic minimal instance
        size, nm, inst = hosts[0]
        if inst.get("container"):
            for version in (1, 2):
                sb = CP.transplant(fxbytes[nm], inst["container"], version)
                if sb is None:
                    continue
                res, f2 = CP.find_instances(sb, spans, want={k})
                if res[0] != "ok" or k not in f2:
                    continue
                st["synthetic"].append(f"v{version}:{len(sb)}B")
                for bb, why in CP.pair_mutants(sb, f2[k]):
                    st["inputs"] += 1
                    yield case(bb, "pair", f"{k} synthetic-v{version}(from {nm}) {why}", label=label, force_export=False)
    info["pairs"] = {"loops": len(keys), "loops_with_instance": sum(1 for k in keys if per.get(k)),
                     "loops_without_instance_in_any_fixture": [k for k in keys if not per.get(k)],
                     "per_loop": stats, "index_s": info["t_pairs_index"]}


# ------------------------------------------------------------------------------------------------ run
def selftest(ctx, pool):
    """the watchdog must detect each kind of misbehaviour, otherwise nothing it reports can be trusted"""
    res = {}
    for w, want in ((b"hang", "hang"), (b"sleep", "hang"), (b"segv", "crash"), (b"die", "exit"), (b"alloc", "memory"), (b"exit", "non-exception"),
                    (b"rss", "rss")):
        t0 = time.time()
        # the two misbehaviours that must run into the limit get a short one; the others only have to finish and get a
        # generous one (touching 200 MB took more than 2 s on a loaded machine: the self-test then misreported a hang)
        r = pool.one(128, w, timeout=2.0 if w in (b"hang", b"sleep") else 30.0)
        got = r["status"]
        if w in (b"hang", b"sleep"):
            res[w.decode() + "_detected_after_s"] = round(time.time() - t0 - 0.3, 1)
        if got == "done":
            o = r["open"]["open"]
            got = o["k"]
            if w == b"rss":
                got = "rss" if r["open"]["grow_kb"] >= 190 * 1024 else f"rss-not-seen({r['open']['grow_kb']} KiB)"
        res[w.decode()] = got + (":" + str(r.get("signal")) if r.get("signal") else "")
        if got != want:
            raise Infra(f"C06 watchdog self-test: '{w.decode()}' was reported as {got}, expected {want}")
    ctx.extra["watchdog_selftest"] = res


def write_battery(pool):
    import os
    small = [p for p in cc.fixtures() if p.stat().st_size <= 30000]
    bat = make_battery(small[0] if small else None)
    path = os.path.join(pool.tmp, "battery.json")
    with open(path, "w") as f:
        json.dump(bat, f)
    pool.env["C06_BATTERY"] = path


def run(ctx):
    quick = ctx.quick
    rng = ctx.rng
    T = {}
    t0 = time.time()
    # the header validators' bounds, enum value sets and accepted signatures the model uses are regenerated from the
    # live classes (shared with C01: Generated/Codec.lean), so a change of a validator moves the model with it
    ctx.regenerate(extract_c01.gen_codec)
    # what the cost theorems assume about the source: allocation sites, the loops / try-excepts of the readers, the two
    # payload registries, the regular expressions of the engine-data tokenizer (tied by `decide` in Props/C06.lean section 11)
    ctx.regenerate(extract_c06.gen_alloc_sites)
    ctx.regenerate(extract_c06.gen_read_loops)
    ctx.regenerate(extract_c06.gen_read_seeks)
    ctx.regenerate(extract_c06_reg.gen_open_registry)
    ctx.regenerate(extract_c06_re.gen_engine_patterns)
    ctx.prove(["PsdVerif.Props.C06"])
    T["prove"] = round(time.time() - t0, 1)
    # does the driver have the cost command of the Lean half?
    probe = ctx.driver().batch([("psd.cost", "38425053"), ("psd.dec", "38425053")])
    has_cost = probe[0] and probe[0][0] in ("ok", "err")
    if probe[1][:2] != ["err", "IOError"]:
        ctx.disagree("psd.dec on the 4-byte input '8BPS'", {"model": probe[1][:2], "expected": ["err", "IOError"]})
    if not has_cost:
        ctx.skipped.append("psd.cost (model step / allocation counters) is not in this driver build: the tick/alloc "
                           "histograms and the cost sanity comparison are skipped; the bounds themselves are theorems "
                           "of Props/C06.lean")

    probe2 = ctx.driver().batch([("open.cost", 100, "38425053")])
    global has_open_cost
    has_open_cost = bool(probe2[0]) and probe2[0][:2] == ["err", "IOError"]
    if not has_open_cost:
        ctx.disagree("open.cost on the 4-byte input '8BPS'", {"model": probe2[0][:2], "expected": ["err", "IOError"]})
    pool = c06_pool.Pool(timeout=TIMEOUT, export_timeout=TIMEOUT,
                         env={"C06_WARMUP": hx(G.syn_doc(1))})
    try:
        t0 = time.time()
        write_battery(pool)
        hello = pool.start()
        ctx.extra["battery"] = {"items": len(BATTERY["reject"]) + len(BATTERY["same"]), "fresh_process_reference": hello.get("battery")}
        for nm, ref in (hello.get("battery") or {}).items():
            if any(nm == n for n, _ in BATTERY["reject"]) and not str(ref).startswith("rejected"):
                ctx.notes.append(f"battery item {nm} is not rejected even by a fresh interpreter ({ref}): left out of the "
                                 "sequence test (the header section reports it)")
            if any(nm == n for n, _ in BATTERY["same"]) and str(ref).startswith("raises"):
                ctx.disagree("a good file of the battery does not open in a fresh interpreter", {"file": nm, "outcome": ref})
        selftest(ctx, pool)
        T["pool_start+selftest"] = round(time.time() - t0, 1)
        _run(ctx, pool, hello, has_cost, T)
    finally:
        pool.close()


has_open_cost = False
D_LR16 = 123


def compare_open_cost(ctx, c, a, r, fxbytes, OC):
    """typed PSD.read under the counting stream vs the Lean counting twin `open.cost` (Model/OpenMain.lean)"""
    om = r.get("open") or {}
    cnt = om.get("count")
    if not cnt or "reads" not in cnt:
        ctx.hist("open_cost_unavailable", r["status"])
        return
    try:
        ticks, alloc = int(a[2]), int(a[3])
    except (IndexError, ValueError):
        ctx.disagree("open.cost answer not understood", {"answer": a[:4]})
        return
    n = len(c["b"])
    c["_ticks"] = ticks
    py_ticks = cnt["reads"] + cnt["inits"]
    py_alloc = cnt["bytes"] + cnt["init_bytes"]
    OC["n"] += 1
    ctx.corr_cases += 1
    ctx.count(("open.cost", c["op"], c.get("fx"), c["why"]), nontrivial=n >= 26)
    py_ok = cnt["k"] == "ok"
    mo_ok = a[0] == "ok"
    pcls = "ok" if py_ok else cnt.get("err", "?")
    mcls = "ok" if mo_ok else a[1]
    rec = "RecursionError" in (pcls, mcls)
    ctx.hist("open_cost_outcome", f"py={pcls}|model={mcls}" if pcls != mcls else pcls)
    inp = lambda: input_repr(c, fxbytes)
    if rec:
        # the interpreter's recursion limit (descriptor nesting is not limited in the model; the Lr16 depth is D_LR16 +- 1)
        ctx.hist("open_cost_recursion", f"py={pcls}|model={mcls}")
    elif py_ok != mo_ok:
        ctx.disagree("typed PSD.read outcome != model open.cost (one opens, the other raises)",
                     {"input": inp(), "python": pcls, "python_msg": cnt.get("msg"), "python_where": cnt.get("where"), "model": mcls})
        return
    elif py_ok and cnt.get("tell") != int(a[1]):
        ctx.disagree("typed PSD.read final cursor != model open.cost", {"input": inp(), "python": cnt.get("tell"), "model": a[1]})
        return
    elif not py_ok and pcls != mcls:
        OC["class_diff"] += 1
        ctx.hist("open_cost_class_diff", f"py={pcls}|model={mcls}|{cnt.get('where')}")
    # the counters: the model over-approximates the reads (it reads a struct format field by field and ticks once per loop
    # iteration), and is EXACT on the bytes when the file is accepted
    if py_ticks > ticks and not rec:
        ctx.disagree("typed PSD.read made more fp.read calls / nested streams than the model has ticks",
                     {"input": inp(), "python_reads": cnt["reads"], "python_streams": cnt["inits"], "model_ticks": ticks})
    if py_ok and mo_ok:
        OC["ok"] += 1
        if py_alloc == alloc:
            OC["ok_exact"] += 1
        elif py_alloc > alloc:
            ctx.disagree("typed PSD.read returned / copied more bytes than the model allocates (accepted file)",
                         {"input": inp(), "python_bytes": py_alloc, "model_alloc": alloc})
        else:
            ctx.hist("open_cost_alloc_over_on_accept", bucket(alloc - py_alloc, "B"))
    elif not rec:
        # on a failure the model may have read fewer bytes of the failing struct format (it stops at the first missing field)
        if py_alloc > alloc + 64:
            ctx.disagree("typed PSD.read returned / copied more bytes than the model allocates (rejected file)",
                         {"input": inp(), "python_bytes": py_alloc, "model_alloc": alloc, "python": pcls, "model": mcls})
        ctx.hist("open_cost_alloc_diff_on_reject", "exact" if py_alloc == alloc else ("py>model" if py_alloc > alloc else "py<model"))
    ctx.hist("open_cost_model_ticks_per_read", bucket(ticks / max(1, py_ticks), "x"))
    bound = (2105 + 4 * n + 168 * min(D_LR16, n // 12)) * n + 287
    if ticks + alloc > bound:
        ctx.disagree("open.cost exceeds the bound of Props/C06.open_steps_bound", {"input": inp(), "ticks": ticks, "alloc": alloc, "bound": bound})
    if n and (ticks + alloc) / n > OC["max_ratio"][0]:
        OC["max_ratio"] = (round((ticks + alloc) / n, 1), {"why": c["why"], "fx": c.get("fx") or c.get("hostile"), "len": n, "ticks": ticks, "alloc": alloc,
                                                       "python_reads": cnt["reads"], "python_bytes": py_alloc})


def _run(ctx, pool, hello, has_cost, T):
    global D_LR16
    D_LR16 = hello.get("max_lr16_depth") or 123
    OC = {"n": 0, "ok": 0, "ok_exact": 0, "class_diff": 0, "max_ratio": (0.0, None)}
    quick = ctx.quick
    rng = ctx.rng
    info = {"fxbytes": {}}
    fxbytes = info["fxbytes"]
    C = 4000 if quick else 6000
    found = {}            # signature -> dict(case, what, observed, count, key)
    slow, hungry, slow_x, hungry_x = [], [], [], []
    n_cases = 0
    n_model = 0
    sections = {}
    t_pool = t_model = 0.0
    infos = {}
    cost_ratio_max = (0.0, None)
    budget = 900 if quick else 2400
    t_start = time.time()
    stream = gen_stream(ctx, quick, info)
    hard = [0]
    info["D"] = D_LR16
    CAL = []               # seconds of CPU per model tick, one entry per input with both numbers
    exhausted = [False]

    def next_chunk():
        out = []
        for c in stream:
            if c is FLUSH:
                if out:
                    return out
                continue
            out.append(c)
            if len(out) >= CHUNK:
                return out
        exhausted[0] = True
        return out
    while not pool.abort and not exhausted[0]:
        chunk = next_chunk()
        if not chunk:
            break
        if time.time() - t_start > budget:
            raise Infra(f"C06: stream phase exceeded its budget of {budget} s")
        for k, c in enumerate(chunk):
            idx = n_cases + k
            c["id"] = idx
            fl = 1
            if c.get("force_export"):
                fl |= 6
            elif c.get("force_export") is None:
                if idx % 5 == 0:
                    fl |= 2
                if idx % 20 == 0:
                    fl |= 4
            ln = len(c["b"])
            u = rng.random()
            c["model"] = ln <= MODEL_MAX and (bool(c.get("force_model")) or ln <= 8192 or u < C / ln)
            # the typed PSD.read under the counting stream (what `open.cost` bounds): every 2nd modelled input, the hand-made ones
            c["cost"] = has_open_cost and ((c["model"] and (idx % 2 == 0 or c["op"] in ("hostile", "corpus"))) or bool(c.get("counted")))
            if c["cost"]:
                fl |= 16
            if c.get("from_path"):
                fl |= 32
            c["flags"] = fl | 8
            sections[c["op"]] = sections.get(c["op"], 0) + 1
        n_cases += len(chunk)
        # ---- the watchdog (also computes the raw-payload outcome for the correspondence)
        t0 = time.time()
        def on_result(_ident, r):
            if r["status"] != "done":
                hard[0] += 1
                if hard[0] >= MAX_HARD:
                    pool.abort = True
        res = pool.map(((c["id"], c["flags"], c["b"]) for c in chunk), on_result)
        t_pool += time.time() - t0
        if pool.abort:
            not_run = [c for c in chunk if c["id"] not in res]
            chunk = [c for c in chunk if c["id"] in res]
            ctx.notes.append(f"search stopped early: {hard[0]} inputs hung or killed their worker (each costs up to the "
                             f"wall-clock limit); {not_run and len(not_run)} inputs of the current chunk and the rest of the "
                             "stream were not run. The verdict is already a violation.")
        # ---- the model
        t0 = time.time()
        mcases = [c for c in chunk if c["model"]]
        reqs = [("psd.dec", hx(c["b"])) for c in mcases]
        costs = [c for k, c in enumerate(mcases) if has_cost and (k % 4 == 0 or c["op"] in ("hostile", "corpus"))]
        reqs += [("psd.cost", hx(c["b"])) for c in costs]
        ocosts = [c for c in mcases if c["cost"]]
        reqs += [("open.cost", D_LR16, hx(c["b"])) for c in ocosts]
        ans = cc.pbatch(reqs, 14) if reqs else []
        t_model += time.time() - t0
        for c, a in zip(ocosts, ans[len(mcases) + len(costs):]):
            compare_open_cost(ctx, c, a, res[c["id"]], fxbytes, OC)
        for c, a in zip(mcases, ans):
            r = res[c["id"]]
            om = r.get("open") or {}
            if "raw" not in om:
                ctx.hist("correspondence_unavailable", r["status"])
                continue
            ctx.corr_cases += 1
            n_model += 1
            py, mo = py_outcome(om["raw"]), model_outcome(a)
            ctx.hist("corr_op", c["op"])
            ctx.hist("corr_outcome", py[0] if py[0] == "ok" else py[1])
            nontrivial = not (py[0] == "err" and len(c["b"]) < 26)
            ctx.count((c["op"], c.get("fx"), c["why"]), nontrivial=nontrivial)
            if py != mo:
                ctx.disagree("PSD.read (raw payloads) outcome != model psd.dec",
                             {"input": input_repr(c, fxbytes), "python": py, "model": mo,
                              "python_msg": om["raw"].get("msg"), "python_where": om["raw"].get("where")})
                ctx.hist("corr_disagree_op", c["op"])
            elif len(ctx.samples) < 6 and c["op"] not in ("corpus",) and (n_model % 97 == 1):
                ctx.sample({"op": c["op"], "fixture": c.get("fx"), "why": c["why"], "len": len(c["b"]),
                            "python": py, "model": mo})
        for c, a in zip(costs, ans[len(mcases):len(mcases) + len(costs)]):
            # ok\t<cursor>\t<ticks>\t<alloc> | err\t<Class>\t<ticks>\t<alloc>
            try:
                ticks, alloc = int(a[2]), int(a[3])
            except (IndexError, ValueError):
                ctx.disagree("psd.cost answer not understood", {"answer": a[:4]})
                continue
            n = len(c["b"])
            ctx.hist("model_ticks", bucket(ticks, ""))
            ctx.hist("model_alloc_bytes", bucket(alloc, "B"))
            ctx.hist("model_ticks_within_64n+4096", ticks <= 64 * n + 4096)
            ctx.hist("model_alloc_within_8n+4096", alloc <= 8 * n + 4096)
            if n and ticks / (n + 64) > cost_ratio_max[0]:
                cost_ratio_max = (round(ticks / (n + 64), 2), {"why": c["why"], "fx": c.get("fx"), "len": n, "ticks": ticks, "alloc": alloc})
            r = res[c["id"]]
            raw = (r.get("open") or {}).get("raw")
            if raw:
                py = py_outcome(raw)
                mo = ("ok", int(a[1])) if a[0] == "ok" else ("err", a[1])
                if py != mo:
                    ctx.disagree("PSD.read (raw payloads) outcome != model psd.cost", {"input": input_repr(c, fxbytes), "python": py, "model": mo})
        # ---- the property on the real code
        for c in chunk:
            r = res[c["id"]]
            om = r.get("open") or {}
            o = om.get("open")
            ctx.hist("op", c["op"])
            if r["status"] != "done":
                ctx.hist("watchdog", f"{r['status']}:{r.get('stage')}")
            if o:
                cls = "ok" if o["k"] == "ok" else o["cls"]
                ctx.hist("open_outcome", cls)
                ctx.hist("outcome_by_op", f"{c['op'].split(':')[0]}|{cls if cls in ('ok', 'OSError', 'ValueError', 'AssertionError') else 'other-exception'}")
                if o["k"] == "exception":
                    ctx.hist("rejecting_reader", o["where"])
                t = om.get("t_open", 0.0)
                ctx.hist("open_time", bucket(t * 1000, "ms"))
                ctx.hist("open_rss_growth", bucket(om.get("grow_kb", 0) / 1024, "MiB"))
                ent = (round(t, 4), om.get("grow_kb", 0), len(c["b"]), c.get("fx") or c.get("hostile"), c["op"], c["why"][:80], cls)
                slow.append(ent)
                hungry.append((ent[1], ent[0]) + ent[2:])
                if len(slow) > 4000:
                    slow, hungry = top10(slow), top10(hungry)
                if c.get("hdr_valid"):
                    rej_hdr = o["k"] != "ok" and (o["where"].startswith(("header.", "validators.")))
                    ctx.hist("header_valid_value", "accepted" if o["k"] == "ok" else ("rejected-by-header" if rej_hdr else "rejected-later:" + cls))
                    if rej_hdr:
                        ctx.disagree("a header whose fields are all valid was rejected by the header reader",
                                     {"field": c["hdr_valid"], "value": c["hdr_value"], "base": c["fx"], "outcome": o})
                if c.get("hdr_invalid"):
                    ctx.hist("header_invalid_value", f"{c['hdr_invalid']}:" + ("ACCEPTED" if o["k"] == "ok" else "rejected"))
            em = r.get("export")
            if em:
                for op, x in em.get("ops", {}).items():
                    k = x["k"] if x["k"] != "exception" else x["cls"]
                    if x["k"] == "exception" and x["cls"] == "AttributeError" and "ImageMath" in x.get("msg", ""):
                        k = "environment:ImageMath"
                    ctx.hist("export_" + op, k)
                    if x["k"] == "memory":
                        ctx.hist("export_memoryerror_declared", bucket(((om.get("declared") or {}).get("bytes") or 0) / (1 << 20), "MiB"))
                ctx.hist("export_time", bucket(em.get("t", 0) * 1000, "ms"))
                ctx.hist("export_rss_growth", bucket(em.get("grow_kb", 0) / 1024, "MiB"))
                ent = (round(em.get("t", 0), 3), em.get("grow_kb", 0), (om.get("declared") or {}).get("bytes"), len(c["b"]),
                       c.get("fx") or c.get("hostile"), c["op"], c["why"][:80])
                slow_x.append(ent)
                hungry_x.append((ent[1], ent[0]) + ent[2:])
                if len(slow_x) > 4000:
                    slow_x, hungry_x = top10(slow_x), top10(hungry_x)
            vs = violations_of(c, r)
            cpu = om.get("cpu_open")
            if o and cpu is not None:
                n_b = len(c["b"])
                ticks = c.get("_ticks")
                if ticks is not None and ticks >= 500 and cpu > 0:
                    CAL.append(cpu / ticks)
                tk = ticks if ticks is not None else (2105 + 4 * n_b + 168 * min(D_LR16, n_b // 12)) * n_b + 287
                per_tick = max(1e-6, sorted(CAL)[int(0.95 * (len(CAL) - 1))]) if len(CAL) >= 20 else 5e-6
                limit_s = max(TIME_FLOOR, TIME_FACTOR * per_tick * tk)
                if cpu > limit_s:
                    where_ = o["where"] if o["k"] != "ok" else "accepted"
                    vs.append((f"C06/open/time-over-cost-bound/{where_}",
                               f"PSDImage.open of {n_b} bytes used {cpu:.2f} s of CPU; the counting twin needs "
                               f"{tk} ticks for this input ({'open.cost' if ticks is not None else 'polynomial bound of open_steps_bound'}), "
                               f"at the {per_tick * 1e6:.2f} us per tick measured in this run x {TIME_FACTOR:.0f} that allows "
                               f"{limit_s:.2f} s",
                               {"cpu_open_s": round(cpu, 3), "wall_open_s": round(om.get("t_open", 0), 3), "model_ticks": tk,
                                "seconds_per_tick_p95": per_tick, "limit_s": round(limit_s, 3), "outcome": o if o["k"] != "ok" else "ok"}))
            if vs and c.get("chain"):
                info.setdefault("dead_chains", set()).add(c["chain"])
            for sig, what, obs in vs:
                key = (n_changed(c, fxbytes), len(c["b"]))
                cur = found.get(sig)
                if cur is None or key < cur["key"]:
                    found[sig] = dict(case=c, what=what, observed=obs, key=key, count=(cur["count"] if cur else 0) + 1)
                else:
                    cur["count"] += 1
            if "_info" in c:
                infos.setdefault(c["_info"][0], []).append({"why": c["why"], "fx": c.get("fx") or c.get("hostile"), **c["_info"][1]})
        # free the bytes of this chunk (failing cases keep theirs through `found`)
        keep = {id(v["case"]) for v in found.values()}
        for c in chunk:
            if id(c) not in keep:
                c["b"] = b""

    T["watchdog_pool"] = round(t_pool, 1)
    T["model_driver"] = round(t_model, 1)
    T["trace_parse"] = info.get("t_trace")
    T["payload_index"] = info.get("t_payload_index")
    T["pairs_index"] = info.get("t_pairs_index")

    # ---- shrink and report
    t0 = time.time()
    for sig, v in sorted(found.items()):
        c = v["case"]
        # header cases are single-field by construction (and a subset of the bytes would be a different value);
        # a hang costs the full wall-clock limit per probe: both are reported as found
        c2 = c if ("/hang/" in sig or "/time-over-cost-bound/" in sig or c.get("hdr_invalid")) else shrink(pool, c, sig, fxbytes)
        ctx.fail(sig, v["what"], input_repr(c2, fxbytes, sig), v["observed"],
                 "opening returns a document or raises an ordinary Exception within %.0f s and %d KiB + %d x len(b) of "
                 "resident-set growth; an invalid header is rejected" % (TIMEOUT, RSS_CONST_KB, RSS_FACTOR))
        for f in ctx.failures:
            if f["signature"] == sig:
                f["count"] = v["count"]
    T["shrink"] = round(time.time() - t0, 1)

    # ---- metadata
    slow, hungry = top10(slow), top10(hungry)
    ctx.extra["pairs"] = info.get("pairs")
    ctx.extra["nesting"] = {"containers": [nm for nm, _, _ in CP.CONTAINERS], "junk_bytes_behind_every_level": list(CP.JUNK),
                            "stages": info.get("nest_stages"), "chains_dropped_after_a_failing_input": sorted(info.get("dead_chains") or []),
                            "seconds_per_tick_p95": (sorted(CAL)[int(0.95 * (len(CAL) - 1))] if CAL else None),
                            "calibration_inputs": len(CAL), "time_rule": f"cpu(open) <= max({TIME_FLOOR} s, {TIME_FACTOR} x p95 x ticks)"}
    ctx.extra["stream"] = {"cases": n_cases, "model_cases": n_model, "per_section": dict(sorted(sections.items())),
                           "fixtures": info.get("fixtures"),
                           "payload_interior_mutants_by_reader_class": info.get("payload_kinds")}
    ctx.extra["watchdog"] = {
        "workers": pool.n, "wall_clock_limit_s": TIMEOUT,
        "hang_rule": "no answer after %.0f s of wall clock during which the worker had the CPU for >= %.0f s; or no answer "
                     "after %.0f s regardless (starved or sleeping worker)" % (TIMEOUT, 0.6 * TIMEOUT, 4 * TIMEOUT),
        "rlimit_as_bytes": hello["rlimit_as"],
        "baseline_address_space_bytes": hello["base_vm"], "headroom_bytes": hello["rlimit_as"] - hello["base_vm"],
        "baseline_rss_kb": hello["base_rss_kb"], "peak_rss_method": "VmHWM reset per item through /proc/self/clear_refs"
        if hello["hwm_reset"] else "growth of ru_maxrss (VmHWM could not be reset)",
        "worker_restarts_after_kill_or_death": pool.respawns, "recursion_limit": hello["recursion_limit"],
        "rle_impl": hello["rle_impl"], "python": hello["python"],
        "open_rss_bound": f"{RSS_CONST_KB} KiB + {RSS_FACTOR} * len(b)",
    }
    ctx.extra["slowest_open"] = [dict(zip(("t_s", "grow_kb", "len", "base", "op", "why", "outcome"), e)) for e in slow]
    ctx.extra["hungriest_open"] = [dict(zip(("grow_kb", "t_s", "len", "base", "op", "why", "outcome"), e)) for e in hungry]
    ctx.extra["slowest_export"] = [dict(zip(("t_s", "grow_kb", "declared_bytes", "len", "base", "op", "why"), e))
                                   for e in top10(slow_x)]
    ctx.extra["hungriest_export"] = [dict(zip(("grow_kb", "t_s", "declared_bytes", "len", "base", "op", "why"), e))
                                     for e in top10(hungry_x)]
    if infos:
        ctx.extra["information_only"] = {k: v[:10] for k, v in infos.items()}
    if has_cost:
        ctx.extra["model_cost_max_ticks_per_byte"] = cost_ratio_max
    ctx.extra["open_cost_correspondence"] = {
        "cases": OC["n"], "accepted_by_both": OC["ok"], "accepted_with_model_alloc_exactly_python_bytes": OC["ok_exact"],
        "rejected_with_different_exception_class": OC["class_diff"], "lr16_depth_before_RecursionError": D_LR16,
        "max_model_cost_per_byte": OC["max_ratio"],
        "relation": "reads + nested streams of the real typed PSD.read <= model ticks (the model reads a struct format field by "
                    "field and ticks per loop iteration); bytes returned by fp.read + copied into nested streams == model alloc on "
                    "accepted files, <= model alloc + 64 on rejected ones (the model stops at the first missing field of a format)"}
    ctx.extra["phase_wall_s"] = T
    ctx.rule = ("a correspondence case is one malformed input (<= 300 KB) whose PSD.read outcome with raw payloads (exception "
                "class through core.err_class, or final fp.tell()) is compared with the model's psd.dec; distinct = distinct "
                "(section, base file, recipe); trivial = rejected inputs shorter than the 26-byte header. Inputs up to 8 KiB "
                "always go to the model, longer ones with probability C/len (C = %d). A search case is one input opened in the "
                "guarded worker: violation = worker death by signal or exit, no answer within %.0f s, MemoryError under "
                "RLIMIT_AS = baseline + 1200 MiB, resident-set growth during open above %d KiB + %d x len(b) (the reader "
                "copies the remainder once per nesting level and the interpreter's recursion limit caps the nesting near "
                "1000/7 levels), an exception that is not an Exception, or an open() that succeeds on a header with one "
                "invalid field; SEQUENCES: after every input the same worker re-runs a fixed battery (%d headers with one "
                "invalid field, %d good files): a header opened instead of rejected, or a good file that raises / opens to a "
                "different digest (re-written record bytes + layer tree) than in a fresh interpreter, is a violation whose "
                "failing input is the pair (this input, battery item). PAYLOAD INTERIORS: for every reader statement that "
                "swallowed an opaque payload (engine data, XMP, ICC, strings, paths, patterns ...) in some fixture <= 300 KB, "
                "a few such payloads under same-length overwrites (tail behind the first / last occurrence of each token "
                "start the payload contains x 24 fillers; plain anchors; random anchor x injected prefix x filler x window), "
                "all enclosing length fields untouched. PAIRS: for every count-driven loop of the regenerated ReadLoops table an "
                "instance is located in a traced parse (count field = the numeric field in front of the loop whose value is the "
                "number of iterations observed; first item = the reads of the first iteration) and count = ff.. / 7f.. is "
                "combined with each of the first %d numeric fields of the first item set to 0, 1, its own size, the size of the "
                "item header up to it, max - on the fixtures that hold an instance (quick: the three smallest + one drawn; "
                "thorough: the 24 smallest + eight drawn) and on a synthetic minimal instance (the enclosing block / resource transplanted into the "
                "synthetic document, PSD and PSB). NESTING: for every recursive container (Lr16 / Lr32 in a record, the chain "
                "started in the document-level blocks, descriptor in descriptor, list in list, layer groups) depth-d chains "
                "with 0 / 1 / 8 / 64 junk bytes behind every level, d on a ladder up to the reader's recursion limit + 2, run "
                "depth by depth (a chain that produced a failing input is dropped). TIME: for every input with a twin answer, "
                "CPU seconds of PSDImage.open <= max(%.1f s, %.0f x c x ticks) with ticks = open.cost of this input (<= the "
                "polynomial of open_steps_bound, used when there is no twin answer) and c = the 95th percentile of seconds per "
                "tick over the inputs of the run so far. Export calls (every 5th opened input: composite/topil; every 20th and all hand-made ones: "
                "also the first 8 layers' topil/numpy) are violations only for crashes, non-Exceptions, and hangs / "
                "MemoryErrors on files that DECLARE at most 8 MiB of pixels (the compositor's float32 working set is "
                "proportional to the declared volume, measured at up to ~45 x)" % (C, TIMEOUT, RSS_CONST_KB, RSS_FACTOR,
                                                                                    len(BATTERY["reject"]), len(BATTERY["same"]),
                                                                                    CP.MAX_FIELDS, TIME_FLOOR, TIME_FACTOR))
    ctx.trusted_base = ["Lean kernel", "lean/PsdVerif/Model/Psd.lean (hand transliteration of the skeleton readers, checked by "
                        "this correspondence, not proved equal to the Python)", "harness/c06_worker.py + harness/c06_pool.py (the "
                        "watchdog; self-tested on every run against a busy loop, a sleeping process, a segfault, os._exit, a 3 GiB allocation, "
                        "SystemExit and a 200 MiB resident-set spike; the battery's reference outcomes are taken by each worker "
                        "right after start-up and only items that behave there - rejected / same digest twice - are used)",
                        "harness/lenient_common.py (structural map)",
                        "lean/PsdVerif/Model/PayloadCost*.lean, DescriptorCost.lean, EngineDataCost.lean, OpenCost.lean, OpenDispatch.lean "
                        "(counting twins: proved to erase to the C01 payload models; checked against the real reader by open.cost)",
                        "harness/extract_c06*.py (AST extraction of allocation sites, reader loops, registries, regex patterns)",
                        "CPython's re: linear on the engine-data patterns (sufficient condition checked, not proved about the engine)",
                        "Linux RLIMIT_AS / VmHWM accounting"]
    ctx.assumptions = ["the property is observed through io.BytesIO (a declared length larger than the data returns only what is "
                       "there)", "time and memory limits are those of this run: 20 s wall clock, RLIMIT_AS baseline + 1200 MiB"]
    ctx.model_coverage = {
        "modelled (theorems + correspondence)": "file skeleton reader PSD.read with payloads opaque (psd.dec): header and validators, "
        "colour mode data, image resources blocks, layer and mask information, layer info, layer records, channel info, mask data, "
        "blending ranges, names, tagged-block framing, channel image data, global layer mask info, image data; AND the whole typed "
        "reader as a counting interpreter (open.cost, Model/OpenCost.lean + OpenDispatch.lean + OpenMain.lean): every class registered "
        "in tagged_blocks.TYPES (87 keys) and image_resources.TYPES (50 ids) — the PCodec combinators, the hand-written readers of "
        "units 2-10, the descriptor family, Lr16/Lr32 nesting on a fuel that stands for the recursion limit, the engine-data "
        "tokenizer/parser: outcome class, final cursor, number of reads (<=) and bytes returned + copied (== on accepted files) "
        "compared with the real typed PSD.read under a counting io.BytesIO",
        "watchdog only (no model)": "PSDImage._init (layer tree) and the export paths composite()/topil()/numpy() with zlib, PIL, "
        "NumPy and the compiled _rle extension; real time and memory of everything",
    }
    no_inst = (info.get("pairs") or {}).get("loops_without_instance_in_any_fixture") or []
    if no_inst:
        ctx.notes.append("count-driven loops of the table with no executed instance in any fixture <= 300 KB (pairs not "
                         "applied; the export-time loops of compression/* and ImageData are driven by the header and run at "
                         "export only): " + "; ".join(no_inst))
    ctx.notes += [
        "read_seeks_tied: the reading functions move the cursor other than by reading at eight reviewed places, none inside a "
        "loop (regenerated from the AST on every run); the pairs section is the search-side counterpart (count = max together "
        "with a zero / self-sized length of the first item).",
        "PARTIAL with respect to the property: the theorems bound the MODEL's steps / allocations / outcomes (now for the whole "
        "typed reader: Props/C06.open_steps_bound, ticks + bytes <= (2105 + 4n + 168 min(D, n/12)) n + 287 for every byte string); "
        "real time, memory and interpreter crashes are runtime behaviour that only the watchdog observes, on the inputs of this run.",
        "the cost model found two super-linear readers: the engine-data tokenizer copied the rest of the blob per token (repaired, "
        "repo 606e5d1; hostile files enginedata-tokens-*), and SliceV6.read re-reads the rest of the Slices resource per slice "
        "(known finding C06/open/read-volume/Slices; Props/C06.slices_not_linear / slices_quadratic_partial).",
        "TRUSTED for the engine data: CPython's re does O(1) work per byte on the tokenizer's patterns; a decidable sufficient "
        "condition (star height <= 1, disjoint FIRST sets, the one-versus-two tiling exception) is checked on the regenerated "
        "patterns (Props/C06.engine_patterns_safe) and rejects the seeded variant of UTF16_END.",
        "the allocation theorems count what fp.read RETURNS (io.BytesIO); through a buffered file object the declared length is "
        "reserved first: the hand-made *-length-max files are also opened from a temporary file (known findings "
        "C06/open-from-path/memory/*; Props/C06.declared_length_is_requested, alloc_sites_tied).",
        "the real parse of malformed bytes never runs in the harness process: PSD.read with raw payloads (for the "
        "correspondence) and PSDImage.open both run inside the guarded worker.",
        "opening never decompresses pixel data (ChannelData / ImageData keep the compressed bytes), so zlib bombs and "
        "width x height allocations can only bite at export time; they are exercised there and classified C06/export/...",
        "zlib bombs: before repo commit 72f34ff compression.decompress() called zlib.decompress() without a bound (a 2 MB ZIP "
        "channel of a 4x4 layer, or the merged image data of a 4x4 document, inflated to 2 GiB: ~25 s and 2 GiB per export "
        "call, MemoryError under RLIMIT_AS); it now inflates through a decompressobj limited to the expected "
        "width*height*bytes and raises ValueError when the stream holds more. PackBits rows are bounded by the decoder's "
        "`size` argument (C05). The hostile files zipbomb-* (64 MiB and 2 GiB, compression 2 and 3, layer channel and merged "
        "image) run on every run, the 2 GiB ones also from the corpus.",
        "header bounds: before repo commit 9dcb7fb FileHeader accepted 57 channels and a height/width of 300001 (range()-style "
        "bounds given to the inclusive validator); found by the header section of this check (C06/header/*-accepted).",
        "the compiled _rle extension present in the working tree is what `rle_impl` resolves to in the workers (see "
        "watchdog.rle_impl); it is exercised by the export subset only.",
        "an AttributeError mentioning ImageMath at export is the Pillow 12 environment (no ImageMath.eval), not a finding; "
        "the repository already uses ImageMath.lambda_eval when present.",
    ]
    if not ctx.quick:
        ctx.recheck(["PsdVerif.Props.C06"])


# ------------------------------------------------------------------------------------------------ shrinking
def shrink(pool, c, sig, fxbytes):
    """fewest changed bytes with respect to the base file: ddmin over the changed offsets (same-length mutants only)"""
    base = fxbytes.get(c.get("fx") or "")
    b = c["b"]
    if base is None or len(base) != len(b):
        return c
    offs = [k for k in range(len(b)) if b[k] != base[k]]
    if len(offs) <= 1 or len(offs) > 64:
        return c
    budget = [40]

    def test(sub):
        if budget[0] <= 0:
            return False
        budget[0] -= 1
        bb = bytearray(base)
        for k in sub:
            bb[k] = b[k]
        cc_ = dict(c, b=bytes(bb))
        r = pool.one(c["flags"], cc_["b"])
        return any(s == sig for s, _, _ in violations_of(cc_, r))
    keep = core.ddmin(offs, test)
    bb = bytearray(base)
    for k in keep:
        bb[k] = b[k]
    return dict(c, b=bytes(bb), why=c["why"] + f" [shrunk to {len(keep)} of {len(offs)} changed bytes]")


# ------------------------------------------------------------------------------------------------ replay
def replay(ctx, data):
    inp = data.get("input") or {}
    if data.get("kind") == "broken-obligation" or not inp:
        print(json.dumps(data.get("observed"), indent=1)[:3000])
        return 0
    b = bytes_of_input(inp)
    pool = c06_pool.Pool(n=1, timeout=TIMEOUT, export_timeout=TIMEOUT, env={"C06_WARMUP": hx(G.syn_doc(1))})
    try:
        write_battery(pool)
        hello = pool.start()
        flags = inp.get("flags", 7)
        r = pool.one(flags, b)
        c = dict(b=b, op=inp.get("op", "replay"), why=inp.get("why", ""), flags=flags, label=None)
        sig = data.get("signature", "")
        if sig.startswith("C06/header/") and sig.endswith("-accepted"):
            c["hdr_invalid"] = sig[len("C06/header/"):-len("-accepted")]
            c["hdr_value"] = inp.get("why", "")
        vs = violations_of(c, r)
        print(f"input: {len(b)} bytes  ({inp.get('why')})   RLIMIT_AS={hello['rlimit_as']}  limit={TIMEOUT:.0f}s")
        print("status:", r["status"], "stage:", r.get("stage"), "signal:", r.get("signal"), "stack:", r.get("stack"))
        om = r.get("open") or {}
        print("open:", om.get("open"), "t=%.3fs" % om.get("t_open", 0), "cpu=%.3fs" % om.get("cpu_open", 0), "rss growth KiB:", om.get("grow_kb"))
        if "/time-over-cost-bound/" in data.get("signature", ""):
            lim = (data.get("observed") or {}).get("limit_s") or TIME_FLOOR
            cpu = om.get("cpu_open", 0)
            print(("VIOLATION-REPRODUCED" if cpu > lim else "not reproduced:"), data.get("signature"),
                  "- CPU %.2f s of PSDImage.open against the %.2f s the cost bound allowed in the run that found it "
                  "(%s model ticks)" % (cpu, lim, (data.get("observed") or {}).get("model_ticks")))
        if r.get("export"):
            print("export:", {k: (v.get("cls") or v["k"]) for k, v in r["export"]["ops"].items()}, "t=%.2fs" % r["export"].get("t", 0),
                  "rss growth KiB:", r["export"].get("grow_kb"))
        bat = (r.get("export") or {}).get("battery") or om.get("battery")
        if bat is not None:
            print("battery re-run in the same interpreter right after this input: %d items, %d misbehaved (fresh-process "
                  "reference: %s)" % (bat["ran"], len(bat["bad"]), json.dumps(hello.get("battery"))[:400]))
            for x in bat["bad"]:
                print("   ", x)
        for s, what, _ in vs:
            print("VIOLATION-REPRODUCED" if s == sig else "OTHER-VIOLATION", s, "-", what)
        if not vs:
            print("no violation on this tree (expected signature: %s)" % sig)
    finally:
        pool.close()
    return 0
