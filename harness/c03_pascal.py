"""C03 - Pascal strings at the limit of their one-byte length, at every place the writers emit one.

A Pascal string announces its size in ONE byte. A value of more than 255 ENCODED bytes (a name of at most 255
characters in a multi-byte encoding is enough) cannot be announced truthfully: the writer has to refuse it or to
store something whose length byte is true. This module

* enumerates the call sites of `write_pascal_string` from the AST of every module of `psd_tools` (class, method,
  the expression written, where its encoding comes from, the padding) - nothing is listed by hand; a call site for
  which the harness cannot build an instance is reported as a broken tie;
* observes every call that reaches those sites (the name `write_pascal_string` in each importing module is wrapped;
  the wrapper only looks at the bytes that arrived in the stream): an independent reading of the emitted bytes -
  length byte n, n bytes equal to the encoded value, zero padding up to the unit, nothing else, the reported count
  equal to the bytes emitted;
* drives every site with values of 0, 1, 127, 128, 254, 255, 256, 257, 300 ENCODED bytes, for sites that take the
  document's encoding in every supported encoding (single-byte characters and, where the encoding has them, two- and
  three-byte characters so that <= 255 characters exceed 255 bytes), through the element's own `write` and through
  whole documents (`PSD.write`, `PSDImage.save`): legacy-only layer names, layer names set through the API (with the
  unicode block), image resource names, the alpha-channel names of resource 1006 - the documents go to the Lean
  format walker like every other written file.
"""
from __future__ import annotations

import ast
import copy
import importlib
import inspect
import io

import codec_common as cc
import core
import c03_extra
from core import hx

LENGTHS = [0, 1, 127, 128, 254, 255, 256, 257, 300]
ENCODINGS = ["macroman", "maccyrillic", "utf_8", "shift_jis", "ascii", "cp932", "latin_1", "gbk", "euc_kr", "cp1252", "big5",
             "utf_16_be"]
WIDE_CHARS = ["é", "Ж", "あ", "한", "中", "Ω", "€"]


def pascal_sites():
    """[(module, class, method, expression, encoding source, padding source)] from the AST"""
    root = core.REPO / "src" / "psd_tools"
    sites = []
    for f in sorted(root.rglob("*.py")):
        try:
            tree = ast.parse(f.read_text())
        except Exception:  # noqa
            continue
        mod = "psd_tools." + str(f.relative_to(root))[:-3].replace("/", ".")
        for cls in [n for n in ast.walk(tree) if isinstance(n, ast.ClassDef)]:
            for fn in [n for n in cls.body if isinstance(n, ast.FunctionDef)]:
                for c in ast.walk(fn):
                    if isinstance(c, ast.Call) and getattr(c.func, "id", getattr(c.func, "attr", None)) == "write_pascal_string":
                        args = [ast.unparse(a) for a in c.args]
                        kw = {k.arg: ast.unparse(k.value) for k in c.keywords}
                        enc = kw.get("encoding", args[2] if len(args) > 2 else "'macroman'")
                        pad = kw.get("padding", args[3] if len(args) > 3 else "2")
                        sites.append((mod, cls.name, fn.name, args[1] if len(args) > 1 else "?", enc, pad))
    return sites


def string_of(encoding, nbytes, wide):
    """a str whose `encoding` form has exactly nbytes bytes; `wide`: use as many multi-byte characters as fit.
    None when impossible."""
    try:
        one = "a".encode(encoding)
    except Exception:  # noqa
        return None
    if not wide:
        if nbytes % len(one):
            return None
        return "a" * (nbytes // len(one))
    for ch in WIDE_CHARS:
        try:
            k = len(ch.encode(encoding))
        except Exception:  # noqa
            continue
        if k <= len(one):
            continue
        n_wide = nbytes // k
        rest = nbytes - n_wide * k
        if rest % len(one):
            continue
        s = ch * n_wide + "a" * (rest // len(one))
        if len(s.encode(encoding)) == nbytes:
            return s
    return None


class Spy:
    """wraps the module-level name `write_pascal_string` wherever it was imported"""

    def __init__(self):
        self.calls = 0
        self.by_site = {}
        self.failures = []     # dict(site, value, encoding, padding, emitted, problem)
        self.refused = {}
        self._saved = []

    def __enter__(self):
        import sys
        import psd_tools.utils as U
        orig = U.write_pascal_string
        spy = self

        def wrapper(fp, value, encoding="macroman", padding=2):
            fr = inspect.currentframe().f_back
            slf = fr.f_locals.get("self")
            site = "%s.%s" % (type(slf).__name__ if slf is not None else fr.f_globals.get("__name__", "?"), fr.f_code.co_name)
            try:
                start = fp.tell()
            except Exception:  # noqa
                start = None
            try:
                n = orig(fp, value, encoding, padding)
            except Exception as e:  # noqa   refusing is allowed
                spy.refused[site] = spy.refused.get(site, 0) + 1
                raise
            spy.calls += 1
            spy.by_site[site] = spy.by_site.get(site, 0) + 1
            if start is None or not hasattr(fp, "getvalue"):
                return n
            emitted = fp.getvalue()[start:fp.tell()]
            problem = spy.reading(emitted, value, encoding, padding, n)
            if problem and len(spy.failures) < 200:
                spy.failures.append(dict(site=site, value=value, encoding=encoding, padding=padding, emitted=emitted,
                                         problem=problem, reported=n))
            return n
        for name, m in list(sys.modules.items()):
            if name.startswith("psd_tools") and m is not None and getattr(m, "write_pascal_string", None) is orig \
                    and name != "psd_tools.utils":
                self._saved.append((m, orig))
                m.write_pascal_string = wrapper
        self.patched = [m.__name__ for m, _ in self._saved]
        return self

    def __exit__(self, *a):
        for m, orig in self._saved:
            m.write_pascal_string = orig
        return False

    @staticmethod
    def reading(emitted: bytes, value, encoding, padding, reported):
        """independent reading of one Pascal string: None | problem"""
        try:
            want = value.encode(encoding)
        except Exception:  # noqa
            return None
        if reported != len(emitted):
            return "reported-count-differs-from-bytes-emitted"
        if not emitted:
            return "nothing-emitted"
        n = emitted[0]
        if n != len(want):
            # what a reader navigating by the length byte sees
            return "length-byte-%d-for-%s-encoded-bytes" % (n, "more-than-255" if len(want) > 255 else str(len(want)))
        if emitted[1:1 + n] != want:
            return "bytes-differ-from-the-encoded-value"
        unit = max(int(padding), 1)
        total = -(-(1 + n) // unit) * unit
        if len(emitted) != total:
            return "not-padded-to-the-unit"
        if any(emitted[1 + n:]):
            return "padding-not-zero"
        return None


_HARVEST: dict = {}
_FIXTURES: list = []


def _walk(obj, K, seen, depth=0):
    """first instance of class K inside a parsed document"""
    if id(obj) in seen or depth > 14:
        return None
    seen.add(id(obj))
    if type(obj).__name__ == K.__name__ and type(obj).__module__ == K.__module__:
        return obj
    if isinstance(obj, (str, bytes, int, float, bool)) or obj is None:
        return None
    kids = []
    if isinstance(obj, dict):
        kids = list(obj.values())
    elif isinstance(obj, (list, tuple)):
        kids = list(obj)
    else:
        if hasattr(obj, "_items"):
            it = getattr(obj, "_items", None)
            kids += list(it.values()) if isinstance(it, dict) else list(it or [])
        for a in getattr(type(obj), "__attrs_attrs__", ()):
            kids.append(getattr(obj, a.name, None))
    for k in kids:
        r = _walk(k, K, seen, depth + 1)
        if r is not None:
            return r
    return None


def _harvest(K):
    """an instance of K as some fixture holds it (for classes whose default construction cannot be written)"""
    key = (K.__module__, K.__name__)
    if key not in _HARVEST:
        _HARVEST[key] = None
        for f in _FIXTURES:
            r = cc.read_doc(f.read_bytes())
            if r[0] != "ok":
                continue
            x = _walk(r[1], K, set())
            if x is not None:
                _HARVEST[key] = x
                break
    return copy.deepcopy(_HARVEST[key]) if _HARVEST[key] is not None else None


def _instance(mod, cls, harvested=False):
    m = importlib.import_module(mod)
    K = getattr(m, cls)
    if harvested:
        x = _harvest(K)
        if x is None:
            raise LookupError("no fixture holds a %s" % cls)
        return K, x
    return K, K()


def _set_path(obj, expr, value):
    """expr is `self.x` (set attribute x), `item` (the object is a list: one item) or `self._legacy_name(encoding)`"""
    if expr.startswith("self._legacy_name"):
        obj.name = value
        return True
    if expr.startswith("self.") and expr[5:].isidentifier():
        setattr(obj, expr[5:], value)
        return True
    if expr == "item":
        obj.append(value)
        obj.append("tail")
        return True
    return False


def element_level(ctx, spy, fx_all=()):
    """every call site x boundary length x encoding, through the element's own write()"""
    _FIXTURES[:] = [f for f in fx_all if f.stat().st_size <= 300000]
    sites = pascal_sites()
    ctx.extra["pascal_sites"] = ["%s.%s: %s (encoding %s, padding %s)" % (c, f, e, enc, pad) for _, c, f, e, enc, pad in sites]
    n = 0
    for mod, cls, meth, expr, enc_src, pad_src in sites:
        fixed = None
        if enc_src.startswith(("'", '"')):
            fixed = enc_src.strip("'\"")
        encs = [fixed] if fixed else ENCODINGS
        reached = False
        for harvested, enc in [(False, e) for e in encs] + [(True, e) for e in encs]:
            if harvested and reached:
                break
            for nbytes in LENGTHS:
                for wide in (False, True):
                    s = string_of(enc, nbytes, wide)
                    if s is None:
                        continue
                    try:
                        K, x = _instance(mod, cls, harvested)
                        if not _set_path(x, expr, s):
                            continue
                    except Exception:  # noqa
                        continue
                    before = spy.calls + sum(spy.refused.values())
                    f = io.BytesIO()
                    for kw in ({"encoding": enc}, {}):
                        if not fixed and not kw:
                            continue
                        try:
                            x.write(f, **kw)
                            break
                        except TypeError as e:
                            if "unexpected keyword" in str(e):
                                continue
                            break
                        except Exception:  # noqa  (refused, or an unrelated default field: the spy has seen the call)
                            break
                    n += 1
                    if spy.calls + sum(spy.refused.values()) > before:
                        reached = True
        if not reached:
            ctx.disagree("a write_pascal_string call site the harness cannot reach with an instance of its class",
                         {"site": "%s.%s.%s" % (mod, cls, meth), "expression": expr})
    return n


def document_level(ctx, fx_all):
    """-> [(label, scenario, bytes, None, meta)] whole documents carrying boundary-length Pascal strings"""
    from psd_tools import PSDImage
    from psd_tools.constants import Resource, Tag
    from psd_tools.psd import PSD
    from psd_tools.psd.image_resources import AlphaNamesPascal, ImageResource
    out = []
    small = [f for f in fx_all if f.stat().st_size <= 40000]
    with_layers = []
    for f in small:
        r = cc.read_doc(f.read_bytes())
        if r[0] == "ok" and r[1].layer_and_mask_information.layer_info is not None \
                and r[1].layer_and_mask_information.layer_info.layer_records:
            with_layers.append(f)
        if len(with_layers) >= 2:
            break
    psb = [f for f in fx_all if f.suffix.lower() == ".psb" and f.stat().st_size <= 200000][:1]
    docs = with_layers + psb
    encs = ENCODINGS if not ctx.quick else ["macroman", "utf_8", "shift_jis", "ascii", "gbk"]
    lengths = [254, 255, 256, 300] if ctx.quick else LENGTHS

    def emit(label, scen, meta, fn):
        try:
            b = fn()
        except Exception as e:  # noqa  refused: nothing written
            ctx.hist("pascal_documents", scen.split("/")[-1] + ":refused:" + type(e).__name__)
            return
        ctx.hist("pascal_documents", scen.split("/")[-1] + ":written")
        out.append((label, scen, b, None, meta))

    for f in docs:
        data = f.read_bytes()
        for enc in encs:
            for nbytes in lengths:
                for wide in (False, True):
                    s = string_of(enc, nbytes, wide)
                    if s is None:
                        continue
                    meta = {"fixture": f.name, "encoding": enc, "encoded_bytes": nbytes, "characters": len(s),
                            "string": s if len(s) <= 40 else s[:3] + "...x%d" % len(s)}
                    tag = "%s-%s-%d%s" % (f.stem[:20], enc, nbytes, "w" if wide else "")

                    def legacy_only(s=s, enc=enc):
                        d = PSD.read(io.BytesIO(data))
                        rec = d.layer_and_mask_information.layer_info.layer_records[0]
                        if Tag.UNICODE_LAYER_NAME in rec.tagged_blocks:
                            del rec.tagged_blocks[Tag.UNICODE_LAYER_NAME]
                        rec.name = s
                        g = io.BytesIO()
                        d.write(g, encoding=enc)
                        return g.getvalue()

                    def api_name(s=s, enc=enc):
                        p = PSDImage.open(io.BytesIO(data))
                        p[0].name = s
                        g = io.BytesIO()
                        p.save(g, encoding=enc)
                        return g.getvalue()

                    def resource_name(s=s, enc=enc):
                        d = PSD.read(io.BytesIO(data))
                        d.image_resources[Resource.CAPTION_PASCAL] = ImageResource(key=int(Resource.CAPTION_PASCAL), name=s, data=b"\x00\x00")
                        g = io.BytesIO()
                        d.write(g, encoding=enc)
                        return g.getvalue()

                    emit("legacy-name-" + tag, "pascal/layer-name-legacy-only", dict(meta, field="LayerRecord.name without luni"), legacy_only)
                    emit("api-name-" + tag, "pascal/layer-name-api", dict(meta, field="layer.name = ..."), api_name)
                    emit("resource-name-" + tag, "pascal/image-resource-name", dict(meta, field="ImageResource.name"), resource_name)
        # resource 1006: always MacRoman
        for nbytes in lengths:
            s = string_of("macroman", nbytes, False)

            def alpha(s=s):
                d = PSD.read(io.BytesIO(data))
                d.image_resources[Resource.ALPHA_NAMES_PASCAL] = ImageResource(
                    key=int(Resource.ALPHA_NAMES_PASCAL), data=AlphaNamesPascal([s, "second"]))
                g = io.BytesIO()
                d.write(g)
                return g.getvalue()
            emit("alpha-names-%s-%d" % (f.stem[:20], nbytes), "pascal/alpha-channel-names",
                 {"fixture": f.name, "encoded_bytes": nbytes, "field": "AlphaNamesPascal item"}, alpha)
    return out


def run(ctx, fx_all):
    """called at the end of props/C03.run"""
    try:
        with Spy() as spy:
            n_el = element_level(ctx, spy, fx_all)
            docs = document_level(ctx, fx_all)
        ctx.extra["pascal_calls_observed"] = dict(spy.by_site)
        ctx.extra["pascal_calls_refused"] = dict(spy.refused)
        ctx.count(("pascal-element-level",), n=n_el)
        for fl in spy.failures:
            v = fl["value"]
            ctx.fail("C03/pascal-string/%s/%s" % (fl["problem"], c03_extra.slug(fl["site"])),
                     "a Pascal string is written with a length byte (or padding / count) that does not describe the bytes that follow",
                     {"site": fl["site"], "value_characters": len(v), "value": v if len(v) <= 400 else None,
                      "value_repr": (v[:2] + "...") if len(v) > 400 else None,
                      "encoding": fl["encoding"], "padding": fl["padding"],
                      "encoded_bytes": len(v.encode(fl["encoding"]))},
                     {"problem": fl["problem"], "emitted": hx(fl["emitted"][:24]) + ("..." if len(fl["emitted"]) > 24 else ""),
                      "emitted_bytes": len(fl["emitted"]), "reported": fl["reported"]},
                     "refusal, or: length byte = number of encoded bytes, then exactly those bytes, zero padding to the unit")
        ans = cc.pbatch([("psd.walk", hx(j[2])) for j in docs])
        for (label, scen, b, exp, meta), a in zip(docs, ans):
            ctx.corr_cases += 1
            ctx.count((scen, label, len(b)), nontrivial=True)
            ctx.hist("scenario", scen)
            c03_extra.judge(ctx, label, scen, b, exp, meta, a)
    except core.Infra:
        raise
    except Exception as e:  # noqa  (the harness's own plumbing met a reshaped source: a broken tie, never exit 2)
        import traceback
        ctx.disagree("Pascal string scenarios stopped on the current source: %s" % type(e).__name__,
                     {"error": repr(e)[:300], "where": traceback.format_exc()[-400:]})
    ctx.rule += (" Added (harness/c03_pascal.py): every write_pascal_string call site (enumerated from the AST) x encoded lengths "
                 "0, 1, 127, 128, 254, 255, 256, 257, 300 x every supported encoding (single- and multi-byte characters), through the "
                 "element's write and through whole documents (legacy-only layer names, API-set names, image resource names, "
                 "alpha-channel names); every observed call is read back independently (length byte, bytes, padding, count); "
                 "the writer may refuse.")
