"""C01 (typed documents) extractor -> lean/PsdVerif/Generated/TypedDoc.lean.

What the typed tagged block and the engine-data compositions of lean/PsdVerif/Model/Typed*.lean depend on, read from the
live modules and from their AST on every run:

* `taggedRegistry`        `tagged_blocks.TYPES`: every (key, class name), sorted by key - the dispatch table of
                          `TaggedBlock.read`;
* `taggedBlockDispatch`   the statements of `TaggedBlock.read` from `kls = TYPES.get(key)` to the end of the `if kls:`
                          statement (log / warn calls dropped): which call types the payload and what the fallback is;
* `taggedBlockExcepts`    (exception types caught, body of the `try`) for every `try` of `TaggedBlock.read`: the payload
                          reader is *not* inside one - whatever it raises leaves `TaggedBlock.read`;
* `typeToolEngine`        the `if` test, the body of the `try` and the handler types of the engine-data step of
                          `TypeToolObjectSetting.read`;
* `rawDataWriter`         the body of the `writer` closure of `descriptor.RawData.write`;
* `engineDataLayouts`     (class, base classes, own `write` parameters with their defaults) for `Dict`, `EngineData`,
                          `EngineData2`: which layout each of them writes by default;
* `engineDataKey`         the key literal `TypeToolObjectSetting.read` looks up.

A source that no longer has the shape read here is not an infrastructure error: sentinels (`<missing>`) are emitted, the
tie theorems of Props/C01Typed.lean fail, and the run goes on.
"""
from __future__ import annotations

import ast

import extract_payload as ep
from extract_payload import _s, _bytes

TB = "psd_tools.psd.tagged_blocks"
DESC = "psd_tools.psd.descriptor"
ED = "psd_tools.psd.engine_data"


def _norm(node):
    return " ".join(ast.unparse(node).split())


def _is_log(st):
    if not isinstance(st, ast.Expr) or not isinstance(st.value, ast.Call):
        return False
    f = ast.unparse(st.value.func)
    return "logger" in f or f == "warn"


def _stmts(body):
    """statements as normalised text, log / warn calls, their message assignments and comments dropped"""
    out = []
    for st in body:
        if _is_log(st):
            continue
        if isinstance(st, ast.Assign) and len(st.targets) == 1 and _norm(st.targets[0]) == "message":
            continue
        if isinstance(st, ast.If):
            out.append("if %s: { %s } else: { %s }" % (_norm(st.test), "; ".join(_stmts(st.body)), "; ".join(_stmts(st.orelse))))
        elif isinstance(st, ast.Try):
            out.append("try: { %s } except %s: { %s }" % ("; ".join(_stmts(st.body)),
                                                         " | ".join(_norm(h.type) if h.type is not None else "<bare>" for h in st.handlers),
                                                         " | ".join("; ".join(_stmts(h.body)) for h in st.handlers)))
        else:
            out.append(_norm(st))
    return out


def _dispatch(fn):
    if fn is None:
        return "<missing>"
    body = list(fn.body)
    for i, st in enumerate(body):
        if isinstance(st, ast.Assign) and "TYPES" in _norm(st.value):
            rest = body[i:]
            # up to and including the first `if` after it
            keep = []
            for s in rest:
                keep.append(s)
                if isinstance(s, ast.If):
                    break
            return "; ".join(_stmts(keep))
    return "<missing>"


def _tries(fn):
    if fn is None:
        return [("<missing>", "<missing>")]
    found = []
    for n in ast.walk(fn):
        if isinstance(n, ast.Try):
            found.append(((n.lineno, n.col_offset),
                          " | ".join(_norm(h.type) if h.type is not None else "<bare>" for h in n.handlers),
                          "; ".join(_stmts(n.body))))
    found.sort()
    return [(a, b) for _, a, b in found]


def _engine_step(fn):
    """(if-test, try body, handler types, handler bodies) of the first `if` of the method that contains a `try`"""
    if fn is None:
        return ("<missing>", "<missing>", "<missing>", "<missing>")
    for st in fn.body:
        if isinstance(st, ast.If):
            for inner in st.body:
                if isinstance(inner, ast.Try):
                    return (_norm(st.test), "; ".join(_stmts(inner.body)),
                            " | ".join(_norm(h.type) if h.type is not None else "<bare>" for h in inner.handlers),
                            " | ".join("; ".join(_stmts(h.body)) for h in inner.handlers))
    return ("<missing>", "<missing>", "<missing>", "<missing>")


def _closure(fn, name):
    if fn is None:
        return "<missing>"
    for n in ast.walk(fn):
        if isinstance(n, ast.FunctionDef) and n.name == name:
            return "; ".join(_stmts(n.body))
    return "<missing>"


def _write_sig(cls):
    fn = ep._method_node(cls, "write")
    if fn is None:
        return "<inherited>"
    a = fn.args
    names = [x.arg for x in a.args]
    defaults = [None] * (len(names) - len(a.defaults)) + [_norm(d) for d in a.defaults]
    parts = [n if d is None else f"{n}={d}" for n, d in zip(names, defaults)]
    if a.vararg:
        parts.append("*" + a.vararg.arg)
    if a.kwarg:
        parts.append("**" + a.kwarg.arg)
    return ", ".join(parts)


def gen_typed(ctx):
    notes: list = []
    P = ["namespace PsdVerif.Generated.TypedDoc\n"]
    summary = {}
    import extract_payload3 as e3
    reg = e3._registry(TB, "TYPES", notes, int_keys=False)
    P.append("/-- `tagged_blocks.TYPES`: (key, class name), sorted by key -/\n"
             "def taggedRegistry : List (List UInt8 × String) := [\n  " + ",\n  ".join(f"({_bytes(k)}, {_s(v)})" for k, v in reg) + "\n]\n")
    summary["taggedRegistry"] = len(reg)

    _, tb_tree = ep._module_tree(TB, notes)
    tblock = ep._class_node(tb_tree, "TaggedBlock")
    rd = ep._method_node(tblock, "read")
    P.append(f"/-- `TaggedBlock.read`: from the registry lookup to the end of the `if kls:` statement -/\n"
             f"def taggedBlockDispatch : String := {_s(_dispatch(rd))}\n")
    tries = _tries(rd)
    P.append("/-- `TaggedBlock.read`: (exception types caught, body of the `try`), in source order -/\n"
             "def taggedBlockExcepts : List (String × String) := [" + ", ".join(f"({_s(a)}, {_s(b)})" for a, b in tries) + "]\n")

    tt = ep._class_node(tb_tree, "TypeToolObjectSetting")
    step = _engine_step(ep._method_node(tt, "read"))
    P.append("/-- the engine-data step of `TypeToolObjectSetting.read`: (`if` test, body of the `try`, handler types, handler bodies) -/\n"
             "def typeToolEngine : String × String × String × String := (" + ", ".join(_s(x) for x in step) + ")\n")
    key = "<missing>"
    try:
        t = ast.parse(step[0], mode="eval").body
        if isinstance(t, ast.Compare) and isinstance(t.left, ast.Constant) and isinstance(t.left.value, bytes):
            key = t.left.value
    except Exception:  # noqa
        pass
    P.append("/-- the key `TypeToolObjectSetting.read` looks up in the text descriptor -/\n"
             f"def engineDataKey : List UInt8 := {_bytes(key if isinstance(key, bytes) else b'')}\n")

    _, d_tree = ep._module_tree(DESC, notes)
    raw = ep._class_node(d_tree, "RawData")
    P.append(f"/-- the `writer` closure of `descriptor.RawData.write` -/\n"
             f"def rawDataWriter : String := {_s(_closure(ep._method_node(raw, 'write'), 'writer'))}\n")

    _, e_tree = ep._module_tree(ED, notes)
    rows = []
    for nm in ("Dict", "EngineData", "EngineData2"):
        cls = ep._class_node(e_tree, nm)
        if cls is None:
            rows.append((nm, "<missing>", "<missing>"))
        else:
            rows.append((nm, ", ".join(_norm(b) for b in cls.bases), _write_sig(cls)))
    P.append("/-- engine data: (class, base classes, parameters of its own `write`) -/\n"
             "def engineDataLayouts : List (String × String × String) := [" +
             ", ".join(f"({_s(a)}, {_s(b)}, {_s(c)})" for a, b, c in rows) + "]\n")
    P.append("end PsdVerif.Generated.TypedDoc\n")
    for n in notes:
        ctx.notes.append("extract_typed: " + n)
    ctx.write_generated("TypedDoc", "".join(P))
    return summary
