"""Entry point: ./check Cxx [--tier quick|thorough] [--replay file]."""
from __future__ import annotations

import argparse
import importlib
import json
import os
import sys
import traceback
from pathlib import Path

sys.path.insert(0, str(Path(__file__).resolve().parent))
import core  # noqa: E402


def main() -> int:
    ap = argparse.ArgumentParser()
    ap.add_argument("prop")
    ap.add_argument("--tier", default=os.environ.get("VERIF_TIER", "quick"), choices=["quick", "thorough"])
    ap.add_argument("--replay", default=None)
    a = ap.parse_args()
    try:
        seed = int(os.environ.get("VERIF_SEED", "0"))
    except ValueError:
        seed = 0
    # the repository is used from its working tree; hooks (none are needed) would be enabled by this guard
    os.environ.setdefault("PSD_TOOLS_VERIF", "1")
    os.environ.setdefault("PYTHONDONTWRITEBYTECODE", "1")
    # never trust a stale __pycache__ of the repository: byte code is looked up in an empty scratch directory
    import atexit, shutil, tempfile
    pyc = tempfile.mkdtemp(prefix="verif-pyc-")
    atexit.register(shutil.rmtree, pyc, True)
    sys.pycache_prefix = pyc
    sys.dont_write_bytecode = True
    os.environ["PYTHONPYCACHEPREFIX"] = pyc
    import logging
    logging.disable(logging.CRITICAL)   # the library logs decoding errors it re-raises
    ctx = core.Run(a.prop, a.tier, seed)
    try:
        mod = importlib.import_module(f"props.{a.prop}")
        if a.replay:
            data = json.loads(Path(a.replay).read_text())
            return mod.replay(ctx, data)
        mod.run(ctx)
        return ctx.finish()
    except core.Infra as e:
        print(f"INFRA-ERROR property={a.prop}: {e}", file=sys.stderr)
        return 2
    except Exception as e:
        tb = traceback.extract_tb(sys.exc_info()[2])
        in_repo = [fr for fr in tb if str(core.REPO) in fr.filename]
        if in_repo and not a.replay:
            # the library itself raised where the harness expects it to work (e.g. while preparing a case):
            # that is behaviour of the code under test, to be reported, not an infrastructure failure
            last = in_repo[-1]
            ctx.disagree("the implementation raised %s inside the harness at %s:%d (%s): %s"
                         % (type(e).__name__, last.filename.replace(str(core.REPO) + "/", ""), last.lineno, last.name, str(e)[:200]),
                         {"traceback_tail": [f"{fr.filename}:{fr.lineno} {fr.name}" for fr in tb[-6:]]})
            ctx.notes.append("run aborted early by an exception raised inside the implementation")
            return ctx.finish()
        traceback.print_exc()
        print(f"INFRA-ERROR property={a.prop}: unexpected exception in the harness", file=sys.stderr)
        return 2


if __name__ == "__main__":
    sys.exit(main())
