"""C05 - two laws the per-call contract check cannot see.

1. *Results are values.*  What `encode` / `decode` return must not depend on any LATER call:
   a batch of rows is encoded, every result is KEPT as returned (no copy), and only afterwards
   every kept result is validated (reference decoder, size bound, unchanged since it was
   returned) and its identity is examined (an immutable `bytes`, or at least a mutable object
   nobody else holds: not another result, not a module-level buffer of the implementation).
   `retention_battery` is used in-process for every implementation the check compares and, in a
   fresh interpreter, for the implementation the package SELECTS.

2. *The selection honours the contract in both configurations.*  `python c05_select.py <config>`
   starts from a clean interpreter, optionally makes `psd_tools.compression._rle` unimportable
   (`no-compiled`: a meta-path finder that raises ImportError for that one module, which is what an
   extension built for another ABI does), imports `psd_tools.compression`, reports which module became
   `rle_impl`, and runs the contract (encoder validity / no no-op header / size bound / round trip /
   retention, and RLE `compress`/`decompress` of 1/8/16/32-bit rasters in both file versions against an
   independent row-table reading) through the selected implementation.  The answer is one JSON object
   on stdout; every failure carries the concrete input.

No randomness: the batches are fixed lists (rows of 0, 1, 2, 3 … bytes in several orders).
"""
from __future__ import annotations

import json
import os
import sys

BLOCKED = "psd_tools.compression._rle"


def hx(b) -> str:
    b = bytes(b)
    return b.hex() if b else "-"


def spec_decode(e: bytes):
    """Apple TN1023, written independently of the library."""
    out = bytearray()
    i = 0
    while i < len(e):
        h = e[i]
        i += 1
        if h < 128:
            if i + h + 1 > len(e):
                return None
            out += e[i:i + h + 1]
            i += h + 1
        elif h == 128:
            continue
        else:
            if i >= len(e):
                return None
            out += bytes([e[i]]) * (257 - h)
            i += 1
    return bytes(out)


def spec_headers(e: bytes):
    hs, i = [], 0
    while i < len(e):
        h = e[i]
        hs.append(h)
        i += 1 + (h + 1 if h < 128 else 0 if h == 128 else 1)
    return hs


def worst_case(n: int) -> int:
    return n + (n + 126) // 127


def row_batches():
    """Fixed batches of rows; every batch mixes 0-, 1- and 2-byte rows with longer ones, in several orders, so
    that each kind of early exit of an encoder is followed (and preceded) by every other kind of call."""
    short = [b"", b"\x00", b"\x07", b"\xff", b"\x80", b"ab", b"aa", b"\x00\x00", b"abc", b"aaa", b"aab", b"abb"]
    longer = [bytes([5]) * 127, bytes([5]) * 128, bytes([5]) * 129, bytes(range(130)), bytes(range(127)) + b"\x7e\x7e",
              b"ab" * 70, bytes([1, 1, 2, 2, 3, 3]) * 30, bytes([9]) * 300 + b"x"]
    batches = [short, list(reversed(short)), short + longer, longer + short]
    inter = []
    for k, s in enumerate(short):
        inter.append(s)
        inter.append(longer[k % len(longer)])
    batches.append(inter)
    # one-pixel-wide channels: every row is one byte (8 bit) / two bytes (16 bit) / four bytes (32 bit)
    batches.append([bytes([v]) for v in (1, 2, 3, 4, 5, 250, 128, 0)])
    batches.append([bytes([v, v ^ 1]) for v in (1, 2, 3, 4, 5, 250, 128, 0)])
    batches.append([bytes([v, 0, v, 1]) for v in (1, 2, 3)] + [b"\x00", b"", b"\x01"])
    return batches


def _holders(obj, mod):
    """names of module-level attributes of the implementation that ARE `obj`"""
    if mod is None:
        return []
    try:
        return sorted(k for k, v in vars(mod).items() if v is obj)
    except Exception:  # noqa
        return []


def _retained(kind, f, mod, calls, arg_of, validate):
    """Run `calls` through f keeping the results; afterwards validate each. Returns (n, failures)."""
    kept = []
    fails = []
    for k, c in enumerate(calls):
        try:
            r = f(*c)
        except Exception as e:  # noqa  (judged by the per-call contract check)
            kept.append((c, None, None, type(e).__name__))
            continue
        try:
            snap = bytes(r)
        except Exception as e:  # noqa
            fails.append(dict(mech="result-not-bytes-like", what=f"{kind} returns a {type(r).__name__}",
                              input=dict(calls=[arg_of(c)]), observed=type(r).__name__, expected="bytes"))
            kept.append((c, None, None, "not-bytes-like"))
            continue
        kept.append((c, r, snap, None))
    seen_ids = {}
    for k, (c, r, snap, exc) in enumerate(kept):
        if r is None:
            continue
        now = bytes(r)
        later = [arg_of(kept[j][0]) for j in range(k + 1, len(kept))]
        if now != snap:
            # shrink: which single later call rewrites it?
            culprit = _culprit(f, c, [kept[j][0] for j in range(k + 1, len(kept))])
            fails.append(dict(
                mech="result-changed-by-later-call",
                what=f"the value {kind} returned for one input is different after further {kind} calls",
                input=dict(calls=[arg_of(c)] + ([arg_of(culprit)] if culprit is not None else later), kept_index=0),
                observed=dict(when_returned=hx(snap), after_later_calls=hx(now), type=type(r).__name__),
                expected="a result is a value: unchanged by later calls"))
        v = validate(c, now)
        if v is not None and now == snap:
            fails.append(dict(mech="kept-result-invalid/" + v[0], what=v[1], input=dict(calls=[arg_of(c)]),
                              observed=hx(now), expected=v[2]))
        if not isinstance(r, bytes):
            names = _holders(r, mod)
            if names:
                fails.append(dict(mech="result-is-module-level-buffer",
                                  what=f"{kind} returns the implementation's module-level object {names[0]} ({type(r).__name__})",
                                  input=dict(calls=[arg_of(c)]), observed=names, expected="a fresh or immutable object"))
            if id(r) in seen_ids:
                j = seen_ids[id(r)]
                fails.append(dict(mech="two-results-share-one-mutable-object",
                                  what=f"{kind} returned the same {type(r).__name__} object for two calls",
                                  input=dict(calls=[arg_of(kept[j][0]), arg_of(c)]), observed="results[0] is results[1]",
                                  expected="distinct objects (or immutable bytes)"))
            seen_ids.setdefault(id(r), k)
            for a in c:
                if a is r and not isinstance(a, bytes):
                    fails.append(dict(mech="result-is-the-mutable-argument", what=f"{kind} returns its mutable argument",
                                      input=dict(calls=[arg_of(c)]), observed=type(r).__name__, expected="a new object"))
    return len(kept), fails


def _culprit(f, first, later):
    for c2 in later:
        try:
            r = f(*first)
            snap = bytes(r)
            f(*c2)
            if bytes(r) != snap:
                return c2
        except Exception:  # noqa
            continue
    return None


def retention_battery(enc, dec, mod=None):
    """-> (cases, failures); failures are dicts(mech, what, input, observed, expected)."""
    n = 0
    fails = []

    def v_enc(c, e):
        d = bytes(c[0])
        if spec_decode(e) != d:
            return ("not-valid-packbits", "a kept encoder result does not expand to its input", "a stream expanding to " + hx(d))
        if 128 in spec_headers(e):
            return ("emits-noop-header", "a kept encoder result has the reserved 0x80 header", "no 0x80 header")
        if len(e) > worst_case(len(d)):
            return ("exceeds-worst-case", "a kept encoder result exceeds n + ceil(n/127)", str(worst_case(len(d))))
        return None

    def v_dec(c, out):
        e, size = bytes(c[0]), c[1]
        sd = spec_decode(e)
        if sd is not None and len(sd) == size and out != sd:
            return ("wrong-bytes", "a kept decoder result differs from the specification", hx(sd))
        if len(out) != size and not (e == b"\x80" and out == b""):
            return ("wrong-length", "a kept decoder result has not the requested size", str(size))
        return None

    for batch in row_batches():
        k, f = _retained("encode", enc, mod, [(d,) for d in batch], lambda c: {"data": hx(c[0])}, v_enc)
        n += k
        fails += f
        streams = []
        for d in batch:
            try:
                streams.append((bytes(enc(d)), len(d)))
            except Exception:  # noqa
                pass
        streams += [(b"\x80", 0), (b"\x80", 3)]
        k, f = _retained("decode", dec, mod, streams, lambda c: {"data": hx(c[0]), "size": c[1]}, v_dec)
        n += k
        fails += f
    return n, fails


# ---- through compress / decompress with the selected implementation -------------------------------
def _row_table_reading(blob, width, height, depth, version):
    """Independent reading of an RLE channel: `height` counts (2 bytes PSD, 4 bytes PSB), then the rows."""
    cw = 2 if version == 1 else 4
    if len(blob) < cw * height:
        return None, "row table shorter than height entries"
    counts = [int.from_bytes(blob[i * cw:(i + 1) * cw], "big") for i in range(height)]
    pos = cw * height
    if sum(counts) != len(blob) - pos:
        return None, "row counts do not sum to the bytes that follow"
    rowbytes = (width * depth + 7) // 8
    out = bytearray()
    for c in counts:
        row = spec_decode(blob[pos:pos + c])
        pos += c
        if row is None or len(row) != rowbytes:
            return None, "a row does not expand to the row size"
        out += row
    return bytes(out), None


def container_battery():
    from psd_tools.compression import compress, decompress
    from psd_tools.constants import Compression
    fails = []
    n = 0
    shapes = [(1, 1), (1, 2), (1, 5), (2, 3), (3, 1), (8, 3), (9, 2), (130, 2)]
    for depth in (1, 8, 16, 32):
        for (w, h) in shapes:
            rowbytes = (w * depth + 7) // 8
            for version in (1, 2):
                for fill in ("ramp", "const"):
                    raw = bytes(((7 * k + 3) % 251 if fill == "ramp" else 9) for k in range(rowbytes * h))
                    inp = dict(width=w, height=h, depth=depth, version=version, data=hx(raw))
                    n += 1
                    try:
                        blob = compress(raw, Compression.RLE, w, h, depth, version)
                    except Exception as e:  # noqa
                        fails.append(dict(mech=f"compress-raises/{type(e).__name__}", what="RLE compress raises", input=inp,
                                          observed=repr(e)[:200], expected="bytes"))
                        continue
                    got, why = _row_table_reading(bytes(blob), w, h, depth, version)
                    if got != raw:
                        fails.append(dict(mech="compress-not-the-raster", what="independent reading of the RLE channel: " + (why or "other pixels"),
                                          input=inp, observed=hx(blob), expected="row table + PackBits rows of the raster"))
                    try:
                        back = decompress(blob, Compression.RLE, w, h, depth, version)
                    except Exception as e:  # noqa
                        fails.append(dict(mech=f"decompress-raises/{type(e).__name__}", what="RLE decompress raises on compress's output",
                                          input=inp, observed=repr(e)[:200], expected=hx(raw)))
                        continue
                    if bytes(back) != raw:
                        fails.append(dict(mech="roundtrip-differs", what="decompress(compress(x)) != x", input=inp,
                                          observed=hx(back), expected=hx(raw)))
    return n, fails


class _Blocker:
    """What an extension module built for another interpreter does: the import system raises ImportError."""

    @staticmethod
    def find_spec(name, path=None, target=None):
        if name == BLOCKED:
            raise ImportError("simulated: compiled extension %s cannot be loaded" % name, name=name)
        return None


def main(argv):
    config = argv[1]
    repo = os.environ.get("PSD_REPO", "/repo")
    sys.path.insert(0, os.path.join(repo, "src"))
    out = dict(config=config, imported=None, selected=None, failures=[], cases=0)
    if config == "no-compiled":
        sys.meta_path.insert(0, _Blocker)
    try:
        import psd_tools.compression as C
    except BaseException as e:  # noqa  (the failure IS the observation)
        out["imported"] = type(e).__name__ + ": " + str(e)[:200]
        print(json.dumps(out))
        return 0
    out["imported"] = "ok"
    impl = getattr(C, "rle_impl", None)
    out["selected"] = getattr(impl, "__name__", repr(impl))
    if impl is None or not hasattr(impl, "encode") or not hasattr(impl, "decode"):
        out["failures"].append(dict(mech="no-codec-selected", what="psd_tools.compression.rle_impl has no encode/decode",
                                    input=dict(config=config), observed=out["selected"], expected="a PackBits implementation"))
        print(json.dumps(out))
        return 0
    n, f = retention_battery(impl.encode, impl.decode, impl)
    n2, f2 = container_battery()
    out["cases"] = n + n2
    out["failures"] = f + f2
    print(json.dumps(out))
    return 0


if __name__ == "__main__":
    sys.exit(main(sys.argv))
