"""C06 - the two payload registries as the reader consults them, regenerated on every run:

    Generated/OpenRegistry.lean   taggedTypes   `tagged_blocks.TYPES`:   (key bytes, class name), sorted by key
                                  resourceTypes `image_resources.TYPES`: (resource id, class name), sorted by id

Lemmas/OpenDispatchTied.lean shows by `decide` that every class named here has a costed model (a runner of
Model/OpenDispatch.lean): a class added to a registry without a cost model breaks the tie.
A registry that cannot be imported is generated as one sentinel row (the tie then fails; never an infrastructure error).
"""
from __future__ import annotations

from extract_payload import _s, _bytes
from extract_payload3 import _registry


def tables():
    notes: list = []
    tb = _registry("psd_tools.psd.tagged_blocks", "TYPES", notes, int_keys=False)
    ir = _registry("psd_tools.psd.image_resources", "TYPES", notes, int_keys=True)
    if not tb:
        tb = [(b"?", "registry-not-readable")]
    if not ir:
        ir = [(0, "registry-not-readable")]
    return tb, ir, notes


def lean_source(tb, ir):
    return (
        "namespace PsdVerif.Generated.OpenRegistry\n"
        "/-- `tagged_blocks.TYPES`: (key, class name), sorted by key -/\n"
        "def taggedTypes : List (List UInt8 × String) := [\n  "
        + ",\n  ".join(f"({_bytes(k)}, {_s(v)})" for k, v in tb) + "\n]\n"
        "/-- `image_resources.TYPES`: (resource id, class name), sorted by id -/\n"
        "def resourceTypes : List (Nat × String) := [\n  "
        + ",\n  ".join(f"({k}, {_s(v)})" for k, v in ir) + "\n]\n"
        "end PsdVerif.Generated.OpenRegistry\n")


def gen_open_registry(ctx):
    tb, ir, notes = tables()
    ctx.notes += notes
    ctx.write_generated("OpenRegistry", lean_source(tb, ir))
    return {"taggedTypes": len(tb), "resourceTypes": len(ir)}


if __name__ == "__main__":
    import sys
    import core
    tb, ir, notes = tables()
    src = "-- REGENERATED from /repo by harness/extract.py on every run. Do not edit.\n" + lean_source(tb, ir)
    if "--write" in sys.argv:
        (core.LEAN / "PsdVerif" / "Generated" / "OpenRegistry.lean").write_text(src)
    else:
        print(src)
    print(len(tb), len(ir), notes, file=sys.stderr)
