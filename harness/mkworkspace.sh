#!/bin/sh
# usage: harness/mkworkspace.sh <name>   -> /tmp/w/<name>/{verif,repo}: scratch worktrees for one builder
set -e
n="$1"; base=/tmp/w/$n
mkdir -p "$base"
git -C /verif worktree add -q -b "b-$n" "$base/verif" HEAD
git -C /repo worktree add -q -b "b-$n" "$base/repo" HEAD
# untracked compiled extension (stale but what the test-suite imports)
cp /repo/src/psd_tools/compression/_rle*.so "$base/repo/src/psd_tools/compression/" 2>/dev/null || true
echo "$base"
