"""Shared by the C07 and C17 checks: seeded non-constant test images, the meaning of the
model's symbolic samples on real pixel data, geometry of the stored image-data section."""
from __future__ import annotations

import io
import re
import struct
import zlib

import numpy as np
from PIL import Image

MODES = ["L", "LA", "RGB", "RGBA", "CMYK", "1"]
NBANDS = {"1": 1, "L": 1, "LA": 2, "RGB": 3, "RGBA": 4, "CMYK": 4}


def make_image(mode: str, w: int, h: int, rng) -> Image.Image:
    """Every band a different ramp plus seeded noise, so that band order, inversion and a
    dropped alpha are visible; the alpha band contains 0, 255 and partial values."""
    nb = NBANDS[mode]
    seed = rng if isinstance(rng, int) else rng.randrange(1 << 30)
    g = np.random.default_rng(seed)
    ys, xs = np.mgrid[0:h, 0:w]
    bands = []
    for k in range(nb):
        ramp = (xs * (7 + 4 * k) + ys * (13 + 6 * k) + 41 * k + 5) % 256
        noise = g.integers(0, 64, size=(h, w))
        a = ((ramp + noise) % 256).astype(np.uint8)
        if mode in ("LA", "RGBA") and k == nb - 1:
            flat = a.reshape(-1)
            if flat.size >= 1:
                flat[0] = 128
            if flat.size >= 2:
                flat[1] = 0
            if flat.size >= 3:
                flat[2] = 255
            a = flat.reshape(h, w)
        bands.append(a)
    if mode == "1":
        return Image.fromarray(np.where(bands[0] > 127, 255, 0).astype(np.uint8), "L").convert("1")
    ims = [Image.fromarray(b, "L") for b in bands]
    return ims[0] if nb == 1 else Image.merge(mode, ims)


def bands_u8(img: Image.Image):
    """list of (h, w) uint8 arrays, one per band"""
    if img.mode == "1":
        img = img.convert("L")
    return [np.asarray(b, dtype=np.uint8) for b in img.split()]


def normalise(img: Image.Image) -> Image.Image:
    return img.convert("L") if img.mode == "1" else img


def encode_depth(a: np.ndarray, depth: int) -> bytes:
    """An 8-bit plane as the document depth stores it (the model's `store d`)."""
    if depth == 8:
        return a.astype(np.uint8).tobytes()
    if depth == 16:
        return (a.astype(">u2") * 257).astype(">u2").tobytes()
    if depth == 32:
        return (a.astype(">f4") / 255.0).astype(">f4").tobytes()
    raise ValueError(depth)


def unmatte_u8(x: np.ndarray, a: np.ndarray) -> np.ndarray:
    """`pil_io._remove_white_background` on one band (float32 arithmetic, truncation, clip)."""
    xf, af = x.astype(np.float32), a.astype(np.float32)
    num = (x.astype(np.int32) + a.astype(np.int32) - 255).astype(np.float32)
    r = num * np.float32(255.0) / np.maximum(af, 1) * np.minimum(af, 1) + xf * (1 - np.minimum(af, 1))
    return np.clip(np.trunc(r), 0, 255).astype(np.uint8)


def unmatte_f(c: np.ndarray, a: np.ndarray) -> np.ndarray:
    """`numpy_io._remove_background` on one channel (float32)."""
    c = c.astype(np.float32).copy()
    a = a.astype(np.float32)
    m = a > 0
    c[m] = (c + a - np.float32(1))[m] / a[m]
    return c


# ---- the model's symbolic samples evaluated on real data -------------------------------------
_TOK = re.compile(r"o(\d+)|c(1|LA|L|RGBA|RGB|CMYK)(\d)|op|~|um\(|st(\d+)\(|,|\)")


class SymEval:
    """orig k -> band k of the source; conv m k -> band k of normalise(source).convert(m);
    op -> 255; ~ -> 255 - x; um(c,a) -> matte removal; st d (x) -> x as stored at depth d."""

    def __init__(self, img: Image.Image, floats=False):
        self.src = img
        self.norm = normalise(img)
        self._orig = bands_u8(img)
        self._conv = {}
        self.floats = floats

    def conv(self, m, k):
        if m not in self._conv:
            self._conv[m] = bands_u8(self.norm.convert(m))
        return self._conv[m][k]

    def eval(self, s: str):
        v, rest = self._parse(s)
        if rest:
            raise ValueError(f"trailing input in symbolic sample {s!r}")
        return v

    def _parse(self, s):
        if s.startswith("op"):
            h, w = self._orig[0].shape
            return np.full((h, w), 255, np.uint8), s[2:]
        if s.startswith("~"):
            v, rest = self._parse(s[1:])
            if isinstance(v, bytes):
                raise ValueError("inversion of a stored plane")
            return (255 - v).astype(np.uint8), rest
        if s.startswith("um("):
            c, rest = self._parse(s[3:])
            assert rest[0] == ","
            a, rest = self._parse(rest[1:])
            assert rest[0] == ")"
            return ("um", c, a), rest[1:]
        m = re.match(r"st(\d+)\(", s)
        if m:
            v, rest = self._parse(s[m.end():])
            assert rest[0] == ")"
            return encode_depth(v, int(m.group(1))), rest[1:]
        m = re.match(r"o(\d+)", s)
        if m:
            return self._orig[int(m.group(1))], s[m.end():]
        m = re.match(r"c(1|LA|L|RGBA|RGB|CMYK)(\d)", s)
        if m:
            return self.conv(m.group(1), int(m.group(2))), s[m.end():]
        raise ValueError(f"cannot parse symbolic sample {s!r}")


def realise_u8(v):
    """value of a symbolic sample on the PIL (8-bit) path"""
    if isinstance(v, tuple):
        return unmatte_u8(realise_u8(v[1]), realise_u8(v[2]))
    return v


def realise_f(v):
    """value of a symbolic sample on the NumPy (float) path"""
    if isinstance(v, tuple):
        return unmatte_f(realise_f(v[1]), realise_f(v[2]))
    return v.astype(np.float32) / np.float32(255.0)


def describe_band(band: np.ndarray, ev: SymEval, doc_mode: str | None):
    """which source band (and parity) a real exported 8-bit band is - for reports"""
    cands = {f"o{k}": b for k, b in enumerate(ev._orig)}
    if doc_mode:
        for k in range(NBANDS[doc_mode]):
            cands[f"c{doc_mode}{k}"] = ev.conv(doc_mode, k)
    cands["op"] = np.full(band.shape, 255, np.uint8)
    for name, b in cands.items():
        if b.shape == band.shape and np.array_equal(b, band):
            return name
        if b.shape == band.shape and np.array_equal(255 - b, band):
            return "~" + name
    return "?"


# ---- geometry of an image-data section, independent of the library's decoders ----------------
def section_geometry(compression: int, data: bytes, width: int, height: int, channels: int, depth: int,
                     version: int = 1):
    """(ok, detail): does the stored merged image hold exactly `channels` planes of
    `width*height*depth/8` bytes?  RAW: by length; RLE: by the row table and the PackBits
    expansion of every row; ZIP: by the inflated length."""
    row = (width * depth + 7) // 8
    plane = row * height
    expected = plane * channels
    if compression == 0:
        return len(data) == expected, {"stored": len(data), "expected": expected,
                                       "planes": len(data) / plane if plane else None}
    if compression == 1:
        cw = 2 if version == 1 else 4
        rows = channels * height
        tab = rows * cw
        if len(data) < tab:
            return False, {"error": "row table truncated", "stored": len(data)}
        counts = struct.unpack(">%d%s" % (rows, "H" if cw == 2 else "I"), data[:tab]) if rows else ()
        if tab + sum(counts) != len(data):
            return False, {"error": "row table of channels*height rows does not account for the section",
                           "stored": len(data), "accounted": tab + sum(counts)}
        pos = tab
        for c in counts:
            if packbits_len(data[pos:pos + c]) != row:
                return False, {"error": "a row does not expand to the row size"}
            pos += c
        return True, {"rows": rows}
    if compression in (2, 3):
        try:
            raw = zlib.decompress(data)
        except zlib.error as e:
            return False, {"error": f"zlib: {e}"}
        return len(raw) == expected, {"inflated": len(raw), "expected": expected,
                                      "planes": len(raw) / plane if plane else None}
    return False, {"error": f"unknown compression {compression}"}


def packbits_len(e: bytes):
    n, i = 0, 0
    while i < len(e):
        h = e[i]
        i += 1
        if h < 128:
            n += h + 1
            i += h + 1
        elif h == 128:
            continue
        else:
            n += 257 - h
            i += 1
    return n if i == len(e) else -1


def save_reopen(psd, **kw):
    from psd_tools import PSDImage
    b = io.BytesIO()
    psd.save(b, **kw)
    raw = b.getvalue()
    return PSDImage.open(io.BytesIO(raw)), raw
