"""C13, wider search: the metamorphic laws on effect-carrying documents, under custom layer filters, and after API edits.

* effect-carrying documents (fill layers with / without vector masks and stored pixels, colour / gradient overlays on pixel layers,
  fill layers and groups, adjustment layers; comp_fx generators, pixdoc builds them): sub-viewport = crop, wrapping whole clip runs
  in a plain pass-through group, compression / save -> reopen;
* no-op layers that CARRY EFFECTS inserted at every kind of position of plain and of effect-carrying documents: hidden, outside,
  zero opacity (colour / gradient overlays and stroke effects), fully transparent and masked-out (overlays), adjustment layers,
  hidden / zero-opacity / masked-out fill layers;
* the same laws under a custom `layer_filter` (accept every layer; accept named hidden layers) on nested groups with hidden
  members whose extent differs from the visible ones (a deterministic family + the random documents that have hidden layers);
* save -> reopen after an API edit of one layer - clipping flag, visibility, blend mode, opacity - at every position of clip runs
  of length 1-3 (deterministic family, top level and inside a group) and on random documents;
* the two findings about stroke effects replayed on the real code (witnesses of Props/C13Fx.lean).
"""
from __future__ import annotations

import copy
import random

import numpy as np

import core  # noqa: F401
import comp_common as cc
import comp_fx as fx

FX_NOOP_KINDS = ["hidden", "outside", "zero-opacity", "transparent", "masked-out", "adjustment"]


# ------------------------------------------------------------------------------------------
# no-op layers that carry effects
# ------------------------------------------------------------------------------------------
def live_effects(rng, channels, allow_stroke):
    """effects that would certainly show if the layer did: master switch on, first item enabled and opaque"""
    e = fx.gen_effects(rng, channels, allow_stroke, p=1.0)
    e["master"] = True
    e["items"][0]["enabled"] = True
    e["items"][0]["opacity"] = rng.choice([100, 100, 60])
    if allow_stroke and rng.random() < 0.4:
        e["items"].append({"kind": "stroke", "color": [rng.choice([0, 255, 90]) for _ in range(channels)], "size": rng.choice([1, 2, 3]),
                           "position": rng.choice(["OutF", "InsF", "CtrF"]), "opacity": 100, "blend": "Nrml", "enabled": True})
    return e


def fx_noop_node(C13, rng, nprng, kind, size, channels, in_run):
    W, H = size
    if kind == "adjustment":
        n = fx.gen_adjustment(rng, size)
        n.update(name="noop", clip=True if in_run else n["clip"])
        return n
    carrier = "pixel"
    if kind in ("hidden", "zero-opacity", "masked-out") and rng.random() < 0.35:
        carrier = "fill"
    if carrier == "fill":
        n = fx.gen_fill(rng, nprng, size, channels, cc.CONTINUOUS)
        n.update(name="noop", visible=True, knockout=False, mask=None, opacity=rng.choice([255, 128]), fill=rng.choice([None, 200]),
                 clip=True if in_run else rng.random() < 0.3)
        if kind == "hidden":
            n["visible"] = False
        elif kind == "zero-opacity":
            n["opacity"] = 0
        else:
            l, t, r, b = n["rect"] if n["rect"] != [0, 0, 0, 0] else [0, 0, W, H]
            n["mask"] = {"rect": [l, t, r, b], "bg": 0, "data": np.zeros((b - t, r - l), np.uint8), "disabled": False,
                         "density": rng.choice([None, 255])}
        n["effects"] = live_effects(rng, channels, allow_stroke=kind in ("hidden", "zero-opacity") and not (n.get("vmask") or {}).get("shape"))
        return n
    n = C13.noop_node(rng, nprng, kind, size, channels, in_run)
    n["effects"] = live_effects(rng, channels, allow_stroke=kind in ("hidden", "outside", "zero-opacity"))
    return n


# ------------------------------------------------------------------------------------------
# documents for the layer_filter laws: hidden members whose extent differs from the visible ones
# ------------------------------------------------------------------------------------------
def filter_docs():
    docs = []
    W, H = 6, 5

    def px(name, rect, val, visible=True, **kw):
        l, t, r, b = rect
        n = {"t": "pixel", "name": name, "rect": list(rect), "color": np.full((b - t, r - l, 3), val, np.uint8),
             "alpha": np.full((b - t, r - l), 255, np.uint8), "opacity": 255, "fill": None, "blend": "NORMAL", "visible": visible,
             "clip": False, "knockout": False, "mask": None}
        n["color"][..., 1] = (val * 7) % 256
        n.update(kw)
        return n

    def grp(name, children, blend="PASS_THROUGH", **kw):
        g = {"t": "group", "name": name, "blend": blend, "opacity": 255, "fill": None, "visible": True, "clip": False, "knockout": False,
             "children": children}
        g.update(kw)
        return g

    extents = {"left": [0, 1, 3, 3], "right": [3, 1, 6, 3], "above": [2, 0, 4, 2], "below": [2, 3, 4, 5], "around": [0, 0, 6, 5],
               "inside": [2, 2, 3, 3], "apart": [5, 4, 6, 5]}
    vis_rect = [2, 1, 4, 4]
    for ename, hrect in extents.items():
        for depth in (1, 2, 3):
            for blend in ("PASS_THROUGH", "NORMAL"):
                for hidden_is in ("layer", "group"):
                    inner = [px("v", vis_rect, 200, opacity=220), px("h", hrect, 40, visible=(hidden_is != "layer"), opacity=200)]
                    if hidden_is == "group":
                        inner = [px("v", vis_rect, 200, opacity=220), grp("hg", [px("h", hrect, 40, opacity=200)], visible=False)]
                    node = grp("g0", inner, blend=blend)
                    for d in range(1, depth):
                        node = grp(f"g{d}", [node, px(f"s{d}", [2, 2, 3, 3], 90 + 30 * d, opacity=180)] if d % 2 else [node], blend="PASS_THROUGH")
                    recipe = [px("bg", [0, 0, W, H], 120, opacity=230), node, px("top", [1, 1, 3, 2], 250, opacity=128)]
                    docs.append({"recipe": copy.deepcopy(recipe), "size": [W, H], "mode": "RGB",
                                 "cell": f"hidden-{hidden_is}-{ename}/depth{depth}/{blend}"})
    return docs


def hidden_names(doc):
    return [n["name"] for n in cc.walk(doc["recipe"]) if not n.get("visible", True)]


# ------------------------------------------------------------------------------------------
# documents for the API-edit law: clip runs of length 1-3, top level and inside a group
# ------------------------------------------------------------------------------------------
def run_docs():
    docs = []
    W, H = 6, 5

    def px(name, rect, rgb, alpha=255, **kw):
        l, t, r, b = rect
        n = {"t": "pixel", "name": name, "rect": list(rect), "color": np.empty((b - t, r - l, 3), np.uint8),
             "alpha": np.full((b - t, r - l), alpha, np.uint8), "opacity": 255, "fill": None, "blend": "NORMAL", "visible": True,
             "clip": False, "knockout": False, "mask": None}
        n["color"][...] = rgb
        n.update(kw)
        return n

    for k in (1, 2, 3):
        for where in ("top", "group"):
            for above in (False, True):
                run = [px("base", [1, 1, 4, 4], (220, 30, 30))]
                rects = [[2, 0, 6, 3], [0, 2, 5, 5], [3, 1, 6, 5]]
                cols = [(30, 200, 60), (20, 30, 240), (240, 240, 20)]
                for i in range(k):
                    run.append(px(f"c{i + 1}", rects[i], cols[i], alpha=[255, 128, 200][i], clip=True))
                if above:
                    run.append(px("over", [0, 0, 3, 2], (10, 10, 10), alpha=160))
                body = run if where == "top" else [{"t": "group", "name": "grp", "blend": "PASS_THROUGH", "opacity": 255, "fill": None,
                                                     "visible": True, "clip": False, "knockout": False, "children": run}]
                recipe = [px("backdrop", [0, 0, W, H], (128, 128, 128))] + body
                docs.append({"recipe": copy.deepcopy(recipe), "size": [W, H], "mode": "RGB", "cell": f"run{k}/{where}/{'over' if above else 'last'}"})
    return docs


def edits_for(n):
    """the API edits tried on one node of a recipe"""
    out = [{"kind": "clip", "value": not n.get("clip")}, {"kind": "visible", "value": not n.get("visible", True)}]
    if n["t"] != "group":
        out.append({"kind": "blend", "value": "MULTIPLY" if n.get("blend") != "MULTIPLY" else "NORMAL"})
    else:
        out.append({"kind": "blend", "value": "NORMAL" if n.get("blend") == "PASS_THROUGH" else "PASS_THROUGH"})
    out.append({"kind": "opacity", "value": 128 if n.get("opacity", 255) != 128 else 255})
    return out


# ------------------------------------------------------------------------------------------
# task generation
# ------------------------------------------------------------------------------------------
def make_tasks(ctx, C13, quick):
    rng = ctx.rng
    nprng = np.random.RandomState(rng.randrange(2 ** 32))
    det = random.Random("C13-fx")                       # the deterministic part is the same for every VERIF_SEED
    detnp = np.random.RandomState(20260930)
    tasks = []

    # ---- 1. effect-carrying documents: viewport, wrap, codec / reopen ----------------------------------------------
    mdocs = fx.fx_matrix_docs()
    mdocs = [d for i, d in enumerate(mdocs) if i % (5 if quick else 1) == 0]
    rdocs = []
    for k in range(40 if quick else 500):
        d = fx.gen_fx_doc(rng, nprng, allow_stroke=False)
        cc.name_nodes(d["recipe"])
        rdocs.append(d)
    for d in mdocs:
        cc.name_nodes(d["recipe"], prefix="m")
    for doc, r in [(d, det) for d in mdocs] + [(d, rng) for d in rdocs]:
        W, H = doc["size"]
        for k, (cls, V, ref) in enumerate(C13.viewports(r, W, H)):
            if (quick and k % 2) or fx.has_stroke_effect(doc):
                continue            # stroke effects are drawn from the viewport-cropped shape: known finding, replayed by stroke_findings
            tasks.append({"doc_t": doc, "law": {"kind": "viewport", "class": cls, "V": list(V), "ref": list(ref), "fx": True}})
        segs = C13.wrap_segments(doc["recipe"])
        for path, i, j in (r.sample(segs, 3) if len(segs) > 3 else segs):
            r2 = C13.apply_wrap(doc["recipe"], path, i, j)
            if C13.depth_ok(r2):
                tasks.append({"doc_t": dict(doc, recipe=r2), "law": {"kind": "wrap", "path": list(path), "span": [i, j], "fx": True}})
        if r.random() < (0.3 if quick else 1.0):
            tasks.append({"doc_t": doc, "law": {"kind": "reopen", "fx": True}})
            tasks.append({"doc_t": doc, "law": {"kind": "compression", "codec": r.choice(C13.CODECS), "fx": True}})

    # ---- 2. no-op layers that carry effects, inserted into plain and into effect-carrying documents -----------------------
    plain = []
    for k in range(30 if quick else 400):
        d = cc.gen_doc(rng, nprng)
        cc.name_nodes(d["recipe"])
        plain.append(d)
    small = [d for i, d in enumerate(mdocs) if i % 4 == 0]
    for doc, r, rnp in [(d, det, detnp) for d in small] + [(d, rng, nprng) for d in plain + rdocs[: len(rdocs) // 2]]:
        W, H = doc["size"]
        ch = cc.MODE_CH[doc["mode"]]
        pts = C13.insertion_points(doc["recipe"])
        pts = r.sample(pts, 3) if len(pts) > 3 else pts
        ko_group = C13.has_knockout_group(doc["recipe"])
        for path, i, in_run, orphan_zone in pts:
            for kind in r.sample(FX_NOOP_KINDS, 2 if quick else 4):
                if kind == "zero-opacity" and ko_group:
                    continue
                node = fx_noop_node(C13, r, rnp, kind, (W, H), ch, in_run)
                if orphan_zone:
                    node["clip"] = True
                tasks.append({"doc_t": dict(doc, recipe=C13.apply_insert(doc["recipe"], path, i, node)),
                              "law": {"kind": "noop", "noop": kind, "path": list(path), "index": i, "fx": True}})

    # a hidden / outside / zero-opacity layer WITH A STROKE EFFECT, at every position of a few documents (deterministic)
    for doc in small[:6]:
        W, H = doc["size"]
        for path, i, in_run, orphan_zone in C13.insertion_points(doc["recipe"]):
            for kind in ("zero-opacity", "hidden", "outside"):
                node = C13.noop_node(det, detnp, kind, (W, H), 3, in_run)
                if orphan_zone:
                    node["clip"] = True
                node["effects"] = {"master": True, "items": [{"kind": "stroke", "color": [0, 0, 0], "size": 2,
                                                               "position": det.choice(["OutF", "InsF", "CtrF"]), "opacity": 100,
                                                               "blend": "Nrml", "enabled": True}]}
                tasks.append({"doc_t": dict(doc, recipe=C13.apply_insert(doc["recipe"], path, i, node)),
                              "law": {"kind": "noop", "noop": kind, "path": list(path), "index": i, "fx": True}})

    # ---- 3. the laws under a custom layer_filter ----------------------------------------------------------------------------
    fdocs = filter_docs()
    fdocs = [d for i, d in enumerate(fdocs) if i % (2 if quick else 1) == 0]
    withhidden = [d for d in plain if hidden_names(d) and any(n["t"] == "group" for n in d["recipe"])]
    for doc, r, rnp in [(d, det, detnp) for d in fdocs] + [(d, rng, nprng) for d in withhidden]:
        W, H = doc["size"]
        ch = cc.MODE_CH[doc["mode"]]
        for fspec in ("all", {"hidden_ok": hidden_names(doc), "drop": []}):
            segs = C13.wrap_segments(doc["recipe"])
            if quick and len(segs) > 4:
                segs = r.sample(segs, 4)
            for path, i, j in segs:
                r2 = C13.apply_wrap(doc["recipe"], path, i, j)
                if C13.depth_ok(r2) or cc.depth_of(r2) <= 5:
                    tasks.append({"doc_t": dict(doc, recipe=r2), "law": {"kind": "wrap", "path": list(path), "span": [i, j], "filter": fspec}})
            vps = C13.viewports(r, W, H)
            for cls, V, ref in (vps[:1] + vps[2:3] if quick else vps):
                tasks.append({"doc_t": doc, "law": {"kind": "viewport", "class": cls, "V": list(V), "ref": list(ref), "filter": fspec}})
            pts = C13.insertion_points(doc["recipe"])
            for path, i, in_run, orphan_zone in (r.sample(pts, 2) if len(pts) > 2 else pts):
                kind = r.choice(["transparent", "zero-opacity", "outside", "masked-out"])
                if kind == "zero-opacity" and C13.has_knockout_group(doc["recipe"]):
                    continue
                node = C13.noop_node(r, rnp, kind, (W, H), ch, in_run)
                if orphan_zone:
                    node["clip"] = True
                tasks.append({"doc_t": dict(doc, recipe=C13.apply_insert(doc["recipe"], path, i, node)),
                              "law": {"kind": "noop", "noop": kind, "path": list(path), "index": i, "filter": fspec}})

    # ---- 4. save -> reopen after an API edit ---------------------------------------------------------------------------------
    for doc in run_docs():
        for n in cc.walk(doc["recipe"]):
            if n["name"] == "backdrop":
                continue
            for e in edits_for(n):
                tasks.append({"doc_t": doc, "law": {"kind": "reopen-after-edit", "target": n["name"], "edit": e}})
    for doc in plain[: (12 if quick else 200)] + rdocs[: (6 if quick else 100)]:
        nodes = list(cc.walk(doc["recipe"]))
        for n in rng.sample(nodes, min(2, len(nodes))):
            if n["t"] in ("fill", "adjustment") and (n.get("vmask") or {}).get("shape"):
                continue
            e = rng.choice(edits_for(n))
            tasks.append({"doc_t": doc, "law": {"kind": "reopen-after-edit", "target": n["name"], "edit": e}})
    return tasks


# ------------------------------------------------------------------------------------------
# the stroke-effect findings, replayed on the real code
# ------------------------------------------------------------------------------------------
STROKE_VIEWPORT_SIG = "C13/viewport/generated/stroke-effect"
STROKE_TRANSPARENT_SIG = "C13/noop/transparent/stroke-effect"


def stroke_witness_doc():
    n = {"t": "pixel", "name": "framed", "rect": [1, 1, 7, 6], "color": np.full((5, 6, 3), 200, np.uint8), "alpha": np.full((5, 6), 255, np.uint8),
         "opacity": 255, "fill": None, "blend": "NORMAL", "visible": True, "clip": False, "knockout": False, "mask": None,
         "effects": {"master": True, "items": [{"kind": "stroke", "color": [0, 0, 0], "size": 2, "position": "OutF", "opacity": 100,
                                                "blend": "Nrml", "enabled": True}]}}
    n["alpha"][0, :] = 0
    n["alpha"][:, 0] = 0
    bg = {"t": "pixel", "name": "bg", "rect": [0, 0, 8, 7], "color": np.full((7, 8, 3), 128, np.uint8), "alpha": np.full((7, 8), 255, np.uint8),
          "opacity": 255, "fill": None, "blend": "NORMAL", "visible": True, "clip": False, "knockout": False, "mask": None}
    return {"recipe": [bg, n], "size": [8, 7], "mode": "RGB"}


def stroke_findings(ctx, C13):
    """Props/C13Fx.lean viewport_stroke_effect_differs / transparent_stroke_effect_paints on the real compositor"""
    doc = stroke_witness_doc()
    t = {"doc_t": doc, "law": {"kind": "viewport", "class": "inside", "V": [0, 0, 4, 7], "ref": [0, 0, 8, 7], "fx": True}}
    r = C13.check_law(t["doc_t"], t["law"])
    ctx.extra["stroke_effect_viewport_witness"] = {k: v for k, v in r.items() if k in ("mismatch", "error")}
    if r["mismatch"] is not None or r["error"] is not None:
        ctx.fail(STROKE_VIEWPORT_SIG, "composite(viewport=V) is not the crop of the full composite for a generated layer with a Stroke "
                 "effect cut by the viewport", C13.law_json(t), r["mismatch"] or r["error"], "crop of composite(psd)")
    tr = copy.deepcopy(doc)
    ghost = copy.deepcopy(doc["recipe"][1])
    ghost.update(name="noop", rect=[2, 2, 6, 5], color=np.full((3, 4, 3), 10, np.uint8), alpha=np.zeros((3, 4), np.uint8))
    ghost["effects"]["items"][0]["position"] = "CtrF"
    tr["recipe"] = [doc["recipe"][0], ghost]
    t2 = {"doc_t": tr, "law": {"kind": "noop", "noop": "transparent+stroke-effect", "path": [], "index": 1, "fx": True}}
    r2 = C13.check_law(t2["doc_t"], t2["law"])
    ctx.extra["stroke_effect_transparent_witness"] = {k: v for k, v in r2.items() if k in ("mismatch", "error", "invalid")}
    if r2["mismatch"] is not None or r2["error"] is not None:
        ctx.fail(STROKE_TRANSPARENT_SIG, "a fully transparent layer with a Stroke effect is not a no-op: draw_stroke_effect normalises the "
                 "all-zero edge map of a layer without any shape by 0/0 -> 1 and paints the stroke colour over the layer's whole box",
                 C13.law_json(t2), r2["mismatch"] or r2["error"], "the composite without the layer")
