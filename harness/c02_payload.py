"""C02 on the payload layer (called from harness/props/C02.py).

Proof: lean/PsdVerif/Props/C02Payload.lean - per `PCodec` combinator and per payload class: whatever the reader returns is
writable and in the domain of C01's round trip (`DecOK`), hence the three clauses of C02 hold for every accepted payload
(`Stable`); struct formats as (read format, write format) pairs; the table of pairs of every class of psd_tools.psd is
regenerated from the AST here (harness/extract_c02p.py -> Generated/C02Formats.lean) and checked by
`read_write_formats_compatible` / `frames_compatible`.
Correspondence and search: harness/c02_payload_search.py (accepted NON-writer-produced encodings of every payload class:
fixture payload bytes and mutants at the field offsets; model dec/enc/dec vs frombytes/tobytes/frombytes; the three
clauses on the real code standalone, inside TaggedBlock / ImageResource and inside a whole document).
"""
from __future__ import annotations

import time

import core
import extract
import extract_c02p as extract_c02


def run(ctx: core.Run):
    t0 = time.time()
    summary = ctx.regenerate(extract_c02.gen_formats)
    guards = ctx.regenerate(extract_c02.gen_guards)
    ctx.extra["optional_part_tests"] = {"rows": guards["rows"]} if guards else None
    ctx.extra["c02_payload_tables"] = dict(summary) if isinstance(summary, dict) else str(summary)
    # the tables the payload models are instantiated with (`_TERMS`: `terms_have_four_bytes`; `Unit` / `Enum`; registries,
    # enum members, validator options, every utils call of every class): Props/C02Payload.lean imports the C01 payload
    # theorems, whose tie theorems are re-checked by this build against the tables regenerated here
    ctx.regenerate(extract.gen_terms)
    import desc_common
    import payload_common
    import payload3_common
    desc_common.regenerate(ctx)
    payload_common.regenerate(ctx)
    payload3_common.regenerate(ctx)
    ctx.prove(["PsdVerif.Props.C02Payload"])
    t1 = time.time()
    try:
        import c02_payload_search
    except ImportError as e:  # the search module is part of the check: its absence is a broken obligation, not an infra error
        ctx.disagree("harness/c02_payload_search.py cannot be imported: %s" % e, {})
        return
    c02_payload_search.run(ctx)
    ctx.extra.setdefault("phase_seconds_payload", {}).update(
        {"tables_and_proofs": round(t1 - t0, 1), "payload_search": round(time.time() - t1, 1)})
    ctx.extra["payload_layer_model_coverage"] = {
        "proved at full strength (DecOK, Stable)": "76 payload classes: Props/C02Payload.lean <class>_dec_encodable / <class>_resave_stable",
        "proved under a side condition (…_partial)": "14 classes: length field of a re-encoded block (filter effects, linked layers, "
                                                     "metadata, annotations, effects layer, patterns, virtual memory arrays), C01's "
                                                     "chainOK for version-6 slices",
        "descriptor family": "all 25 classes of descriptor.TYPES + both block wrappers (descriptor_dec_encodable)",
        "containers": "payload inside TaggedBlock / ImageResource, typed image resource, document with typed resources "
                      "(resave_stable_typed_partial: the deep skeleton part is a hypothesis)",
        "not lifted": "LayerInfoBlock (Lr16 / Lr32 / Layr), engine data",
    }
    ctx.assumptions += [
        "payload layer: a `f` / `d` field is its 32- / 64-bit pattern, a fixed-point field (16.16, 8.24) its stored integer: the "
        "float conversions of the real readers / writers are outside the model and covered by the search on the real code "
        "(harness/c02_payload_search.py: sign bit, all ones, zero, signed max on every struct field)",
        "payload layer: text encodings of pascal strings are C19's; a pascal string is its encoded bytes",
    ]
    ctx.notes += [
        "Payload layer: 14 class theorems are …_partial. Their side conditions are (a) the length field of a re-encoded block "
        "(exact for `blocked`: blocked_encodable_iff; not exhibitable below 4 GiB resp. 16 EiB), (b) SlicesV6.chainOK, the (F) clause "
        "of C01 (known finding C01/slices/id16-after-slice-without-data). resave_stable_typed_partial takes the well-formedness of "
        "the deep skeleton part of the document as a hypothesis (proved for the plain skeleton in Props/C02.lean: dec_wf_partial).",
        "Payload layer: normalising readers (fallback `H2x`/`H`, `?` bytes, lenient fp.read(size), trailing bytes, padding tolerated on "
        "read, Curves' optional marker, Levels' trailer count, skipped annotations, duplicate descriptor keys) change the BYTES of a "
        "re-saved payload, not the three clauses: theorem normalising_readers (decided witnesses, replayed from "
        "harness/corpus/C02payload.json).",
    ]
    ctx.trusted_base += [
        "harness/extract_c02p.py (AST of every reader / writer method of psd_tools.psd -> struct format and framing pairs)",
        "Model/Payload*.lean, Model/Payload3*.lean, Model/Descriptor.lean (hand transliteration of the payload classes), tied "
        "by C01's extractors and by this run's model dec / enc / dec vs frombytes / tobytes / frombytes on accepted "
        "non-writer-produced payloads",
    ]


def replay(ctx, data):
    import c02_payload_search
    return c02_payload_search.replay(ctx, data)
