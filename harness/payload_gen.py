"""Type-directed generator of payload instances (C01 round trip, C03 written counts).

Added after the second round of seeded changes (C01-r2-1/2/3, C03-r2-2) was missed: until then the payload classes
were explored only around fixture instances with values lowered to 0 / empty. Here every attrs class under
`psd_tools.psd` is varied *field by field over its whole on-disk domain*:

* integers: signedness and width are probed empirically (which powers of two `tobytes()` accepts without
  `struct.error`, bisected on the exponent and cached per class/field); values {min, -1, 0, 1, max};
* floats: the stored width is probed (is 1.1 re-read exactly, as float32, or otherwise?) and the values follow it
  ({-0.0, smallest denormal, +-largest, a negative number});
* bool: flipped; enum: every member; str: lengths 0..3, non-ASCII, non-BMP;
* list / tuple / bytes valued fields (and the item lists of ListElement / DictElement): every prefix length
  0..min(len, 64) and three extensions by repeating items; the first and last item of a list of numbers over the
  integer domain;
* optional fields: None <-> value in all combinations for classes with <= 6 optional fields (pairwise beyond); a
  value is taken from another instance of the class, else guessed from the reader (`x = K.read(fp)` -> `K()`) and
  from a list of scalars, keeping what the writer accepts;
* variant selectors (fields the codec compares with constants, found in the AST of the class's methods, and fields
  that size a loop / a read) over every value the comparisons distinguish (c-1, c, c+1 for an ordering), crossed
  with the optional patterns.

Seeds of the exploration ("bases") are instances harvested from the fixtures (with the place they occupy: image
resource / document-level block / layer-record block, so that a variant can be put back into its container),
default-constructed instances and the hand-made variants of props/C01.py. The deterministic part comes first
(boundary cases of every field of every base), then random multi-field variants from ctx.rng.

What is evaluated on every instance x (with the keyword context kw under which its base round-trips):

  C01:  K.read(BytesIO(x.tobytes(**kw)), **kw) == x, identical second tobytes(), and the same through the real
        container (ImageResource / TaggedBlock written and re-read with the container's own keyword plumbing);
  C03:  the count returned by x.write(fp, **kw) == bytes emitted; the same for the container; and the whole document
        holding the container is written by PSD.write and walked by the Lean walker.

Which failures are violations (there is no specification of the ~150 opaque classes to say which attrs instances are
well-formed, so the rules are relative to evidence found *on the tree under test*):

  R1 value independence: a base round-trips; changing one stored scalar within the domain the writer accepts must
     not break that (same optional pattern, same selector values, same list lengths).
  R2 list lengths: when at least two different lengths of a list-valued field round-trip (the length is therefore
     stored / self-delimiting), every length the writer accepts must round-trip. A field for which only the base's
     length round-trips has a length fixed by the format: information.
  R3 shapes (optional pattern x selector values): a shape is admissible when some instance of it round-trips; then
     all instances of the shape (other values of the newly set fields) must. Shapes with no round-tripping instance
     are listed in the evidence as information (e.g. SliceV6(origin=1, associated_id=None)).
  N  not stored: a variant that is written byte for byte like its base (although it differs from it) shows a field
     that is not on disk in that state (FilterEffectExtra.rectangle with is_written == 0, bytes beyond a fixed "4s"):
     information. A writer that drops a field only for some values writes *different* bytes and is not excused.
  X  format-excluded (one rule, mirrors payload_oracle.sweep): a descriptor key / class id of length 0.
  Everything that is written but not read back and is not a violation by these rules is listed in the evidence
  (`payload_gen_information`), by class.field, for review.
  The written-count clause of C03 has no such caveat: whatever the writer accepts, it must count.
"""
from __future__ import annotations

import ast
import collections
import enum
import inspect
import io
import itertools
import math
import signal
import struct
import textwrap
import time

import attr

import payload_oracle as po

MAXLEN = 64
F32_MAX = 3.4028234663852886e38
F32_DEN = 1.401298464324817e-45
F64_MAX = 1.7976931348623157e308
F64_DEN = 5e-324


# =============================================================================================
# small helpers
# =============================================================================================
class Timeout(Exception):
    pass


class guard:
    """bound the time of one codec call (a count field set to 2**31 must not hang the run)"""

    def __init__(self, seconds=2.0):
        self.seconds = seconds
        self.armed = False

    def _raise(self, *a):
        raise Timeout()

    def __enter__(self):
        try:
            self.old = signal.signal(signal.SIGALRM, self._raise)
            signal.setitimer(signal.ITIMER_REAL, self.seconds)
            self.armed = True
        except ValueError:          # not the main thread
            self.armed = False
        return self

    def __exit__(self, *exc):
        if self.armed:
            signal.setitimer(signal.ITIMER_REAL, 0)
            signal.signal(signal.SIGALRM, self.old)
        return False


def init_name(f):
    return getattr(f, "alias", None) or f.name.lstrip("_")


def evolve(_inst, **changes):
    """attr.evolve keyed by FIELD name; -> instance or None when the constructor / a validator refuses"""
    K = type(_inst)
    kw = {}
    for f in attr.fields(K):
        if not f.init:
            continue
        kw[init_name(f)] = changes[f.name] if f.name in changes else getattr(_inst, f.name)
    try:
        with guard(2.0):
            return K(**kw)
    except Exception:  # noqa
        return None


def describe(x, depth=0):
    if depth > 6:
        return "..."
    if attr.has(type(x)):
        return type(x).__name__ + "(" + ", ".join(
            f"{f.name}={describe(getattr(x, f.name), depth + 1)}" for f in attr.fields(type(x))) + ")"
    if isinstance(x, (list, tuple)):
        return "[" + ", ".join(describe(v, depth + 1) for v in list(x)[:8]) + (", ...%d" % len(x) if len(x) > 8 else "") + "]"
    if isinstance(x, dict) or hasattr(x, "keys"):
        return "{" + ", ".join(f"{k!r}: {describe(x[k], depth + 1)}" for k in list(x.keys())[:8]) + "}"
    return repr(x)[:60]


def vname(v):
    if isinstance(v, enum.Enum):
        return v.name
    if isinstance(v, float):
        return repr(v)
    if isinstance(v, (bytes, str)) and len(v) > 8:
        return "%s-len%d" % (type(v).__name__, len(v))
    if attr.has(type(v)):
        return type(v).__name__
    return repr(v)[:24]


# =============================================================================================
# evaluation of one instance
# =============================================================================================
class Res:
    __slots__ = ("write", "data", "returned", "stable", "read", "consumed", "equal", "rewrite", "detail")

    def __init__(self):
        self.write = self.read = None      # 'ok' | 'raises:<E>' | 'na'
        self.data = b""
        self.returned = None
        self.stable = None
        self.consumed = None
        self.equal = None
        self.rewrite = None
        self.detail = None

    @property
    def written_ok(self):
        return self.write == "ok"

    @property
    def verdict(self):
        """'ok' | 'unwritable' | 'unstable' | 'read-raises:<E>' | 'reread-differs' | 'rewrite-differs' | 'trailing-bytes'"""
        if self.write != "ok":
            return "unwritable"
        if not self.stable:
            return "unstable"
        if self.read != "ok":
            return "read-" + self.read
        if not self.equal:
            return "reread-differs"
        if not self.rewrite:
            return "rewrite-differs"
        return "ok"


def evaluate(x, kw, limit=2.0):
    """write twice, read back with the same keyword context, compare, write again"""
    r = Res()
    K = type(x)
    if not (po._accepts(K.read, kw) and po._accepts(x.write, kw)):
        r.write = "na"
        return r
    try:
        with guard(limit):
            with io.BytesIO() as f:
                r.returned = x.write(f, **kw)
                r.data = f.getvalue()
            b2 = x.tobytes(**kw)
    except Timeout:
        r.write = "raises:Timeout"
        return r
    except RecursionError:
        r.write = "raises:RecursionError"
        return r
    except Exception as e:  # noqa
        r.write = "raises:" + type(e).__name__
        return r
    r.write = "ok"
    r.stable = b2 == r.data
    try:
        with guard(limit):
            with io.BytesIO(r.data) as f:
                y = K.read(f, **kw)
                r.consumed = f.tell()
    except Timeout:
        r.read = "raises:Timeout"
        return r
    except RecursionError:
        r.read = "raises:RecursionError"
        return r
    except Exception as e:  # noqa
        r.read = "raises:" + type(e).__name__
        r.detail = repr(e)[:200]
        return r
    r.read = "ok"
    r.equal = bool(po._eq(y, x))
    if not r.equal:
        r.detail = describe(y)[:600]
    try:
        with guard(limit):
            r.rewrite = y.tobytes(**kw) == r.data
    except Exception as e:  # noqa
        r.rewrite = False
        r.detail = ("second write raises " + repr(e)[:160]) + ("; re-read: " + r.detail if r.detail else "")
    return r


def best_context(x):
    """the first keyword context under which x round-trips -> (kw, Res) | (None, None)"""
    for kw in po.CONTEXTS:
        r = evaluate(x, kw)
        if r.write == "ok" and r.verdict == "ok":
            return kw, r
    return None, None


def ok_somewhere(x, kw):
    """x round-trips under kw or under any other applicable context (the context a class needs is not declared)"""
    r = evaluate(x, kw)
    if r.verdict == "ok":
        return r
    if r.write == "ok":
        for k2 in po.CONTEXTS:
            if k2 == kw:
                continue
            r2 = evaluate(x, k2)
            if r2.write == "ok" and r2.verdict == "ok":
                return r2
    return r


# =============================================================================================
# harvest: instances with the place they occupy
# =============================================================================================
class Root:
    """a payload object as the data of an image resource or of a tagged block"""
    __slots__ = ("kind", "key", "obj", "version", "origin")

    def __init__(self, kind, key, obj, version, origin):
        self.kind, self.key, self.obj, self.version, self.origin = kind, key, obj, version, origin


class Occ:
    __slots__ = ("x", "root", "setter")

    def __init__(self, x, root, setter):
        self.x, self.root, self.setter = x, root, setter


def _children(obj):
    """-> (child, setter | None)"""
    from psd_tools.psd.base import DictElement, ListElement
    if isinstance(obj, DictElement):
        d = obj._items
        for k in list(d.keys()):
            yield d[k], (lambda nv, d=d, k=k: d.__setitem__(k, nv))
    elif isinstance(obj, ListElement):
        l = obj._items
        for i in range(len(l)):
            yield l[i], (lambda nv, l=l, i=i: l.__setitem__(i, nv))
    if attr.has(type(obj)):
        for f in attr.fields(type(obj)):
            if f.name == "_items":
                continue
            try:
                v = getattr(obj, f.name)
            except Exception:  # noqa
                continue
            yield v, (lambda nv, o=obj, n=f.name: object.__setattr__(o, n, nv))
    elif isinstance(obj, list):
        for i in range(len(obj)):
            yield obj[i], (lambda nv, l=obj, i=i: l.__setitem__(i, nv))
    elif isinstance(obj, tuple):
        for v in obj:
            yield v, None
    elif isinstance(obj, dict):
        for k in list(obj.keys()):
            yield obj[k], (lambda nv, d=obj, k=k: d.__setitem__(k, nv))


def _walk(obj, root, setter, pool, seen, depth=0):
    from psd_tools.psd.base import BaseElement
    if id(obj) in seen or depth > 40:
        return
    if isinstance(obj, BaseElement):
        seen.add(id(obj))
        pool[type(obj)].append(Occ(obj, root, setter))
    elif not isinstance(obj, (list, tuple, dict)):
        return
    else:
        seen.add(id(obj))
    for child, st in _children(obj):
        if isinstance(child, (BaseElement, list, tuple, dict)):
            _walk(child, root, st, pool, seen, depth + 1)


def harvest(files, read_doc):
    """-> pool: class -> [Occ]; roots in fixture order (deterministic)"""
    from psd_tools.psd.base import BaseElement
    pool = collections.defaultdict(list)
    for f in files:
        r = read_doc(f.read_bytes())
        if r[0] != "ok":
            continue
        doc = r[1]
        ver = doc.header.version
        seen: set = set()

        def blocks(tbs, kind):
            if not tbs:
                return
            for k in list(tbs.keys()):
                blk = tbs[k]
                data = getattr(blk, "data", None)
                if isinstance(data, BaseElement):
                    root = Root(kind, getattr(blk, "key", k), data, ver, f.name)
                    _walk(data, root, (lambda nv, b=blk: object.__setattr__(b, "data", nv)), pool, seen)

        try:
            for k in list(doc.image_resources.keys()):
                res = doc.image_resources[k]
                if isinstance(res.data, BaseElement):
                    root = Root("resource", res.key, res.data, ver, f.name)
                    _walk(res.data, root, (lambda nv, b=res: object.__setattr__(b, "data", nv)), pool, seen)
            lam = doc.layer_and_mask_information
            blocks(lam.tagged_blocks, "doc-block")
            infos = [lam.layer_info]
            if lam.tagged_blocks:
                for k in (b"Lr16", b"Lr32"):
                    if k in lam.tagged_blocks and hasattr(lam.tagged_blocks[k].data, "layer_records"):
                        infos.append(lam.tagged_blocks[k].data)
            for li in infos:
                if li is not None and li.layer_records:
                    for rec in li.layer_records:
                        blocks(rec.tagged_blocks, "layer-block")
        except Exception:  # noqa  (a reshaped skeleton: the other checks report it)
            continue
    return pool


# =============================================================================================
# class analysis (AST): variant selectors and sizing fields
# =============================================================================================
_INFO: dict = {}


class ClassInfo:
    def __init__(self, K):
        self.K = K
        self.fields = list(attr.fields(K)) if attr.has(K) else []
        self.names = {f.name.lstrip("_"): f.name for f in self.fields}
        self.selector_values = collections.defaultdict(list)   # field -> [values the codec distinguishes]
        self.sizing = set()                                    # fields that size a loop / a read
        self.reads = {}                                        # field -> element class read into it
        self.parsed = False
        self._analyse()

    def _sources(self):
        out = []
        for B in type.mro(self.K):
            if not getattr(B, "__module__", "").startswith("psd_tools.psd"):
                continue
            try:
                out.append((B, textwrap.dedent(inspect.getsource(B))))
            except (OSError, TypeError):
                pass
        return out

    def _field_of(self, node):
        """self.<field> | <local named like a field> -> field name | None"""
        if isinstance(node, ast.Attribute) and isinstance(node.value, ast.Name) and node.value.id in ("self", "cls"):
            return self.names.get(node.attr.lstrip("_"))
        if isinstance(node, ast.Name):
            return self.names.get(node.id.lstrip("_"))
        if isinstance(node, ast.Call) and isinstance(node.func, ast.Name) and node.func.id in ("len", "int", "abs") and node.args:
            return None
        return None

    def _const(self, node, glob):
        try:
            return True, ast.literal_eval(node)
        except Exception:  # noqa
            pass
        if isinstance(node, ast.Attribute):
            try:
                v = eval(compile(ast.Expression(node), "<sel>", "eval"), dict(glob), {})  # Enum.MEMBER, module constants
                if isinstance(v, (int, bytes, str, enum.Enum, tuple, frozenset, set)):
                    return True, v
            except Exception:  # noqa
                pass
        if isinstance(node, ast.Name) and node.id in glob and isinstance(glob[node.id], (int, bytes, str, tuple, frozenset, set)):
            return True, glob[node.id]
        return False, None

    def _analyse(self):
        for B, src in self._sources():
            try:
                tree = ast.parse(src)
            except SyntaxError:
                continue
            self.parsed = True
            glob = vars(inspect.getmodule(B)) if inspect.getmodule(B) else {}
            for node in ast.walk(tree):
                if isinstance(node, ast.Compare):
                    sides = [node.left] + list(node.comparators)
                    for i, op in enumerate(node.ops):
                        a, b = sides[i], sides[i + 1]
                        for fld_node, c_node, flipped in ((a, b, False), (b, a, True)):
                            fld = self._field_of(fld_node)
                            if not fld:
                                continue
                            if isinstance(op, (ast.Is, ast.IsNot)):
                                continue                      # presence tests do not select a variant
                            okc, c = self._const(c_node, glob)
                            if not okc or c is None:
                                continue
                            if isinstance(op, (ast.In, ast.NotIn)) and not flipped and isinstance(c, (tuple, list, set, frozenset)):
                                self.selector_values[fld] += list(c)
                            elif isinstance(op, (ast.Eq, ast.NotEq)):
                                self.selector_values[fld].append(c)
                            elif isinstance(op, (ast.Lt, ast.LtE, ast.Gt, ast.GtE)) and isinstance(c, int) and not isinstance(c, bool):
                                self.selector_values[fld] += [c - 1, c, c + 1]
                elif isinstance(node, ast.Call):
                    fn = node.func
                    nm = fn.id if isinstance(fn, ast.Name) else (fn.attr if isinstance(fn, ast.Attribute) else "")
                    if nm in ("range", "read", "read_be_array", "bytes", "bytearray", "zeros", "seek"):
                        for a in node.args:
                            for sub in ast.walk(a):
                                fld = self._field_of(sub)
                                if fld:
                                    self.sizing.add(fld)
                elif isinstance(node, ast.BinOp) and isinstance(node.op, (ast.Mult, ast.Mod, ast.FloorDiv)):
                    for side in (node.left, node.right):
                        if isinstance(side, (ast.Attribute, ast.Name)):
                            fld = self._field_of(side)
                            if fld and not isinstance(node.op, ast.Mod):
                                self.sizing.add(fld)
                elif isinstance(node, ast.Assign) and isinstance(node.value, ast.Call):
                    fn = node.value.func
                    if isinstance(fn, ast.Attribute) and fn.attr in ("read", "frombytes") and isinstance(fn.value, ast.Name):
                        cls = glob.get(fn.value.id)
                        if isinstance(cls, type):
                            for t in node.targets:
                                fld = self._field_of(t)
                                if fld:
                                    self.reads[fld] = cls
        for k in list(self.selector_values):
            seen, out = set(), []
            for v in self.selector_values[k]:
                key = repr(v)
                if key not in seen:
                    seen.add(key)
                    out.append(v)
            self.selector_values[k] = out

    def is_selector(self, name):
        return (name in self.selector_values or name in self.sizing
                or any(s in name for s in po.VARIANT_SELECTORS))


def info(K) -> ClassInfo:
    if K not in _INFO:
        _INFO[K] = ClassInfo(K)
    return _INFO[K]


# =============================================================================================
# domains
# =============================================================================================
_INT_DOMAIN: dict = {}
_FLOAT_KIND: dict = {}


def _writes(x, kw):
    if x is None:
        return False
    try:
        with guard(1.0):
            x.tobytes(**kw)
        return True
    except Exception:  # noqa
        return False


def int_domain(base, kw, fname, setv):
    """(min, max) of what the writer accepts for an integer slot; `setv(v)` -> instance with the slot set.
    Bisection on the exponent: accepted(2**k - 1) and accepted(-2**k) are monotone in k for struct formats."""
    key = (type(base), fname)
    if key in _INT_DOMAIN:
        return _INT_DOMAIN[key]

    def acc(v):
        return _writes(setv(v), kw)

    def bisect(f):
        # largest k in [0, 64] with f(k), assuming f monotone decreasing; -1 when f(0) fails
        if not f(0):
            return -1
        lo, hi = 0, 65
        while hi - lo > 1:
            mid = (lo + hi) // 2
            if f(mid):
                lo = mid
            else:
                hi = mid
        return lo
    kp = bisect(lambda k: acc(2 ** k - 1))
    kn = bisect(lambda k: acc(-(2 ** k)))
    mx = 2 ** kp - 1 if kp >= 0 else None
    mn = -(2 ** kn) if kn >= 0 else (0 if kp >= 0 else None)
    if kp >= 64:
        mx = None              # not a fixed-width slot (the writer takes any int): only small values are used
    _INT_DOMAIN[key] = (mn, mx)
    return _INT_DOMAIN[key]


def int_values(dom, cur):
    mn, mx = dom
    out = []
    for v in (mn, -1, 0, 1, mx):
        if v is None or v == cur or v in out:
            continue
        if mn is not None and v < mn:
            continue
        if mx is not None and v > mx:
            continue
        out.append(v)
    return out


def float_kind(base, kw, fname, setv):
    """'f64' | 'f32' | 'other' (fixed point, text, ...) from how probe values come back; the probes are not the
    values tested afterwards"""
    key = (type(base), fname)
    if key in _FLOAT_KIND:
        return _FLOAT_KIND[key]

    def rt(v):
        y = setv(v)
        return y is not None and evaluate(y, kw).verdict == "ok"

    def f32(v):
        return struct.unpack(">f", struct.pack(">f", v))[0]
    kind = "other"
    if rt(1.1) and rt(1e-310) and rt(-2.5e300):
        kind = "f64"
    elif rt(f32(1.1)) and rt(f32(1e-40)) and rt(f32(-2.5e30)):
        kind = "f32"
    _FLOAT_KIND[key] = kind
    return kind


def float_values(kind, cur):
    if kind == "f64":
        vs = [-0.0, F64_DEN, F64_MAX, -F64_MAX, -1.5]
    elif kind == "f32":
        vs = [-0.0, F32_DEN, F32_MAX, -F32_MAX, -1.5]
    else:
        vs = [0.0, -1.5, 1.0, 0.5]
    return [v for v in vs if not (v == cur and math.copysign(1, v) == math.copysign(1, cur))]


STR_VALUES = ["", "a", "ab", "abc", "é", "\U0001f600x"]

_REREAD: dict = {}


def reread(base, kw):
    """the base as the reader returns it (tells what type the reader gives a field: an int field that comes back as
    an Enum has the enum's members as its on-disk domain)"""
    k = id(base)
    if k not in _REREAD:
        try:
            with guard(2.0):
                _REREAD[k] = (base, type(base).frombytes(base.tobytes(**kw), **kw))
        except Exception:  # noqa
            _REREAD[k] = (base, None)
    return _REREAD[k][1]


def length_variants(cur):
    """prefixes 0..min(len, 64) and three extensions by repeating items; -> [(label, value)]"""
    seq = list(cur.items()) if hasattr(cur, "items") and not isinstance(cur, (bytes, str)) else list(cur)
    n = len(seq)

    def back(s):
        if isinstance(cur, bytes):
            return bytes(s)
        if isinstance(cur, tuple):
            return tuple(s)
        if hasattr(cur, "items"):
            return type(cur)(s) if not isinstance(cur, dict) or type(cur) is not dict else dict(s)
        return list(s)
    out = []
    lens = list(range(0, min(n, MAXLEN) + 1))
    for k in lens:
        if k != n:
            out.append((k, back(seq[:k])))
    if n and not hasattr(cur, "items"):
        for k in (n + 1, n + 2, min(2 * n, MAXLEN + 2)):
            if k > n and all(k != o[0] for o in out):
                ext = (seq * (k // n + 1))[:k]
                out.append((k, back(ext)))
    elif n == 0 and isinstance(cur, bytes):
        for k in (1, 2, 4):
            out.append((k, bytes(k)))
    return out


SCALAR_GUESSES = [0, 1, 0.0, 1.0, b"", b"\x00\x00\x00\x00", "", "a", (0, 0, 0, 0), [], True]


# =============================================================================================
# cases
# =============================================================================================
class Case:
    __slots__ = ("K", "base_id", "field", "group", "kind", "label", "x", "kw", "base", "occ", "shape", "res")

    def __init__(self, K, base_id, field, group, kind, label, x, kw, base, occ, shape=None):
        self.K, self.base_id, self.field, self.group, self.kind, self.label = K, base_id, field, group, kind, label
        self.x, self.kw, self.base, self.occ, self.shape = x, kw, base, occ, shape
        self.res = None


def _is_num(v):
    return isinstance(v, (int, float)) and not isinstance(v, bool)


def optional_fields(ci: ClassInfo, insts):
    out = []
    for f in ci.fields:
        if f.name == "_items":
            continue
        if f.default is None or any(getattr(x, f.name, 0) is None for x in insts):
            out.append(f.name)
    return out


def optional_candidates(ci: ClassInfo, fname, base, kw, insts):
    """values to put into an optional slot that is None in `base` (only what the writer accepts)"""
    cands = []
    for x in insts:
        v = getattr(x, fname, None)
        if v is not None and all(repr(v) != repr(c) for c in cands):
            cands.append(v)
        if len(cands) >= 2:
            break
    if not cands:
        guesses = []
        if fname in ci.reads:
            try:
                guesses.append(ci.reads[fname]())
            except Exception:  # noqa
                pass
        guesses += SCALAR_GUESSES
        for f in ci.fields:                       # element-valued sibling fields (e.g. another Color)
            v = getattr(base, f.name, None)
            if attr.has(type(v)) and all(type(v) is not type(g) for g in guesses):
                guesses.append(v)
        cands = guesses
    return cands


def field_cases(ci: ClassInfo, base, kw, base_id, occ, insts):
    """deterministic single-field variants of one base (boundary values first)"""
    K = ci.K
    out = []

    def add(fname, group, kind, value, shape=None):
        y = evolve(base, **{fname: value})
        if y is None:
            return
        out.append(Case(K, base_id, fname, group, kind, "%s.%s<-%s" % (K.__name__, fname, vname(value)), y, kw, base, occ, shape))

    for f in ci.fields:
        nm = f.name
        try:
            cur = getattr(base, nm)
        except Exception:  # noqa
            continue
        sel = ci.is_selector(nm)
        back = getattr(reread(base, kw), nm, None)
        if isinstance(back, enum.Enum) and not isinstance(cur, enum.Enum):
            # stored as an enum: the members are the domain (the base holds the plain value)
            for m in type(back):
                if m != cur and m is not back:
                    add(nm, "shape" if sel else "scalar", "enum", m)
            continue
        if isinstance(cur, enum.Enum):
            for m in type(cur):
                if m is not cur:
                    add(nm, "shape" if sel else "scalar", "enum", m)
        elif isinstance(cur, bool):
            add(nm, "shape" if sel else "scalar", "bool", not cur)
        elif isinstance(cur, int):
            if sel:
                vals = list(ci.selector_values.get(nm, []))
                for x in insts:
                    v = getattr(x, nm, None)
                    if isinstance(v, int) and v not in vals:
                        vals.append(v)
                vals += [v for v in (0, 1, cur - 1, cur + 1) if v not in vals]
                for v in vals[:12]:
                    if isinstance(v, int) and v != cur:
                        add(nm, "shape", "selector", v)
            else:
                dom = int_domain(base, kw, nm, lambda v, nm=nm: evolve(base, **{nm: v}))
                for v in int_values(dom, cur):
                    add(nm, "scalar", "int", v)
        elif isinstance(cur, float):
            kind = float_kind(base, kw, nm, lambda v, nm=nm: evolve(base, **{nm: v}))
            for v in float_values(kind, cur):
                add(nm, "scalar", "float-" + kind, v)
        elif isinstance(cur, str):
            for v in STR_VALUES:
                if v != cur:
                    add(nm, "scalar", "str", v)
        elif isinstance(cur, (bytes, list, tuple)) or (nm == "_items" and hasattr(cur, "__len__")):
            if sel and isinstance(cur, bytes):
                for v in ci.selector_values.get(nm, []):
                    if isinstance(v, bytes) and v != cur:
                        add(nm, "shape", "selector", v)
                continue
            for k, v in length_variants(cur):
                add(nm, "length", "len", v)
            # the first and the last item of a list of numbers over the integer / float domain
            if isinstance(cur, (list, tuple)) and cur and all(_is_num(v) for v in cur):
                for idx in sorted({0, len(cur) - 1}):
                    def setv(v, idx=idx, nm=nm, cur=cur):
                        s = list(cur)
                        s[idx] = v
                        return evolve(base, **{nm: type(cur)(s) if isinstance(cur, tuple) else s})
                    if isinstance(cur[idx], int):
                        dom = int_domain(base, kw, "%s[%s]" % (nm, "0" if idx == 0 else "-1"), setv)
                        vals = int_values(dom, cur[idx])
                        kind = "item-int"
                    else:
                        fk = float_kind(base, kw, "%s[%s]" % (nm, "0" if idx == 0 else "-1"), setv)
                        vals = float_values(fk, cur[idx])
                        kind = "item-float-" + fk
                    for v in vals:
                        y = setv(v)
                        if y is not None:
                            out.append(Case(K, base_id, nm, "scalar", kind,
                                            "%s.%s[%d]<-%s" % (K.__name__, nm, idx, vname(v)), y, kw, base, occ))
    return out


def shape_cases(ci: ClassInfo, base, kw, base_id, occ, insts, budget):
    """optional patterns (all combinations for <= 6 optional fields, pairwise beyond) x selector values"""
    K = ci.K
    opt = optional_fields(ci, insts)
    cand = {}
    for nm in opt:
        if getattr(base, nm) is None:
            cs = []
            for c in optional_candidates(ci, nm, base, kw, insts):
                y = evolve(base, **{nm: c})
                if y is not None and _writes(y, kw):
                    cs.append(c)
                if len(cs) >= 3:
                    break
            cand[nm] = cs
        else:
            cand[nm] = [getattr(base, nm)]
    opt = [nm for nm in opt if cand[nm]]
    sels = {}
    for f in ci.fields:
        nm = f.name
        cur = getattr(base, nm, None)
        if nm in opt or cur is None or not ci.is_selector(nm):
            continue
        vals = [v for v in ci.selector_values.get(nm, []) if type(v) is type(cur) or (isinstance(v, int) and isinstance(cur, int))]
        for x in insts:
            v = getattr(x, nm, None)
            if v is not None and all(repr(v) != repr(w) for w in vals):
                vals.append(v)
        vals = [v for v in vals if repr(v) != repr(cur)][:6]
        if vals:
            sels[nm] = vals
    if len(opt) <= 6:
        patterns = list(itertools.product((False, True), repeat=len(opt)))
    else:
        patterns = []
        base_pat = tuple(getattr(base, nm) is not None for nm in opt)
        for i in range(len(opt)):
            for j in range(i, len(opt)):
                for bi, bj in ((False, False), (False, True), (True, False), (True, True)):
                    p = list(base_pat)
                    p[i], p[j] = bi, bj
                    if tuple(p) not in patterns:
                        patterns.append(tuple(p))
    sel_choices = [()]                                   # base selectors
    for nm, vals in sels.items():
        sel_choices += [((nm, v),) for v in vals]
    out = []
    for pat in patterns:
        for sc in sel_choices:
            base_pat = tuple(getattr(base, nm) is not None for nm in opt)
            if pat == base_pat and not sc:
                continue
            # the instances of one shape: newly set optional fields take each candidate in turn (others the first)
            newly = [nm for nm, on in zip(opt, pat) if on and getattr(base, nm) is None]
            variants = [dict()]
            if newly:
                variants = []
                width = max(len(cand[nm]) for nm in newly)
                for k in range(width):
                    variants.append({nm: cand[nm][min(k, len(cand[nm]) - 1)] for nm in newly})
            shape = (tuple(nm for nm, on in zip(opt, pat) if on), tuple((nm, repr(v)) for nm, v in sc))
            for var in variants:
                ch = {nm: (None if not on else var.get(nm, getattr(base, nm))) for nm, on in zip(opt, pat)}
                ch.update(dict(sc))
                y = evolve(base, **ch)
                if y is None:
                    continue
                lab = "%s{%s}" % (K.__name__, ", ".join(
                    ["%s=%s" % (nm, "None" if ch[nm] is None else vname(ch[nm])) for nm in opt if (ch[nm] is None) != (getattr(base, nm) is None) or nm in var]
                    + ["%s=%s" % (nm, vname(v)) for nm, v in sc]))
                fld = "+".join([nm for nm in opt if (ch[nm] is None) != (getattr(base, nm) is None)] + [nm for nm, _ in sc]) or "shape"
                out.append(Case(K, base_id, fld, "shape", "shape", lab, y, kw, base, occ, shape))
                if len(out) >= budget:
                    return out
    return out


def random_cases(ci, bases, rng, n):
    """multi-field variants: 2..3 scalar fields of a base changed at once (values from the probed domains)"""
    K = ci.K
    out = []
    if not bases:
        return out
    for _ in range(n):
        bi = rng.randrange(len(bases))
        base, kw, occ = bases[bi]
        pickable = []
        for f in ci.fields:
            nm = f.name
            cur = getattr(base, nm, None)
            if ci.is_selector(nm) or cur is None:
                continue
            if isinstance(cur, bool):
                pickable.append((nm, [not cur]))
            elif isinstance(cur, enum.Enum):
                pickable.append((nm, [m for m in type(cur) if m is not cur]))
            elif isinstance(cur, int):
                dom = _INT_DOMAIN.get((K, nm))
                if dom and dom[0] is not None and dom[1] is not None:
                    vals = int_values(dom, cur) + [rng.randint(dom[0], dom[1]) for _ in range(3)]
                    pickable.append((nm, vals))
            elif isinstance(cur, float):
                kind = _FLOAT_KIND.get((K, nm), "other")
                vals = float_values(kind, cur)
                if kind in ("f64", "f32"):
                    v = rng.uniform(-1e6, 1e6)
                    vals.append(v if kind == "f64" else struct.unpack(">f", struct.pack(">f", v))[0])
                pickable.append((nm, vals))
            elif isinstance(cur, str):
                pickable.append((nm, STR_VALUES + ["".join(rng.choice("abéあ ") for _ in range(rng.randrange(0, 9)))]))
        pickable = [(nm, vs) for nm, vs in pickable if vs]
        if len(pickable) < 2:
            break
        k = min(len(pickable), rng.choice([2, 2, 3]))
        chosen = rng.sample(pickable, k)
        ch = {nm: rng.choice(vs) for nm, vs in chosen}
        y = evolve(base, **ch)
        if y is None:
            continue
        out.append(Case(K, bi, "+".join(sorted(ch)), "scalar", "multi",
                        "%s{%s}" % (K.__name__, ", ".join("%s=%s" % (nm, vname(v)) for nm, v in sorted(ch.items()))),
                        y, kw, base, occ))
    return out


# =============================================================================================
# the generator
# =============================================================================================
def _shape_key(ci, x):
    k = []
    for f in ci.fields:
        v = getattr(x, f.name, None)
        if v is None:
            k.append((f.name, None))
        elif ci.is_selector(f.name) and isinstance(v, (int, bytes, enum.Enum)):
            k.append((f.name, repr(v)))
    return tuple(k)


def choose_bases(ci, occs, extra, nbases):
    """round-tripping instances of the class with distinct shapes first: [(instance, kw, occ | None)]"""
    seen_shape, seen_bytes, first, rest = set(), set(), [], []
    cands = [(o.x, o) for o in occs[:60]] + [(x, None) for x in extra]
    for x, occ in cands:
        if len(first) + len(rest) >= 4 * nbases and len(first) >= nbases:
            break
        kw, r = best_context(x)
        if kw is None or len(r.data) > 65536:
            continue
        if r.data in seen_bytes:
            continue
        seen_bytes.add(r.data)
        sk = _shape_key(ci, x)
        (rest if sk in seen_shape else first).append((x, kw, occ))
        seen_shape.add(sk)
    return (first + rest)[:nbases]


def generate(classes, pool, variants, rng, quick=True, only=None, stats=None):
    """-> iterator of (class, [Case]) with every case evaluated (case.res)"""
    nbases = 3 if quick else 8
    budget = 500 if quick else 4000
    nrand = 30 if quick else 400
    for name, K in sorted(classes.items()):
        if only and name not in only:
            continue
        if not attr.has(K) or po.token_level(K) or name in po.CONTEXT_DEPENDENT:
            continue
        if K.__module__ == "psd_tools.psd.base" and name in ("BaseElement", "ListElement", "DictElement", "ValueElement"):
            continue
        ci = info(K)
        occs = pool.get(K, [])
        extra = [v for v in variants if type(v) is K]
        try:
            extra.append(K())
        except Exception:  # noqa
            pass
        t0 = time.time()
        bases = choose_bases(ci, occs, extra, nbases)
        insts = [o.x for o in occs[:200]] + extra
        cases = []
        for bi, (base, kw, occ) in enumerate(bases):
            room = budget - len(cases)
            if room <= 0:
                break
            fc = field_cases(ci, base, kw, bi, occ, insts)
            cases += fc[:room]
            room = budget - len(cases)
            if room > 0:
                cases += shape_cases(ci, base, kw, bi, occ, insts, min(room, 160 if quick else 800))
        # second round: scalar variants of the fields newly set in an admissible shape (e.g. the id of an origin-1 slice)
        for c in cases:
            c.res = ok_somewhere(c.x, c.kw)
        extra_cases = []
        done = set()
        for c in cases:
            if c.group == "shape" and c.res.verdict == "ok" and len(cases) + len(extra_cases) < budget:
                changed = [f.name for f in ci.fields
                           if (getattr(c.base, f.name, None) is None) and getattr(c.x, f.name, None) is not None]
                for nm in changed:
                    key = (c.shape, nm)
                    if key in done:
                        continue
                    done.add(key)
                    cur = getattr(c.x, nm)
                    vals, kind = [], None
                    if isinstance(cur, bool):
                        vals, kind = [not cur], "bool"
                    elif isinstance(cur, int) and not ci.is_selector(nm):
                        dom = int_domain(c.x, c.kw, nm + "@set", lambda v, nm=nm, c=c: evolve(c.x, **{nm: v}))
                        vals, kind = int_values(dom, cur), "int"
                    elif isinstance(cur, float):
                        fk = float_kind(c.x, c.kw, nm + "@set", lambda v, nm=nm, c=c: evolve(c.x, **{nm: v}))
                        vals, kind = float_values(fk, cur), "float-" + fk
                    for v in vals:
                        y = evolve(c.x, **{nm: v})
                        if y is not None:
                            extra_cases.append(Case(K, c.base_id, nm, "scalar", kind,
                                                    "%s & %s<-%s" % (c.label, nm, vname(v)), y, c.kw, c.x, c.occ))
        rc = random_cases(ci, bases, rng, nrand)
        for c in extra_cases + rc:
            c.res = ok_somewhere(c.x, c.kw)
        cases += extra_cases + rc
        if stats is not None:
            stats[name] = {"bases": len(bases), "cases": len(cases), "seconds": round(time.time() - t0, 2)}
        yield K, bases, cases


# =============================================================================================
# judging (rules R1-R3 of the module docstring)
# =============================================================================================
def _base_bytes(c):
    try:
        with guard(2.0):
            return c.base.tobytes(**c.kw)
    except Exception:  # noqa
        return None


def not_stored(c):
    """rule N: the variant is written exactly like its base although it differs from it: the field is not on disk in
    this state (FilterEffectExtra.rectangle with is_written == 0, ...). Information, not a violation: the variant and
    the base are two spellings of the same file content."""
    return c.res.written_ok and c.res.data == _base_bytes(c)


def format_excluded(c):
    """shapes the format cannot express, with the rule that excludes them (kept as small as the evidence demands)"""
    v = getattr(c.x, c.field, None) if "+" not in c.field else None
    if isinstance(v, bytes) and len(v) == 0 and any(B.__module__ == "psd_tools.psd.descriptor" for B in type.mro(c.K)):
        return "descriptor key / class id of length 0: the length field 0 announces a 4-byte key (format rule)"
    return None


def judge_roundtrip(K, bases, cases):
    """-> (violations [(signature, case, why)], information [str])"""
    viol, infos = [], []
    name = K.__name__

    def live(cs):
        out = []
        for c in cs:
            if not c.res.written_ok or c.res.verdict == "ok":
                out.append(c)
                continue
            why = format_excluded(c)
            if why:
                infos.append("%s: %s" % (c.label, why))
            elif not_stored(c):
                infos.append("%s.%s: not stored in the state of the base (%s is written like the base)" % (name, c.field, c.label))
            else:
                out.append(c)
        return out
    cases = live(cases)
    # R2: which list-valued fields store their length?
    by_len = collections.defaultdict(list)
    for c in cases:
        if c.group == "length":
            by_len[(c.base_id, c.field)].append(c)
    for (bi, fld), cs in sorted(by_len.items(), key=lambda kv: (kv[0][0], kv[0][1])):
        written = [c for c in cs if c.res.written_ok]
        good = [c for c in written if c.res.verdict == "ok"]
        bad = [c for c in written if c.res.verdict != "ok"]
        if not bad:
            continue
        if good:                        # the base's length and at least one more round-trip: the length is stored
            for c in bad:
                viol.append(("C01/payload-gen/%s.%s/list-length/%s" % (name, fld, c.res.verdict.split(":")[0]), c,
                             "other lengths of this field round-trip (%s), this one (%s) does not"
                             % (", ".join(sorted({str(_len_of(g, fld)) for g in good})[:8]), _len_of(c, fld))))
        else:
            infos.append("%s.%s: only the length of the base round-trips (%d other lengths are written but not read back): "
                         "the length is fixed by the format" % (name, fld, len(bad)))
    # R3: shapes
    by_shape = collections.defaultdict(list)
    for c in cases:
        if c.group == "shape":
            by_shape[(c.base_id, c.shape if c.shape is not None else c.label)].append(c)
    for key, cs in sorted(by_shape.items(), key=lambda kv: repr(kv[0])):
        written = [c for c in cs if c.res.written_ok]
        good = [c for c in written if c.res.verdict == "ok"]
        bad = [c for c in written if c.res.verdict != "ok"]
        if bad and good:
            for c in bad:
                viol.append(("C01/payload-gen/%s.%s/value-in-shape/%s" % (name, c.field, c.res.verdict.split(":")[0]), c,
                             "another instance of the same shape (same optional pattern and selectors) round-trips: %s" % good[0].label))
        elif bad:
            infos.append("%s: shape not representable (written, not read back): %s" % (name, bad[0].label))
    # R1: scalars
    for c in cases:
        if c.group == "scalar" and c.res.written_ok and c.res.verdict != "ok":
            if c.kind == "multi":
                c = shrink_multi(c)
            kind = c.kind if c.kind != "multi" else "multi-field"
            viol.append(("C01/payload-gen/%s.%s/%s/%s" % (name, c.field, kind, c.res.verdict.split(":")[0]), c,
                         "the base round-trips; one stored scalar changed within the domain the writer accepts"))
    seen, uniq = set(), []
    for i in infos:
        if i not in seen:
            seen.add(i)
            uniq.append(i)
    return viol, uniq


def _kind_of(v):
    if isinstance(v, enum.Enum):
        return "enum"
    if isinstance(v, bool):
        return "bool"
    if isinstance(v, int):
        return "int"
    if isinstance(v, float):
        return "float"
    if isinstance(v, str):
        return "str"
    return type(v).__name__


def shrink_multi(c: Case) -> Case:
    """a failing multi-field variant -> the first single field of it that fails alone (same signature as the
    deterministic single-field case), else the case itself"""
    for nm in c.field.split("+"):
        v = getattr(c.x, nm, None)
        y = evolve(c.base, **{nm: v})
        if y is None:
            continue
        r = ok_somewhere(y, c.kw)
        if r.written_ok and r.verdict != "ok":
            one = Case(c.K, c.base_id, nm, "scalar", _kind_of(v), "%s.%s<-%s" % (c.K.__name__, nm, vname(v)), y, c.kw, c.base, c.occ)
            one.res = r
            if not (format_excluded(one) or not_stored(one)):
                return one
    return c


def _len_of(c, fld):
    try:
        return len(getattr(c.x, fld))
    except Exception:  # noqa
        return "?"


def judge_written(K, cases):
    """C03: returned count == bytes emitted, for everything the writer accepts"""
    out = []
    for c in cases:
        r = c.res
        if r.written_ok and r.returned != len(r.data):
            out.append(("C03/written-count/%s/standalone" % K.__name__, c))
    return out


# =============================================================================================
# containers
# =============================================================================================
def container_of(root: Root):
    """-> (container instance, write kwargs, read kwargs)"""
    import psd_tools.psd.image_resources as IR
    import psd_tools.psd.tagged_blocks as TB
    if root.kind == "resource":
        return IR.ImageResource(key=root.key, data=root.obj), {}, {}
    pad = 4 if root.kind == "doc-block" else 1
    kw = {"version": root.version, "padding": pad}
    return TB.TaggedBlock(key=root.key, data=root.obj), kw, kw


class substituted:
    """put `y` where the harvested instance sits in its root, restore on exit"""

    def __init__(self, occ: Occ, y):
        self.occ, self.y = occ, y

    def __enter__(self):
        self.occ.setter(self.y)
        return self

    def __exit__(self, *exc):
        self.occ.setter(self.occ.x)
        return False


def container_eval(c: Case):
    """evaluate the case inside its container -> Res | None (no container known)"""
    occ = c.occ
    if occ is None or occ.setter is None:
        return None
    with substituted(occ, c.x):
        cont, wkw, rkw = container_of(occ.root)
        r = evaluate(cont, wkw)
    return r


def container_document(c: Case):
    """the whole document holding the container -> (bytes, returned count) | None"""
    import c03_extra
    occ = c.occ
    if occ is None or occ.setter is None:
        return None
    root = occ.root
    with substituted(occ, c.x):
        try:
            with guard(3.0):
                if root.kind == "resource":
                    C, P, H, ID, IR, LM, TB = c03_extra._mods()
                    doc = c03_extra.tiny_document(root.version, [], [])
                    doc.image_resources = IR.ImageResources([(root.key, IR.ImageResource(key=root.key, data=root.obj))])
                elif root.kind == "doc-block":
                    doc = c03_extra.tiny_document(root.version, [(root.key, root.obj)], [])
                else:
                    doc = c03_extra.tiny_document(root.version, [], [(root.key, root.obj)])
                with io.BytesIO() as f:
                    n = doc.write(f)
                    return f.getvalue(), n
        except Exception:  # noqa
            return None


# =============================================================================================
# entry points of the two checks
# =============================================================================================
_SHARED: dict = {}


def _setup(ctx, variants):
    """harvest + generate once per process; deterministic in VERIF_SEED and independent of how much of ctx.rng the
    rest of the check has consumed (C01 and C03 therefore see the same instances)"""
    import random

    import codec_common as cc
    key = (ctx.seed, ctx.tier)
    if key in _SHARED:
        return _SHARED[key]
    t0 = time.time()
    fx = cc.fixtures()
    pool = harvest(fx, cc.read_doc)
    classes = live_classes()
    rng = random.Random("payload-gen:%d" % ctx.seed)
    stats: dict = {}
    out = list(generate(classes, pool, variants, rng, quick=ctx.quick, stats=stats))
    _SHARED[key] = (out, stats, round(time.time() - t0, 1), len(fx))
    return _SHARED[key]


def live_classes():
    """po.element_classes() through the defining module: attrs(slots=True) builds a second class object and the
    first one stays in BaseElement.__subclasses__() until it is garbage-collected; instances are of the exported one"""
    import importlib
    out = {}
    for name, K in po.element_classes().items():
        try:
            out[name] = getattr(importlib.import_module(K.__module__), name, K)
        except Exception:  # noqa
            out[name] = K
    return out


def _input(c: Case, data=None, extra=None):
    K = c.K
    d = {"class": "%s.%s" % (K.__module__, K.__name__), "kwargs": c.kw, "bytes": (data if data is not None else c.res.data).hex(),
         "repr": describe(c.x)[:600], "case": c.label, "field": c.field, "variation": "%s/%s" % (c.group, c.kind),
         "base": describe(c.base)[:300],
         "origin": (c.occ.root.origin + ":" + c.occ.root.kind + ":" + str(getattr(c.occ.root.key, "name", c.occ.root.key))) if c.occ else "default / hand-made instance"}
    if extra:
        d.update(extra)
    return d


def _variants_c01():
    try:
        import importlib
        return importlib.import_module("props.C01").variants()
    except Exception:  # noqa
        return []


def _never_infra(fn):
    """a reshaped source met by this module's own plumbing is a broken tie (reported), never an infrastructure error"""
    def wrapped(ctx):
        import core
        try:
            return fn(ctx)
        except core.Infra:
            raise
        except Exception as e:  # noqa
            import traceback
            ctx.disagree("payload generator stopped on the current source: %s" % type(e).__name__,
                         {"error": repr(e)[:300], "where": traceback.format_exc()[-500:]})
    wrapped.__name__ = fn.__name__
    wrapped.__doc__ = fn.__doc__
    return wrapped


@_never_infra
def run_c01(ctx):
    """round trip of every generated instance, standalone and inside its container (rules R1-R3)"""
    try:
        gen, stats, secs, nfx = _setup(ctx, _variants_c01())
    except Exception as e:  # noqa  (a reshaped source: a broken tie, never an infrastructure error)
        ctx.disagree("payload generator could not be built on the current source: %s" % type(e).__name__, {"error": repr(e)[:300]})
        return
    infos_all, ncases, nclasses = [], 0, 0
    t0 = time.time()
    for K, bases, cases in gen:
        nclasses += 1
        ncases += len(cases)
        for c in cases:
            ctx.count(("payload-gen", c.label, c.res.data[:64]), nontrivial=True)
            ctx.hist("payload_gen", "%s:%s" % (c.group, c.res.verdict.split(":")[0]))
        viol, infos = judge_roundtrip(K, bases, cases)
        infos_all += infos
        for sig, c, why in viol:
            ctx.fail(sig, "%s.frombytes(x.tobytes()) is not x / does not re-write identically for a type-directed variant of a "
                          "round-tripping instance (%s)" % (K.__name__, why),
                     _input(c), {"verdict": c.res.verdict, "detail": c.res.detail, "consumed": c.res.consumed, "written": len(c.res.data)},
                     "equal structure and identical second tobytes()")
        # inside the real container (its own keyword plumbing: TaggedBlock reads with version only, writes with padding too)
        base_ok = {}
        for c in cases:
            if c.occ is None or c.res.verdict != "ok" or format_excluded(c):
                continue
            bk = id(c.occ)
            if bk not in base_ok:
                cont, wkw, _ = container_of(c.occ.root)
                base_ok[bk] = evaluate(cont, wkw).verdict == "ok"
            if not base_ok[bk]:
                continue
            r = container_eval(c)
            if r is None:
                continue
            ctx.evaluations += 1
            ctx.hist("payload_gen_in_container", r.verdict.split(":")[0])
            if r.written_ok and r.verdict != "ok":
                kind = "image-resource" if c.occ.root.kind == "resource" else "tagged-block"
                cont, wkw, _ = container_of(c.occ.root)
                ctx.fail("C01/payload-gen/%s.%s/in-%s/%s" % (K.__name__, c.field, kind, r.verdict.split(":")[0]),
                         "the instance round-trips on its own but not as the data of its %s (the container round-trips with the "
                         "fixture's instance)" % kind,
                         _input(c, r.data, {"container": kind, "container_key": str(c.occ.root.key), "kwargs": wkw,
                                            "payload_class": "%s.%s" % (K.__module__, K.__name__),
                                            "class": "%s.%s" % (type(cont).__module__, type(cont).__name__)}),
                         {"verdict": r.verdict, "detail": r.detail}, "equal structure and identical second tobytes()")
    ctx.extra["payload_gen"] = {"classes": nclasses, "instances": ncases, "fixtures_harvested": nfx, "generate_seconds": secs,
                                "judge_seconds": round(time.time() - t0, 1),
                                "slowest": sorted(((v["seconds"], k) for k, v in stats.items()), reverse=True)[:5],
                                "classes_without_round_tripping_base": sorted(k for k, v in stats.items() if v["bases"] == 0)}
    comp: dict = {}
    for i in infos_all:
        head = i.split(":")[0].split("<-")[0].split("{")[0]
        cat = ("not stored in the state of the base" if "not stored" in i else
               "shape not representable" if "shape not representable" in i else
               "length fixed by the format" if "only the length" in i else
               "zero-length descriptor key (format rule)" if "length 0" in i else "other")
        e = comp.setdefault("%s: %s" % (head, cat), {"count": 0, "example": i[:240]})
        e["count"] += 1
    ctx.extra["payload_gen_information (written but not read back: shapes the tree under test cannot represent, "
              "format-fixed lengths, fields not stored; by class.field)"] = comp
    ctx.rule += (" Added (harness/payload_gen.py): type-directed variants of every attrs class under psd_tools.psd around fixture "
                 "instances from all fixtures, defaults and hand-made variants: every integer field over {min, -1, 0, 1, max} of "
                 "the width/signedness probed on the writer, floats by stored width, every enum member, string and list/bytes "
                 "lengths 0..64 + extensions, optional fields None <-> value in all combinations x the selector values found in the "
                 "codec's AST, random multi-field variants; each standalone and inside its image resource / tagged block.")


@_never_infra
def run_c03(ctx):
    """the written-count clause on the same instances: standalone, in the container, in a whole document (Lean walker)"""
    import c03_extra
    import codec_common as cc
    try:
        gen, stats, secs, nfx = _setup(ctx, _variants_c01())
    except Exception as e:  # noqa
        ctx.disagree("payload generator could not be built on the current source: %s" % type(e).__name__, {"error": repr(e)[:300]})
        return
    docs, seen = [], set()
    ninst = 0
    limit = 20000 if ctx.quick else 200000
    for K, bases, cases in gen:
        for c in cases:
            r = c.res
            if not r.written_ok:
                continue
            ninst += 1
            ctx.count(("payload-gen-count", c.label, r.data[:64]), nontrivial=True)
            good = r.returned == len(r.data)
            ctx.hist("payload_gen_written_count", "standalone:" + ("ok" if good else "differs"))
            if not good:
                ctx.fail("C03/written-count/%s/standalone" % K.__name__,
                         "%s.write() returns a count that is not the number of bytes it emitted" % K.__name__,
                         _input(c, None, {"entry": "payload.write"}), {"returned": r.returned, "emitted": len(r.data)},
                         "returned == emitted")
            if c.occ is None or c.occ.setter is None or len(r.data) > limit:
                continue
            kind = "image-resource" if c.occ.root.kind == "resource" else "tagged-block"
            rc = container_eval(c)
            if rc is not None and rc.written_ok:
                ctx.evaluations += 1
                cg = rc.returned == len(rc.data)
                ctx.hist("payload_gen_written_count", kind + ":" + ("ok" if cg else "differs"))
                if not cg:
                    ctx.fail("C03/written-count/%s/in-%s" % (K.__name__, kind),
                             "the %s holding the instance returns a count that is not the number of bytes it emitted" % kind,
                             _input(c, rc.data, {"entry": "container.write", "container": kind, "container_key": str(c.occ.root.key)}),
                             {"returned": rc.returned, "emitted": len(rc.data)}, "returned == emitted")
            d = container_document(c)
            if d is None:
                ctx.hist("payload_gen_document", "not-built")
                continue
            b, n = d
            if b in seen:
                continue
            seen.add(b)
            docs.append((c, b, n, kind))
    # base documents (the same slot with the fixture's own instance): a walker problem of the base is not the variant's
    answers = cc.pbatch([("psd.walk", b.hex() if b else "-") for _, b, _, _ in docs])
    base_walk: dict = {}
    for (c, b, n, kind), a in zip(docs, answers):
        ctx.corr_cases += 1
        ctx.count(("payload-gen-doc", c.label, len(b)), nontrivial=True)
        if n != len(b):
            ctx.fail("C03/written-count/%s/in-document" % c.K.__name__,
                     "PSD.write of the document holding the instance returns a count that is not the file size",
                     _input(c, None, {"entry": "PSD.write", "container": kind, "file": b.hex()}),
                     {"returned": n, "emitted": len(b)}, "returned == emitted")
        ok = a[0] == "ok" and int(a[2]) == len(b)
        ctx.hist("payload_gen_document", "walker-accepts" if ok else "walker-falls-off")
        if ok:
            # the walker takes the rest of the file for the image data: a section that is too short shows up there
            # (and in the layer channels) when the pixel data is read against the header / the records
            wr = c03_extra.parse_walk(a)
            probs = []
            mp = c03_extra.merged_problem(b, wr[1], wr[3])
            if mp:
                probs.append((mp[0], mp[1], mp[2], "image-data"))
            # (only the document's own layer: an embedded Lr16/Lr32 block comes from a document of another depth)
            probs += [q for q in c03_extra.layer_channel_problems(b, wr[1], wr[3]) if q[3] == "layer-info"][:1]
            for pk, obs, expd, where in probs[:1]:
                ctx.hist("payload_gen_document", "pixels:" + pk)
                ctx.fail("C03/payload-gen/%s/sections-shifted-%s" % (c.K.__name__, pk),
                         "the walker reaches the end of a document whose %s holds the instance, but the pixel data it delimits "
                         "no longer has the size the header / layer record declares (a length before it is not truthful)" % kind,
                         _input(c, None, {"entry": "PSD.write", "container": kind, "file": b.hex(), "scenario": "payload-gen/" + kind}),
                         {"problem": pk, "observed": obs, "where": where}, expd)
            continue
        bk = id(c.occ)
        if bk not in base_walk:
            bc = Case(c.K, c.base_id, c.field, "base", "base", "base", c.occ.x, c.kw, c.occ.x, c.occ)
            bd = container_document(bc)
            if bd is None:
                base_walk[bk] = None
            else:
                ba = cc.pbatch([("psd.walk", bd[0].hex())])[0]
                base_walk[bk] = ba[0] == "ok" and int(ba[2]) == len(bd[0])
        if not base_walk[bk]:
            ctx.hist("payload_gen_document", "base-document-not-walkable (ignored)")
            continue
        sect, pos, reason = (a[1], a[2], a[3]) if a[0] != "ok" else ("end", a[2], "walk ends before the end of the file")
        odd = c.occ.root.kind == "layer-block" and len(c.res.data) % 2 == 1
        sig = ("C03/tagged-block/odd-length-in-layer-record" if odd
               else "C03/payload-gen/%s/walker-%s" % (c.K.__name__, "".join(ch if ch.isalnum() else "-" for ch in str(sect))))
        ctx.fail(sig, "the format walker falls off a document whose %s holds the instance (it accepts the same document with the "
                      "fixture's instance)" % kind,
                 _input(c, None, {"entry": "PSD.write", "container": kind, "file": b.hex(), "scenario": "payload-gen/" + kind}),
                 {"section": sect, "pos": pos, "reason": reason}, "walker visits every section and stops at the file size")
    ctx.extra["payload_gen"] = {"instances_written": ninst, "documents_walked": len(docs), "generate_seconds": secs,
                                "fixtures_harvested": nfx}
    ctx.rule += (" Added (harness/payload_gen.py): the written-count clause on the type-directed payload variants of C01 "
                 "(every attrs class; integer/float/enum/string domains, list lengths, optional patterns x selectors): the count "
                 "returned by write() == bytes emitted for the element, for its image resource / tagged block, and for the whole "
                 "document, which is also walked by the Lean walker.")


def replay_c03(inp):
    """./check C03 --replay for a payload-gen failing input"""
    import importlib
    mod, nm = inp["class"].rsplit(".", 1)
    K = getattr(importlib.import_module(mod), nm)
    kw = inp.get("kwargs") or {}
    print("case:", inp.get("case"), "|", inp.get("variation"), "| from", inp.get("origin"))
    if inp.get("entry") == "payload.write":
        try:
            x = K.frombytes(bytes.fromhex(inp["bytes"]), **kw)
            with io.BytesIO() as f:
                n = x.write(f, **kw)
                print("re-read instance: write() returned", n, "emitted", len(f.getvalue()))
        except Exception as e:  # noqa
            print("the recorded bytes are not readable any more:", repr(e)[:200])
    print("instance:", inp.get("repr"))
