"""Supervised pool of worker SUBPROCESSES for the C06 watchdog (see c06_worker.py for the protocol).

One parent thread per slot feeds its worker one item at a time from a shared iterator (so a slow item never
holds back the others, and the item a worker died on is known exactly), waits for each answer with a wall-clock
limit, and on a timeout / a dead worker records `hang` / `crash` for that item, reads the tail of the worker's
stderr file (faulthandler dumps), starts a fresh worker and goes on.  The set of items and their order of
generation never depend on scheduling: the iterator is consumed under a lock and results are keyed by item id.
"""
from __future__ import annotations

import os
import re
import select
import signal
import struct
import subprocess
import sys
import tempfile
import threading
import time
from pathlib import Path

import json

import core
from core import Infra

WORKER = Path(__file__).resolve().parent / "c06_worker.py"
_CLK = os.sysconf("SC_CLK_TCK")
BATCH_BYTES = 40 * 1024      # < the 64 KiB pipe buffer: writing a micro-batch never blocks on a stuck worker
BATCH_ITEMS = 24


class _Dead(Exception):
    pass


class _Timeout(Exception):
    pass


class Slot:
    def __init__(self, pool, k):
        self.pool, self.k = pool, k
        self.p = None
        self.buf = b""
        self.hello = None
        self.errpath = os.path.join(pool.tmp, f"worker{k}.err")
        self.spawns = 0
        self.items_done = 0

    def spawn(self):
        self.close()
        env = dict(os.environ)
        env.update({"OPENBLAS_NUM_THREADS": "1", "OMP_NUM_THREADS": "1", "MKL_NUM_THREADS": "1", "PYTHONHASHSEED": "0"})
        # byte code: never the repository's own __pycache__ (stale-cache risk, and a check must not write under the
        # repository); a per-run prefix directory that the first worker fills and the others (and every respawn) reuse
        env.pop("PYTHONDONTWRITEBYTECODE", None)
        env["PYTHONPYCACHEPREFIX"] = self.pool.pyc
        env.update(self.pool.env)
        self.err = open(self.errpath, "wb")
        self.p = subprocess.Popen([sys.executable, "-X", "faulthandler", str(WORKER), str(core.REPO),
                                   str(core.VERIF / "harness")],
                                  stdin=subprocess.PIPE, stdout=subprocess.PIPE, stderr=self.err, env=env, bufsize=0)
        self.buf = b""
        self.spawns += 1
        self.items_done = 0
        try:
            self.hello = self.readmsg(120)
        except (_Dead, _Timeout) as e:
            tail = self.errtail()
            self.close()
            raise Infra(f"C06 worker did not start ({type(e).__name__}): {tail[-600:]}")
        if "hello" not in self.hello:
            raise Infra(f"C06 worker: unexpected first message {self.hello}")

    def close(self):
        if self.p is not None:
            try:
                self.p.kill()
            except OSError:
                pass
            try:
                self.p.wait(10)
            except Exception:  # noqa
                pass
            for f in (self.p.stdin, self.p.stdout):
                try:
                    f.close()
                except Exception:  # noqa
                    pass
            self.p = None
            try:
                self.err.close()
            except Exception:  # noqa
                pass

    def errtail(self, n=6000):
        try:
            with open(self.errpath, "rb") as f:
                f.seek(0, 2)
                size = f.tell()
                f.seek(max(0, size - n))
                return f.read().decode("utf-8", "replace")
        except OSError:
            return ""

    def cpu_s(self):
        """user+system CPU seconds of the worker so far (None when unreadable)"""
        try:
            with open(f"/proc/{self.p.pid}/stat", "rb") as f:
                parts = f.read().rsplit(b")", 1)[1].split()
            return (int(parts[11]) + int(parts[12])) / _CLK
        except (OSError, IndexError, ValueError):
            return None

    def readmsg(self, timeout, starvation_aware=True):
        """next JSON line of the worker.  _Timeout when no answer came within `timeout` seconds of wall clock AND the
        worker had the CPU for at least 60 % of that limit, or - on a machine so loaded that the worker is starved -
        within 4 x timeout regardless."""
        fd = self.p.stdout.fileno()
        t0 = time.monotonic()
        cpu0 = None
        while b"\n" not in self.buf:
            waited = time.monotonic() - t0
            if waited >= timeout:
                if not starvation_aware or waited >= 4 * timeout:
                    raise _Timeout()
                now = self.cpu_s()
                if cpu0 is None or now is None or (now - cpu0) + 1.0 >= 0.6 * timeout:
                    raise _Timeout()
            r, _, _ = select.select([fd], [], [], 1.0 if waited >= 1.0 else min(1.0, timeout))
            if not r:
                if cpu0 is None:
                    cpu0 = self.cpu_s()     # sampled once, about one second into a slow item
                continue
            chunk = os.read(fd, 1 << 16)
            if not chunk:
                raise _Dead()
            self.buf += chunk
        line, self.buf = self.buf.split(b"\n", 1)
        return json.loads(line)

    def send(self, ident, flags, data):
        try:
            self.p.stdin.write(struct.pack(">IIB", ident, len(data), flags))
            mv = memoryview(data)
            off = 0
            while off < len(mv):
                off += self.p.stdin.write(mv[off:off + (1 << 20)]) or 0
        except (BrokenPipeError, OSError):
            raise _Dead()

    def death(self):
        """-> ('crash', 'SIGSEGV') | ('exit', code)"""
        try:
            rc = self.p.wait(10)
        except Exception:  # noqa
            self.p.kill()
            rc = self.p.wait(10)
        if rc < 0:
            try:
                nm = signal.Signals(-rc).name
            except ValueError:
                nm = f"signal{-rc}"
            return ("crash", nm)
        return ("exit", rc)

    def run_items(self, items, timeout=None):
        """items: [(id, flags, bytes)] whose total size fits the pipe buffer (or a single big item).
        -> {id: dict(status='done'|'hang'|'crash'|'exit', stage=..., open=msg, export=msg, ...)}
        All items are written at once; the worker answers one by one, so the wall-clock limit applies to the time
        between two answers.  When the worker has to be killed or dies, the item it was working on gets the blame
        and the rest of the batch is run by the fresh worker."""
        out = {}
        todo = list(items)
        while todo:
            if self.p is None or self.items_done >= self.pool.recycle:
                self.spawn()
            k = 0
            stage = "open"
            t0 = time.monotonic()
            try:
                for ident, flags, data in todo:
                    self.send(ident, flags, data)
                for k, (ident, flags, data) in enumerate(todo):
                    stage = "open"
                    t0 = time.monotonic()
                    res = {"status": "done"}
                    m = self.readmsg(timeout or self.pool.timeout)
                    if m.get("id") != ident:
                        raise Infra(f"C06 worker answered item {m.get('id')} while {ident} was expected")
                    res["open"] = m
                    if m.get("more"):
                        stage = "export"
                        t0 = time.monotonic()
                        out[ident] = res      # the open stage is known even if the export kills the worker
                        res["export"] = self.readmsg(self.pool.export_timeout)
                    out[ident] = res
                    self.items_done += 1
                return out
            except _Timeout:
                ident = todo[k][0]
                res = out.get(ident) or {}
                res.update(status="hang", stage=stage, waited=round(time.monotonic() - t0, 2))
                # ask for a stack dump (faulthandler.register(SIGUSR1) in the worker), give it a moment, then kill
                try:
                    self.p.send_signal(signal.SIGUSR1)
                    time.sleep(0.3)
                    self.p.kill()
                except OSError:
                    pass
                self.p.wait(10)
                res["stack"] = last_stack(self.errtail())
                out[ident] = res
            except _Dead:
                ident = todo[k][0]
                res = out.get(ident) or {}
                kind, what = self.death()
                tail = self.errtail()
                res.update(status=kind, stage=stage, signal=what if kind == "crash" else None,
                           exit_code=what if kind == "exit" else None, stack=last_stack(tail), stderr_tail=tail[-400:])
                out[ident] = res
            self.close()
            self.pool.respawns += 1
            todo = todo[k + 1:]
        return out

    def run_item(self, ident, flags, data, timeout=None):
        return self.run_items([(ident, flags, data)], timeout)[ident]


_FRAME = re.compile(r'File "([^"]+)", line (\d+) in (\S+)')


def last_stack(text: str):
    """innermost psd_tools frames of the LAST faulthandler dump in `text` (most recent call first)"""
    k = max(text.rfind("Stack (most recent call first)"), text.rfind("Fatal Python error"), text.rfind("Current thread"))
    if k < 0:
        return []
    out = []
    for fn, ln, name in _FRAME.findall(text[k:]):
        if "psd_tools" in fn or "/PIL/" in fn or "numpy" in fn or "c06_worker" in fn:
            mod = fn.rsplit("/", 1)[-1][:-3]
            if mod == "__init__":
                mod = fn.rsplit("/", 2)[-2]
            out.append(f"{mod}.{name}:{ln}")
        if len(out) >= 6:
            break
    return out


def mechanism(stack):
    """first psd_tools frame that is not in utils (module.function), for signatures"""
    for fr in stack or []:
        mod_fn = fr.rsplit(":", 1)[0]
        if not mod_fn.startswith(("utils.", "c06_worker.")):      # the counting stream of the worker is not the reader
            return mod_fn
    return (stack[0].rsplit(":", 1)[0] if stack else "unknown")


class Pool:
    def __init__(self, n=None, timeout=20.0, export_timeout=20.0, recycle=4000, env=None):
        self.n = n or max(2, min(14, (os.cpu_count() or 4) - 2))
        self.timeout, self.export_timeout, self.recycle = timeout, export_timeout, recycle
        self.env = env or {}
        self._tmp = tempfile.TemporaryDirectory(prefix="verif-c06-")
        self.tmp = self._tmp.name
        self.pyc = os.environ.get("PYTHONPYCACHEPREFIX") or os.path.join(self.tmp, "pyc")
        os.makedirs(self.pyc, exist_ok=True)
        self.slots = [Slot(self, k) for k in range(self.n)]
        self.respawns = 0
        self.hello = None
        self.abort = False        # set by an on_result callback: the remaining items of map() are not run

    def start(self):
        errs = []

        def go(s):
            try:
                s.spawn()
            except Infra as e:
                errs.append(e)
        self.slots[0].spawn()        # fills the byte-code cache of this run; the others then start quickly
        ths = [threading.Thread(target=go, args=(s,)) for s in self.slots[1:]]
        for t in ths:
            t.start()
        for t in ths:
            t.join()
        if errs:
            raise errs[0]
        self.hello = self.slots[0].hello
        return self.hello

    def map(self, items, on_result=None):
        """items: iterable of (id, flags, bytes). -> {id: result}.  `on_result(id, result)` is called under a lock."""
        it = iter(items)
        lock = threading.Lock()
        out = {}
        errs = []
        pending = []      # one look-ahead item that did not fit the previous micro-batch

        def take():
            """next micro-batch: consecutive items, total <= BATCH_BYTES (fits the pipe buffer) and <= BATCH_ITEMS,
            or one single larger item"""
            batch, size = [], 0
            if self.abort:
                return batch
            while len(batch) < BATCH_ITEMS:
                if pending:
                    x = pending.pop()
                else:
                    try:
                        x = next(it)
                    except StopIteration:
                        break
                n = len(x[2]) + 9
                if batch and size + n > BATCH_BYTES:
                    pending.append(x)
                    break
                batch.append(x)
                size += n
                if size > BATCH_BYTES or (x[1] & 6):
                    break
            return batch

        def loop(slot):
            while True:
                with lock:
                    if errs:
                        return
                    try:
                        batch = take()
                    except Exception as e:  # noqa
                        errs.append(e)
                        return
                if not batch:
                    return
                try:
                    rs = slot.run_items(batch)
                except Exception as e:  # noqa
                    with lock:
                        errs.append(e)
                    return
                with lock:
                    out.update(rs)
                    if on_result:
                        for ident, r in rs.items():
                            on_result(ident, r)
        ths = [threading.Thread(target=loop, args=(s,)) for s in self.slots]
        for t in ths:
            t.start()
        for t in ths:
            t.join()
        if errs:
            raise errs[0]
        return out

    def one(self, flags, data, ident=0, timeout=None):
        return self.slots[0].run_item(ident, flags, data, timeout)

    def close(self):
        for s in self.slots:
            s.close()
        try:
            self._tmp.cleanup()
        except Exception:  # noqa
            pass
