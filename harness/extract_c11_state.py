"""C11 - the published model is a FUNCTION of the document: what, in the read path of the compositor, could make a
second `composite()` on the same objects differ from the first. Regenerated on every run from composite/*.py and
api/numpy_io.py -> lean/PsdVerif/Generated/CompState.lean (tied by `compositor_stateless_tied` in Props/C11.lean).

Per function (methods included), with `self` of a method of a class defined in these files counted as call-local
context (a `Compositor` lives for one call):
* stores that outlive the call: assignments / augmented assignments to an attribute or an item of something that is
  NOT a fresh local - a parameter, a module-level name, or a local that merely aliases one (bound to a bare
  name / attribute / item expression rooted there, or to `.setdefault(...)`, `.get(...)`, `getattr(...)`, `vars(...)`,
  `.__dict__` of one); calls of mutating container methods on such expressions; in-place operators on a parameter;
  `global` / `nonlocal`; decorators whose name contains "cache";
* for `paste` (every array the compositor places in a viewport goes through it): what each `return` hands back - a
  local built in the function, or something the caller passed in (aliasing).
A file or function that is missing yields a sentinel entry, never an exception.
"""
from __future__ import annotations

import ast

from core import REPO
from extract import lean_str

SRC = REPO / "src" / "psd_tools"
FILES = ["composite/__init__.py", "composite/blend.py", "composite/effects.py", "composite/vector.py", "api/numpy_io.py"]
MUTATORS = {"append", "extend", "update", "setdefault", "pop", "popitem", "clear", "add", "insert", "remove", "discard",
            "__setitem__", "__delitem__", "sort", "reverse", "fill", "put", "resize", "itemset", "setfield", "setflags"}
ALIAS_CALLS = {"setdefault", "get", "getattr", "vars"}


def _root(e):
    while isinstance(e, (ast.Attribute, ast.Subscript)):
        e = e.value
    return e.id if isinstance(e, ast.Name) else None


def _is_alias_expr(e, aliases):
    """Does evaluating `e` give (part of) an object that existed before the call."""
    if isinstance(e, ast.Name):
        return e.id in aliases
    if isinstance(e, (ast.Attribute, ast.Subscript)):
        return _root(e) in aliases
    if isinstance(e, ast.Call):
        f = e.func
        if isinstance(f, ast.Attribute) and f.attr in ALIAS_CALLS:
            return _is_alias_expr(f.value, aliases)
        if isinstance(f, ast.Name) and f.id in ALIAS_CALLS and e.args:
            return _is_alias_expr(e.args[0], aliases)
    if isinstance(e, ast.IfExp):
        return _is_alias_expr(e.body, aliases) or _is_alias_expr(e.orelse, aliases)
    return False


def _own_nodes(fn):
    """Nodes of the function, nested function / class definitions excluded (they are functions of their own)."""
    todo = list(fn.body)
    while todo:
        n = todo.pop()
        if isinstance(n, (ast.FunctionDef, ast.AsyncFunctionDef, ast.ClassDef, ast.Lambda)):
            continue
        yield n
        todo.extend(ast.iter_child_nodes(n))


def _functions(tree):
    """(qualified name, FunctionDef, is method, enclosing parameter names)"""
    out = []

    def visit(node, scope, in_class, outer):
        for ch in ast.iter_child_nodes(node):
            if isinstance(ch, ast.ClassDef):
                visit(ch, scope + [ch.name], True, outer)
            elif isinstance(ch, (ast.FunctionDef, ast.AsyncFunctionDef)):
                out.append((".".join(scope + [ch.name]), ch, in_class, outer))
                params = {a.arg for a in ch.args.args + ch.args.kwonlyargs + ch.args.posonlyargs}
                visit(ch, scope + [ch.name], False, outer | params)
            elif not isinstance(ch, ast.Lambda):
                visit(ch, scope, in_class, outer)
    visit(tree, [], False, frozenset())
    return out


def read_state():
    stores, paste_returns = [], []
    for rel in FILES:
        f = SRC / rel
        if not f.exists():
            stores.append(f"{rel}: <file absent>")
            continue
        try:
            tree = ast.parse(f.read_text())
        except SyntaxError:
            stores.append(f"{rel}: <unparsable>")
            continue
        module_names = set()
        for st in tree.body:
            for t in (st.targets if isinstance(st, ast.Assign) else [st.target] if isinstance(st, (ast.AnnAssign, ast.AugAssign)) else []):
                if isinstance(t, ast.Name):
                    module_names.add(t.id)
        for qual, fn, is_method, outer in _functions(tree):
            params = {a.arg for a in fn.args.args + fn.args.kwonlyargs + fn.args.posonlyargs}
            if fn.args.vararg:
                params.add(fn.args.vararg.arg)
            if fn.args.kwarg:
                params.add(fn.args.kwarg.arg)
            context = {"self"} if is_method and "self" in params else set()
            aliases = (params | module_names | set(outer)) - context
            nodes = list(_own_nodes(fn))
            # locals that merely alias something older than the call (to a fixed point)
            changed = True
            while changed:
                changed = False
                for n in nodes:
                    if isinstance(n, ast.Assign) and len(n.targets) == 1 and isinstance(n.targets[0], ast.Name):
                        if n.targets[0].id not in aliases and _is_alias_expr(n.value, aliases):
                            aliases.add(n.targets[0].id)
                            changed = True
            # a local rebound to a fresh value first is no alias: keep it simple and conservative (aliases only grow)
            tag = f"{rel}:{qual}"
            for d in fn.decorator_list:
                if "cache" in ast.unparse(d).lower():
                    stores.append(f"{tag}: decorator {ast.unparse(d)}")
            for n in nodes:
                if isinstance(n, (ast.Global, ast.Nonlocal)):
                    stores.append(f"{tag}: {type(n).__name__.lower()} {', '.join(n.names)}")
                targets = []
                if isinstance(n, ast.Assign):
                    targets = n.targets
                elif isinstance(n, (ast.AugAssign, ast.AnnAssign)):
                    targets = [n.target]
                for t in targets:
                    for el in (t.elts if isinstance(t, (ast.Tuple, ast.List)) else [t]):
                        if isinstance(el, (ast.Attribute, ast.Subscript)) and _root(el) in aliases:
                            stores.append(f"{tag}: store {ast.unparse(el)}")
                        elif isinstance(n, ast.AugAssign) and isinstance(el, ast.Name) and el.id in params:
                            stores.append(f"{tag}: in-place {ast.unparse(n.target)} {type(n.op).__name__}= on a parameter")
                if isinstance(n, ast.Call) and isinstance(n.func, ast.Attribute) and n.func.attr in MUTATORS \
                        and _is_alias_expr(n.func.value, aliases):
                    stores.append(f"{tag}: call {ast.unparse(n.func)}(...)")
                if isinstance(n, ast.Call) and isinstance(n.func, ast.Name) and n.func.id in ("setattr", "delattr") and n.args \
                        and _is_alias_expr(n.args[0], aliases):
                    stores.append(f"{tag}: call {ast.unparse(n)[:60]}")
            if rel == "composite/__init__.py" and qual == "paste":
                for n in nodes:
                    if isinstance(n, ast.Return):
                        v = n.value
                        if v is None:
                            paste_returns.append("None")
                        elif _is_alias_expr(v, aliases):
                            paste_returns.append("caller's object: " + ast.unparse(v))
                        elif isinstance(v, ast.Name):
                            paste_returns.append("local " + v.id)
                        else:
                            paste_returns.append("expression " + ast.unparse(v)[:60])
    if not paste_returns:
        paste_returns = ["<paste absent>"]
    return {"stores": sorted(stores), "paste_returns": sorted(paste_returns)}


def gen_comp_state(ctx):
    info = read_state()
    strs = lambda xs: "[" + ",\n  ".join(lean_str(x) for x in xs) + "]"
    src = f"""namespace PsdVerif.Generated.CompState

/-- stores in the read path of the compositor that outlive the call (file:function: what) -/
def stores : List String := {strs(info["stores"])}
/-- what each `return` of `composite.paste` hands back -/
def pasteReturns : List String := {strs(info["paste_returns"])}

end PsdVerif.Generated.CompState
"""
    ctx.write_generated("CompState", src)
    return info
