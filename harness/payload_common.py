"""C01 (payload classes): the payload classes brought into the Lean model vs the real classes.

* `regenerate(ctx)` : rewrites Generated/Payload.lean from the working tree, returns the property module to build
                      (called from the `ctx.prove([...])` list of C01.py)
* `run(ctx)`        : per unit, correspondence (Python `write` vs model `enc` byte for byte incl. the returned count and
                      the object state after the call; Python `read` canonicalised vs model `dec` incl. the cursor;
                      exception classes on truncated / mutated encodings) and the Python-only search oracle, on every
                      instance harvested from the fixtures and on generated boundary instances.

Unit 1  LayerInfoBlock (Lr16 / Lr32): the block payload on its own stream, the typed tagged block
        (`TaggedBlock.read/write` with the payload dispatch restricted to the modelled classes), whole documents whose
        document-level blocks are typed (`pl.enc PSD` / `pl.dec PSD`).

Canonical form: the token stream of lean/Driver/Psd.lean / Driver/Payload.lean (harness/skel.py for the skeleton parts).
"""
from __future__ import annotations

import collections
import contextlib
import copy
import io
import time

import core
import skel
from core import hx, err_class


# ---------------------------------------------------------------------------------------------
# regeneration (before the build)
# ---------------------------------------------------------------------------------------------
def regenerate(ctx):
    import extract_payload
    ctx.extra["payload_generated_tables"] = ctx.regenerate(extract_payload.gen_payload)
    return ["PsdVerif.Props.C01Payload"]


# ---------------------------------------------------------------------------------------------
# running the real code
# ---------------------------------------------------------------------------------------------
def _LM():
    import importlib
    return importlib.import_module("psd_tools.psd.layer_and_mask")


def _TB():
    import importlib
    return importlib.import_module("psd_tools.psd.tagged_blocks")


def py_write(x, **kw):
    try:
        with io.BytesIO() as f:
            n = x.write(f, **kw)
            return ("ok", f.getvalue(), n)
    except RecursionError:
        return ("err", "RecursionError")
    except Exception as e:  # noqa
        return ("err", err_class(e))


def py_read(K, data, pos=0, *args, **kw):
    try:
        with io.BytesIO(data) as f:
            f.seek(pos)
            y = K.read(f, *args, **kw)
            return ("ok", y, f.tell())
    except RecursionError:
        return ("err", "RecursionError")
    except Exception as e:  # noqa
        return ("err", err_class(e))


@contextlib.contextmanager
def only_types(class_names):
    """Parse with the tagged-block registry restricted to the classes of the model (every other payload stays raw
    bytes: what the typed reader of the model returns); image-resource payloads stay raw."""
    import psd_tools.psd.image_resources as IR
    TB = _TB()
    saved_tb, saved_ir = dict(TB.TYPES), dict(IR.TYPES)
    keep = {k: v for k, v in saved_tb.items() if getattr(v, "__name__", "") in class_names}
    TB.TYPES.clear()
    TB.TYPES.update(keep)
    IR.TYPES.clear()
    try:
        yield
    finally:
        TB.TYPES.clear()
        TB.TYPES.update(saved_tb)
        IR.TYPES.update(saved_ir)


def _short(s, n=600):
    s = str(s)
    return s if len(s) <= n else s[:n] + "…(%d chars)" % len(s)


def mutations(rng, b: bytes, n: int, offsets=()):
    """truncations and structural overwrites of an encoding: (how, bytes)"""
    out = []
    if not b:
        return [("empty", b)]
    for _ in range(n):
        r = rng.random()
        if r < 0.4:
            cut = rng.choice(list(offsets)) if offsets and rng.random() < 0.5 else rng.randrange(0, len(b))
            out.append(("truncate", b[:max(0, min(cut, len(b) - 1))]))
        elif r < 0.7 and len(b) >= 4:
            i = rng.choice(list(offsets)) if offsets and rng.random() < 0.5 else rng.randrange(0, len(b) - 3)
            i = max(0, min(i, len(b) - 4))
            w = rng.choice([b"\xff\xff\xff\xff", b"\x00\x00\x00\x00", b"\x00\x00\x00\x01", b"\x00\x00\x00\x05", b"\x7f\xff\xff\xff",
                            b"8BIM", b"8B64", b"XXXX", b"\x00\x02\x00\x00", b"\xff\xfe\x00\x03"])
            out.append(("word", b[:i] + w + b[i + 4:]))
        elif r < 0.9:
            i = rng.randrange(len(b))
            out.append(("byte", b[:i] + bytes([rng.randrange(256)]) + b[i + 1:]))
        else:
            i = rng.randrange(len(b))
            out.append(("delete", b[:i] + b[i + rng.choice([1, 2, 4]):]))
    return out


# ---------------------------------------------------------------------------------------------
# unit 1: LayerInfoBlock
# ---------------------------------------------------------------------------------------------
UNIT1_CLASSES = ["LayerInfoBlock"]
LI_KNOWN = "C01/none-vs-empty/layer-info-block-count0"


def li_tokens(x, version):
    """LayerInfoBlock -> tokens (names inside Lr16/Lr32 are always MacRoman: `encoding` is not forwarded)"""
    return skel.tokens(skel.t_layerinfo(x, "macroman", version))


def t_payload(data, version, padding):
    LM = _LM()
    if isinstance(data, LM.LayerInfoBlock):
        return ["1", *skel.t_layerinfo(data, "macroman", version)]
    if isinstance(data, (bytes, bytearray)):
        return ["0", hx(data)]
    raise skel.NotSkeleton("payload of class %s is not in the typed model" % type(data).__name__)


def t_tblock(t, version, padding):
    return [skel._b(t.signature), skel._b(skel.keyv(t.key)), *t_payload(t.data, version, padding)]


def t_deep_psd(p, encoding):
    v = p.header.version
    lam = p.layer_and_mask_information
    return [*skel.t_header(p.header), skel._b(p.color_mode_data.value), *skel.t_resources(p.image_resources, encoding),
            *skel._opt(lam.layer_info, lambda li: skel.t_layerinfo(li, encoding, v)),
            *skel._opt(lam.global_layer_mask_info, skel.t_glm),
            *skel._opt(lam.tagged_blocks, lambda tbs: skel._list(skel.tagged_items(tbs), lambda t: t_tblock(t, v, 4))),
            *skel.t_image(p.image_data)]


def li_excluded(x):
    """which WF clause of LayerInfoBlock.WF a Python instance violates, decided on the Python side"""
    rs, cs = x.layer_records, x.channel_image_data
    if rs is None or cs is None:
        return "none-list" if x.layer_count == 0 else "records-missing"
    if abs(x.layer_count) != len(rs):
        return "count-differs-from-records"
    if len(rs) != len(cs) or any(len(r.channel_info) != len(c) for r, c in zip(rs, cs)):
        return "shapes-differ"
    return None


def strip_nested_block_keys(li):
    """record-level blocks under the Lr16/Lr32 keys stay skeleton blocks in the model (the format puts those keys at
    document level only): generated records do not use them"""
    if li.layer_records:
        for r in li.layer_records:
            for k in [k for k in r.tagged_blocks if skel.keyv(k) in (b"Lr16", b"Lr32")]:
                del r.tagged_blocks[k]
    return li


def as_block(li):
    LM = _LM()
    return LM.LayerInfoBlock(li.layer_count, li.layer_records, li.channel_image_data)


def unit1_generated(g, rng, quick):
    """(origin, instance, forced-reason-or-None)"""
    LM = _LM()
    out = []
    n = 40 if quick else 1500
    for i in range(n):
        v = 1 + i % 2
        li = strip_nested_block_keys(g.layer_info(v, "macroman", n=[1, 1, 2, 3, 5, 0][i % 6] or None, typed=False))
        if li.layer_count == 0:
            li = LM.LayerInfo(0, LM.LayerRecords([]), LM.ChannelImageData([]))
        out.append(("generated", as_block(li), None))
    # boundary instances
    out.append(("boundary", LM.LayerInfoBlock(), "none-list"))                                   # the (F) point
    out.append(("boundary", LM.LayerInfoBlock(0, LM.LayerRecords([]), None), "none-list"))
    out.append(("boundary", LM.LayerInfoBlock(0, None, LM.ChannelImageData([])), "none-list"))
    out.append(("boundary", LM.LayerInfoBlock(0, LM.LayerRecords([]), LM.ChannelImageData([])), None))
    for cnt in (1, -1, 32767, -32768):
        li = strip_nested_block_keys(g.layer_info(1, "macroman", n=1, typed=False))
        b = as_block(li)
        b.layer_count = cnt
        out.append(("boundary", b, None if abs(cnt) == 1 else "count-differs-from-records"))
    b = as_block(strip_nested_block_keys(g.layer_info(2, "macroman", n=2, typed=False)))
    b.layer_count = 0                                                                            # count 0 with records
    out.append(("boundary", b, "count-differs-from-records"))
    b = as_block(strip_nested_block_keys(g.layer_info(1, "macroman", n=2, typed=False)))
    b.channel_image_data = LM.ChannelImageData(list(b.channel_image_data)[:1])                   # one channel list missing
    out.append(("boundary", b, "shapes-differ"))
    b = as_block(strip_nested_block_keys(g.layer_info(1, "macroman", n=1, nch=3, typed=False)))
    b.channel_image_data = LM.ChannelImageData([LM.ChannelDataList(list(b.channel_image_data[0])[:2])])
    out.append(("boundary", b, "shapes-differ"))
    b = as_block(strip_nested_block_keys(g.layer_info(1, "macroman", n=1, nch=0, typed=False)))  # a record without channels
    out.append(("boundary", b, None))
    for kind in ("plain", "real", "params", "real+params"):
        b = as_block(strip_nested_block_keys(g.layer_info(2, "macroman", n=1, typed=False, mask=kind)))
        out.append(("boundary", b, None))
    # widths exceeded: the writer must reject
    b = as_block(strip_nested_block_keys(g.layer_info(1, "macroman", n=1, typed=False)))
    b.layer_count = 32768
    out.append(("breaking", b, "count-differs-from-records"))
    b = as_block(strip_nested_block_keys(g.layer_info(1, "macroman", n=1, typed=False)))
    b.layer_records[0].opacity = 256
    out.append(("breaking", b, "breaking"))
    b = as_block(strip_nested_block_keys(g.layer_info(2, "macroman", n=2, typed=False)))
    b.layer_records[1].top = 2 ** 31
    out.append(("breaking", b, "breaking"))
    return out


def harvest_blocks(files):
    """every LayerInfoBlock of the fixtures with the version of its document; documents that hold one"""
    import codec_common as cc
    LM = _LM()
    blocks, docs, nested_keys = [], [], 0
    for f in files:
        b = f.read_bytes()
        r = cc.read_doc(b)
        if r[0] != "ok":
            continue
        lam = r[1].layer_and_mask_information
        found = False
        for tbs in ([lam.tagged_blocks] if lam.tagged_blocks else []):
            for k in tbs:
                if isinstance(tbs[k].data, LM.LayerInfoBlock):
                    blocks.append((f.name, tbs[k].data, r[1].header.version))
                    found = True
                    for rec in tbs[k].data.layer_records or []:
                        nested_keys += sum(1 for kk in rec.tagged_blocks if skel.keyv(kk) in (b"Lr16", b"Lr32"))
        if lam.layer_info and lam.layer_info.layer_records:
            for rec in lam.layer_info.layer_records:
                nested_keys += sum(1 for kk in rec.tagged_blocks if skel.keyv(kk) in (b"Lr16", b"Lr32"))
        if found:
            docs.append((f, b))
    return blocks, docs, nested_keys


def unit1(ctx, g, seen_cls, fail_cls):
    import codec_common as cc
    LM, TB = _LM(), _TB()
    rng, quick = ctx.rng, ctx.quick
    files = cc.fixtures()
    blocks, docs, nested_keys = harvest_blocks(files)
    ctx.hist("payload_unit1_harvest", "LayerInfoBlock_instances_in_fixtures", len(blocks))
    ctx.hist("payload_unit1_harvest", "documents_with_Lr16_Lr32", len(docs))
    ctx.hist("payload_unit1_harvest", "record_level_blocks_under_Lr16_Lr32_keys", nested_keys)

    # ------------------------------------------------------------ (a) the block payload on its own stream
    cases = []                       # [origin, instance, version, pad, reason]
    for name, x, v in blocks:
        if quick and sum(len(c.data) for cl in x.channel_image_data for c in cl) > 30000:
            continue
        for pad in (1, 4):
            cases.append(["fixture", copy.deepcopy(x), v, pad, None])
    for i, (origin, x, why) in enumerate(unit1_generated(g, rng, quick)):
        v = 1 + (i % 2)
        cases.append([origin, x, v, [1, 4, 2][i % 3], why])
    live, reqs = [], []
    for c in cases:
        origin, x, v, pad, why = c
        try:
            before = li_tokens(x, v)
        except skel.NotSkeleton as e:
            ctx.hist("payload_not_representable", "LayerInfoBlock: " + str(e)[:60])
            continue
        except Exception as e:  # a nested payload that cannot be written
            ctx.hist("payload_not_representable", "LayerInfoBlock: nested payload write failed: " + type(e).__name__)
            continue
        w = py_write(x, version=v, padding=pad)
        after = li_tokens(x, v) if w[0] == "ok" else None
        live.append(c + [before, w, after])
        reqs.append(("pl.enc", "LayerInfoBlock", v, pad, before))
    dec_reqs, dec_cases = [], []
    for c, a in zip(live, cc.pbatch(reqs)):
        origin, x, v, pad, why, before, w, after = c
        ctx.corr_cases += 1
        ctx.count(("pl-li-enc", v, pad, before[:3000]), nontrivial=True)
        ctx.hist("payload_class_x_origin", f"LayerInfoBlock/{origin}")
        seen_cls["LayerInfoBlock"] += 1
        if w[0] == "ok":
            if a[0] != "ok" or a[1] != hx(w[1]):
                ctx.disagree("LayerInfoBlock: write() bytes != model enc", {"value": _short(before), "version": v, "padding": pad,
                                                                           "model": a[:1], "py_len": len(w[1])})
            elif int(a[2]) != w[2]:
                ctx.disagree("LayerInfoBlock: count returned by write != model count", {"value": _short(before), "py": w[2], "model": a[2]})
            elif a[4] != after:
                ctx.disagree("LayerInfoBlock: object state after write (channel lengths) != model blockRefresh", {"value": _short(before)})
            iswf = a[0] == "ok" and a[3] == "1"
            harness_wf = li_excluded(x) is None
            if a[0] == "ok" and iswf != harness_wf:
                ctx.disagree("LayerInfoBlock: model WF disagrees with the harness's reading of the clauses",
                             {"value": _short(before), "model_wf": iswf, "harness": li_excluded(x)})
            pre = bytes(rng.randrange(256) for _ in range(rng.choice([0, 0, 1, 3])))
            post = bytes(rng.randrange(256) for _ in range(rng.choice([0, 0, 2, 9])))
            dec_cases.append(c + [iswf, pre, post])
            dec_reqs.append(("pl.dec", "LayerInfoBlock", v, pad, hx(pre + w[1] + post), len(pre)))
        else:
            ctx.hist("payload_writer_rejects", f"LayerInfoBlock:{w[1]}")
            if a[0] != "err" or a[1] != w[1]:
                ctx.disagree("LayerInfoBlock: exception class of write != model enc", {"value": _short(before), "py": w[1], "model": a[:2]})
    for c, a in zip(dec_cases, cc.pbatch(dec_reqs)):
        origin, x, v, pad, why, before, w, after, iswf, pre, post = c
        ctx.corr_cases += 1
        with skel.raw_payloads():
            r = py_read(LM.LayerInfoBlock, pre + w[1] + post, len(pre), version=v)
        if r[0] == "ok":
            rt = li_tokens(r[1], v)
            if a[0] != "ok" or a[1] != rt or int(a[2]) != r[2]:
                ctx.disagree("LayerInfoBlock: read() structure / cursor != model dec",
                             {"value": _short(before), "py": _short(rt), "model": _short(a[1]) if len(a) > 1 else a,
                              "py_pos": r[2], "model_pos": a[2] if len(a) > 2 else None})
        else:
            ctx.hist("payload_reader_rejects_own_output", f"LayerInfoBlock:{r[1]}")
            if a[0] != "err" or a[1] != r[1]:
                ctx.disagree("LayerInfoBlock: exception class of read != model dec", {"value": _short(before), "py": r[1], "model": a[:2]})
        # ---- the property itself on the real code (Python only): equal structure (as the writer left it), identical re-write
        ctx.count(("pl-li-oracle", v, pad, before[:3000]), nontrivial=True)
        with skel.raw_payloads():
            r0 = py_read(LM.LayerInfoBlock, w[1], 0, version=v)
        ok, obs = False, None
        if r0[0] == "ok":
            rt0 = li_tokens(r0[1], v)
            w2 = py_write(r0[1], version=v, padding=pad)
            same = rt0 == after
            ok = same and w2[0] == "ok" and w2[1] == w[1]
            obs = {"reread_equal": same, "rewrite_identical": w2[0] == "ok" and w2[1] == w[1], "reread": _short(rt0)}
        else:
            obs = {"read": r0[1]}
        reason = li_excluded(x)
        if ok:
            ctx.hist("payload_oracle", "LayerInfoBlock: round-trips" if reason is None else "LayerInfoBlock: excluded-by-WF-but-round-trips")
        elif reason == "none-list":
            ctx.hist("payload_oracle", "LayerInfoBlock: (F) none-vs-empty")
            ctx.fail(LI_KNOWN, "LayerInfoBlock with layer_count 0 and None in place of a list is re-read with empty lists",
                     {"class": "psd_tools.psd.layer_and_mask.LayerInfoBlock", "kwargs": {"version": v}, "bytes": hx(w[1]),
                      "repr": _short(before)}, obs, "equal structure")
        elif reason is not None:
            ctx.hist("payload_oracle", "LayerInfoBlock: excluded-by-WF:" + reason)
        else:
            fail_cls["LayerInfoBlock"] += 1
            kind = "read-raises" if r0[0] != "ok" else ("reread-differs" if not obs["reread_equal"] else "rewrite-differs")
            ctx.fail(f"C01/payload/LayerInfoBlock/{kind}", f"LayerInfoBlock does not survive write -> read ({origin} instance)",
                     {"class": "psd_tools.psd.layer_and_mask.LayerInfoBlock", "kwargs": {"version": v}, "bytes": hx(w[1]),
                      "repr": _short(before, 1500)}, obs, "equal structure (token form, as the writer left it) and identical re-write")
    if live:
        ctx.sample({"LayerInfoBlock": _short(live[0][5], 300), "version": live[0][2], "padding": live[0][3]})

    # ------------------------------------------------------------ (b) error paths of the block reader
    pool = [c for c in dec_cases if len(c[6][1]) <= 4000]
    rng.shuffle(pool)
    pool = pool[: (40 if quick else 1500)]
    mreqs, mexp = [], []
    for c in pool:
        b, v = c[6][1], c[2]
        for how, bb in mutations(rng, b, 5 if quick else 10, offsets=(0, 1, 2, 3, 18, 19, 20, 22, 34)):
            with skel.raw_payloads():
                r = py_read(LM.LayerInfoBlock, bb, 0, version=v)
            mreqs.append(("pl.dec", "LayerInfoBlock", v, 1, hx(bb), 0))
            mexp.append((how, bb, v, r))
    for (how, bb, v, r), a in zip(mexp, cc.pbatch(mreqs)):
        ctx.corr_cases += 1
        ctx.count(("pl-li-mut", v, bb), nontrivial=True)
        ctx.hist("payload_mutation_outcome", f"LayerInfoBlock/{how}:{r[1] if r[0] == 'err' else 'accepted'}")
        if r[0] == "ok":
            try:
                rt = li_tokens(r[1], v)
            except skel.NotSkeleton as e:
                ctx.hist("payload_not_representable", "LayerInfoBlock (mutated): " + str(e)[:60])
                continue
            if a[0] != "ok" or a[1] != rt or int(a[2]) != r[2]:
                ctx.disagree("LayerInfoBlock (mutated bytes): read() structure / cursor != model dec",
                             {"bytes": hx(bb)[:400], "version": v, "py": _short(rt), "model": _short(a[1]) if len(a) > 1 else a})
        elif a[0] != "err" or a[1] != r[1]:
            ctx.disagree("LayerInfoBlock (mutated bytes): exception class of read != model dec",
                         {"bytes": hx(bb)[:400], "version": v, "py": r[1], "model": a[:2], "mutation": how})

    # ------------------------------------------------------------ (c) the typed tagged block
    tcases = []
    for c in dec_cases:
        origin, x, v, pad_, why, before, w, after, iswf, pre, post = c
        if why == "breaking" or (quick and origin == "fixture" and len(w[1]) > 30000):
            continue
        key = [b"Lr16", b"Lr32"][len(tcases) % 2]
        sig = [b"8BIM", b"8B64"][(len(tcases) // 2) % 2]
        tcases.append((origin, TB.TaggedBlock(signature=sig, key=TB.Tag(key), data=copy.deepcopy(x)), v, [4, 1, 2][len(tcases) % 3],
                       li_excluded(x)))
    if quick:
        tcases = tcases[:: max(1, len(tcases) // 60)]
    # raw payloads under other keys, and the class/key mismatch the WF excludes
    tcases.append(("boundary", TB.TaggedBlock(key=b"abcd", data=b"\x01\x02\x03"), 1, 4, None))
    tcases.append(("boundary", TB.TaggedBlock(key=TB.Tag(b"lnk2"), signature=b"8B64", data=b"\x01\x02\x03\x04\x05"), 2, 4, None))
    tcases.append(("boundary", TB.TaggedBlock(key=TB.Tag(b"Lr16"), data=b"\x00\x00"), 1, 4, "raw-bytes-under-a-typed-key"))
    tcases.append(("boundary", TB.TaggedBlock(key=b"abcd", data=LM.LayerInfoBlock(0, LM.LayerRecords([]), LM.ChannelImageData([]))), 1, 4,
                   "typed-payload-under-an-untyped-key"))
    tlive, treqs = [], []
    for origin, t, v, pad, why in tcases:
        try:
            before = skel.tokens(t_tblock(t, v, pad))
        except Exception as e:  # noqa
            ctx.hist("payload_not_representable", "TaggedBlock: " + type(e).__name__)
            continue
        w = py_write(t, version=v, padding=pad)
        after = skel.tokens(t_tblock(t, v, pad)) if w[0] == "ok" else None
        tlive.append((origin, t, v, pad, why, before, w, after))
        treqs.append(("pl.enc", "TaggedBlock", v, pad, before))
    tdreq, tdlive = [], []
    for c, a in zip(tlive, cc.pbatch(treqs)):
        origin, t, v, pad, why, before, w, after = c
        ctx.corr_cases += 1
        ctx.count(("pl-tb-enc", v, pad, before[:3000]), nontrivial=True)
        ctx.hist("payload_class_x_origin", f"TaggedBlock[typed]/{origin}")
        if w[0] == "ok":
            if a[0] != "ok" or a[1] != hx(w[1]) or int(a[2]) != w[2] or a[4] != after:
                ctx.disagree("typed TaggedBlock: bytes / count / state after write != model", {"value": _short(before), "version": v,
                                                                                            "padding": pad, "model": a[:1]})
            iswf = a[0] == "ok" and a[3] == "1"
            if a[0] == "ok" and iswf != (why is None):
                ctx.disagree("typed TaggedBlock: model WF disagrees with the harness's reading of the clauses",
                             {"value": _short(before), "model_wf": iswf, "harness": why})
            pre = bytes(rng.randrange(256) for _ in range(rng.choice([0, 2])))
            post = bytes(rng.randrange(256) for _ in range(rng.choice([0, 0, 5, 12])))
            tdreq.append(("pl.dec", "TaggedBlock", v, pad, hx(pre + w[1] + post), len(pre)))
            tdlive.append(c + (iswf, pre, post))
        else:
            ctx.hist("payload_writer_rejects", f"TaggedBlock[typed]:{w[1]}")
            if a[0] != "err" or a[1] != w[1]:
                ctx.disagree("typed TaggedBlock: exception class of write != model", {"value": _short(before), "py": w[1], "model": a[:2]})
    for c, a in zip(tdlive, cc.pbatch(tdreq)):
        origin, t, v, pad, why, before, w, after, iswf, pre, post = c
        ctx.corr_cases += 1
        with only_types(UNIT1_CLASSES):
            r = py_read(TB.TaggedBlock, pre + w[1] + post, len(pre), v, pad)
        if r[0] == "ok":
            rt = skel.tokens(["1", *t_tblock(r[1], v, pad)]) if r[1] is not None else "0"
            if a[0] != "ok" or a[1] != rt or int(a[2]) != r[2]:
                ctx.disagree("typed TaggedBlock: read() structure / cursor != model dec",
                             {"value": _short(before), "py": _short(rt), "model": _short(a[1]) if len(a) > 1 else a})
            if iswf and rt != "1 " + after:
                fail_cls["LayerInfoBlock"] += 1
                ctx.fail("C01/payload/TaggedBlock-LayerInfoBlock/reread-differs",
                         "a tagged block holding a LayerInfoBlock does not survive write -> read",
                         {"class": "psd_tools.psd.tagged_blocks.TaggedBlock", "kwargs": {"version": v, "padding": pad},
                          "bytes": hx(w[1]), "repr": _short(before, 1500)}, {"reread": _short(rt)}, "equal structure")
        else:
            if a[0] != "err" or a[1] != r[1]:
                ctx.disagree("typed TaggedBlock: exception class of read != model dec", {"value": _short(before), "py": r[1], "model": a[:2]})
    # truncated typed blocks (the length block, then the payload reader)
    mreqs, mexp = [], []
    for c in tdlive[: (25 if quick else 600)]:
        origin, t, v, pad, why, before, w, after, iswf, pre, post = c
        if len(w[1]) > 4000:
            continue
        for how, bb in mutations(rng, w[1], 4 if quick else 8, offsets=(0, 3, 4, 8, 11, 12, 14, 16)):
            with only_types(UNIT1_CLASSES):
                r = py_read(TB.TaggedBlock, bb, 0, v, pad)
            mreqs.append(("pl.dec", "TaggedBlock", v, pad, hx(bb), 0))
            mexp.append((how, bb, v, pad, r))
    for (how, bb, v, pad, r), a in zip(mexp, cc.pbatch(mreqs)):
        ctx.corr_cases += 1
        ctx.count(("pl-tb-mut", v, pad, bb), nontrivial=True)
        ctx.hist("payload_mutation_outcome", f"TaggedBlock[typed]/{how}:{r[1] if r[0] == 'err' else 'accepted'}")
        if r[0] == "ok":
            try:
                rt = skel.tokens(["1", *t_tblock(r[1], v, pad)]) if r[1] is not None else "0"
            except skel.NotSkeleton:
                continue
            if a[0] != "ok" or a[1] != rt or int(a[2]) != r[2]:
                ctx.disagree("typed TaggedBlock (mutated bytes): structure / cursor != model dec", {"bytes": hx(bb)[:400], "model": a[:1]})
        elif a[0] != "err" or a[1] != r[1]:
            ctx.disagree("typed TaggedBlock (mutated bytes): exception class != model dec",
                         {"bytes": hx(bb)[:400], "py": r[1], "model": a[:2], "mutation": how, "version": v, "padding": pad})

    # ------------------------------------------------------------ (d) whole documents with typed document-level blocks
    dcases = []                                 # (origin, doc, encoding, pad, forced)
    for f, b in docs:
        if quick and len(b) > 30000:
            continue
        r = cc.read_doc(b)
        if r[0] == "ok":
            with only_types(UNIT1_CLASSES):
                rr = cc.read_doc(b)
            if rr[0] == "ok":
                for pad in ((4,) if quick else (1, 2, 4)):
                    dcases.append(("fixture:" + f.name, copy.deepcopy(rr[1]), "macroman", pad, None))
    for i in range(16 if quick else 500):
        v = 1 + i % 2
        doc, enc, _ = g.document(version=v, typed=False)
        lam = doc.layer_and_mask_information
        if lam.layer_info is None or lam.tagged_blocks is None:
            doc.layer_and_mask_information = lam = LM.LayerAndMaskInformation(LM.LayerInfo(), g.glm(), TB.TaggedBlocks())
        if lam.global_layer_mask_info is None:
            lam.global_layer_mask_info = g.glm()
        if i % 3 != 2:
            lam.layer_info = LM.LayerInfo()                      # the shape of a 16/32-bit file: all layers in the block
        else:
            strip_nested_block_keys(lam.layer_info)
        for k in [k for k in lam.tagged_blocks if skel.keyv(k) in (b"Lr16", b"Lr32")]:
            del lam.tagged_blocks[k]
        nested = strip_nested_block_keys(g.layer_info(v, "macroman", n=[1, 2, 3, 0][i % 4] or None, typed=False))
        if nested.layer_count == 0:
            nested = LM.LayerInfo(0, LM.LayerRecords([]), LM.ChannelImageData([]))
        key = TB.Tag([b"Lr16", b"Lr32"][i % 2])
        items = list(lam.tagged_blocks.items())
        items.insert(rng.randrange(len(items) + 1), (key, TB.TaggedBlock(signature=[b"8BIM", b"8B64"][(i // 2) % 2], key=key,
                                                                        data=as_block(nested))))
        lam.tagged_blocks = TB.TaggedBlocks(items)
        forced = None
        if i % 8 == 7:
            lam.tagged_blocks[key].data = LM.LayerInfoBlock()    # the (F) point inside a document
            forced = LI_KNOWN
        dcases.append(("generated", doc, enc, [1, 2, 4][i % 3], forced))
    dlive, dreqs = [], []
    for origin, doc, enc, pad, forced in dcases:
        try:
            before = skel.tokens(t_deep_psd(doc, enc))
        except skel.NotSkeleton as e:
            ctx.hist("payload_not_representable", "deep document: " + str(e)[:60])
            continue
        except Exception as e:  # noqa
            ctx.hist("payload_not_representable", "deep document: payload write failed: " + type(e).__name__)
            continue
        w = cc.write_doc(doc, enc, pad)
        after = skel.tokens(t_deep_psd(doc, enc)) if w[0] == "ok" else None
        dlive.append((origin, doc, enc, pad, forced, before, w, after))
        dreqs.append(("pl.enc", "PSD", 0, pad, before))
    ddreq, ddlive = [], []
    for c, a in zip(dlive, cc.pbatch(dreqs)):
        origin, doc, enc, pad, forced, before, w, after = c
        ctx.corr_cases += 1
        ctx.count(("pl-doc-enc", pad, before[:4000]), nontrivial=True)
        ctx.hist("payload_class_x_origin", "PSD[deep]/" + origin.split(":")[0])
        if w[0] == "ok":
            if a[0] != "ok" or a[1] != hx(w[1]) or int(a[2]) != w[2]:
                ctx.disagree("deep document: PSD.write bytes / count != model enc", {"doc": _short(before, 2000), "pad": pad, "model": a[:1],
                                                                                    "origin": origin})
            elif a[4] != after:
                ctx.disagree("deep document: object state after write != model refresh", {"doc": _short(before, 2000), "origin": origin})
            iswf = a[0] == "ok" and a[3] == "1"
            if origin == "generated" and a[0] == "ok" and iswf != (forced is None):
                ctx.disagree("deep document: model WF disagrees with the generator's construction",
                             {"doc": _short(before, 2000), "model_wf": iswf, "forced": forced})
            ddreq.append(("pl.dec", "PSD", 0, pad, hx(w[1]), 0))
            ddlive.append(c + (iswf,))
        else:
            ctx.hist("payload_writer_rejects", f"PSD[deep]:{w[1]}")
            if a[0] != "err" or a[1] != w[1]:
                ctx.disagree("deep document: exception class of PSD.write != model", {"py": w[1], "model": a[:2], "origin": origin})
    for c, a in zip(ddlive, cc.pbatch(ddreq)):
        origin, doc, enc, pad, forced, before, w, after, iswf = c
        ctx.corr_cases += 1
        with only_types(UNIT1_CLASSES):
            r = cc.read_doc(w[1], enc)
        ok, obs = False, None
        if r[0] == "ok":
            try:
                rt = skel.tokens(t_deep_psd(r[1], enc))
            except skel.NotSkeleton as e:
                ctx.disagree("deep document: re-read document is not representable", {"why": str(e), "origin": origin})
                continue
            if a[0] != "ok" or a[1] != rt or int(a[2]) != r[2]:
                ctx.disagree("deep document: PSD.read structure / cursor != model dec", {"doc": _short(before, 2000), "model": a[:1],
                                                                                        "origin": origin})
            w2 = cc.write_doc(r[1], enc, pad)
            same = rt == after
            ok = same and w2[0] == "ok" and w2[1] == w[1]
            obs = {"reread_equal": same, "rewrite_identical": w2[0] == "ok" and w2[1] == w[1]}
        else:
            ctx.hist("payload_reader_rejects_own_output", f"PSD[deep]:{r[1]}")
            if a[0] != "err" or a[1] != r[1]:
                ctx.disagree("deep document: exception class of PSD.read != model dec", {"py": r[1], "model": a[:2], "origin": origin})
            obs = {"read": r[1]}
        ctx.count(("pl-doc-oracle", pad, before[:4000]), nontrivial=True)
        if ok:
            ctx.hist("payload_oracle", "PSD[deep]: round-trips" if iswf else "PSD[deep]: not-WF-but-round-trips")
        elif forced:
            ctx.hist("payload_oracle", "PSD[deep]: (F) none-vs-empty")
            ctx.fail(forced, "a document whose Lr16/Lr32 block holds LayerInfoBlock() is re-read with empty lists in the block",
                     {"doc": _short(before, 3000), "encoding": enc, "padding": pad, "file": hx(w[1])}, obs, "equal structure")
        elif iswf:
            fail_cls["LayerInfoBlock"] += 1
            ctx.fail("C01/payload/deep-document/not-round-trip",
                     f"a document whose layers live in Lr16/Lr32 does not survive write -> read ({origin})",
                     {"doc": _short(before, 3000), "encoding": enc, "padding": pad, "file": hx(w[1])}, obs,
                     "PSD.read(PSD.write(d)) == d (token form, as the writer left it) and identical re-write")
        else:
            ctx.hist("payload_oracle", "PSD[deep]: excluded-by-WF (skeleton clause)")
    ctx.extra["payload_unit1_cases"] = {"blocks": len(live), "block_mutations": len(mexp), "typed_tagged_blocks": len(tlive),
                                        "deep_documents": len(dlive)}

    # ------------------------------------------------------------ witness of Props/C01Payload.lean on the real code
    wb = py_write(LM.LayerInfoBlock(), version=1, padding=4)
    rb = py_read(LM.LayerInfoBlock, wb[1], 0, version=1) if wb[0] == "ok" else ("err", "write:" + str(wb[1]))
    if not (wb[0] == "ok" and wb[1] == b"\x00" * 4 and rb[0] == "ok" and rb[2] == 2 and rb[1].layer_records is not None
            and len(rb[1].layer_records) == 0 and rb[1].channel_image_data is not None and len(rb[1].channel_image_data) == 0):
        ctx.disagree("witness layer_info_block_none_not_roundtrip does not replay on the real code", {"write": wb[:2], "read": rb[:1]})


# ---------------------------------------------------------------------------------------------
# generic engine for the `PCodec` classes (units 2-5)
# ---------------------------------------------------------------------------------------------
class NotRep(Exception):
    """the Python object has no counterpart in the model's value type"""


def bits_of(x) -> int:
    import struct
    if isinstance(x, bool) or not isinstance(x, (int, float)):
        raise NotRep("not a number: %r" % type(x).__name__)
    try:
        return struct.unpack(">Q", struct.pack(">d", x))[0]
    except (OverflowError, struct.error):
        raise NotRep("int too large for a double")


def float_of(bits: int) -> float:
    import struct
    return struct.unpack(">d", struct.pack(">Q", bits))[0]


def t_nat(x):
    if isinstance(x, bool) or not isinstance(x, int):
        if hasattr(x, "value") and isinstance(x.value, int) and not isinstance(x.value, bool):
            x = int(x.value)
        else:
            raise NotRep("not an int: %r" % type(x).__name__)
    if x < 0:
        raise NotRep("negative value in an unsigned field")
    return str(int(x))


def t_int(x):
    if isinstance(x, bool) or not isinstance(x, int):
        raise NotRep("not an int: %r" % type(x).__name__)
    return str(int(x))


def t_bytes(x):
    if not isinstance(x, (bytes, bytearray)):
        raise NotRep("not bytes: %r" % type(x).__name__)
    return hx(bytes(getattr(x, "value", x)))


def t_str(s):
    if not isinstance(s, str):
        raise NotRep("not a str: %r" % type(s).__name__)
    return [str(len(s)), *[str(ord(c)) for c in s]]


def t_opt(x, f):
    return ["0"] if x is None else ["1", *f(x)]


def t_list(xs, f):
    out = [str(len(xs))]
    for x in xs:
        out += f(x)
    return out


def has_pair(s):
    return any(0xD800 <= ord(a) < 0xDC00 and 0xDC00 <= ord(b) < 0xE000 for a, b in zip(s, s[1:]))


class Spec:
    """one modelled class: how to drive the real class and the model"""
    name = None                 # model class name (pl.enc / pl.dec)
    pyname = None               # real class name (default: name)
    at_end = False              # the reader looks at what follows: no bytes are appended after the encoding
    offsets = ()                # structural offsets for truncations / overwrites

    def K(self):
        raise NotImplementedError

    def tokens(self, x) -> str:
        raise NotImplementedError

    def contexts(self):
        """[(version, write padding, read padding-or-None)]"""
        return [(1, 4, None)]

    def write_kw(self, v, pad):
        return {"version": v, "padding": pad}

    def read_kw(self, v, rpad):
        return {"version": v}

    def model_pads(self, pad, rpad):
        """(pad argument of pl.enc, pad argument of pl.dec)"""
        return pad, (pad if rpad is None else rpad)

    def excluded(self, x, pad=None, rpad=None):
        return None

    def known(self, why):
        """signature of the known finding an (F) clause stands for, if `why` names one"""
        return None

    def too_big(self, x, quick):
        """harvested instances the quick tier leaves to the thorough tier"""
        return False

    def instances(self, rng, quick):
        return []


def run_spec(ctx, spec, harvested, seen_cls, fail_cls, excluded_log):
    import codec_common as cc
    rng, quick = ctx.rng, ctx.quick
    K = spec.K()
    nm = spec.name
    cases = [("fixture", x) for x in harvested] + list(spec.instances(rng, quick))
    live, reqs = [], []
    for origin, x in cases:
        for (v, pad, rpad) in spec.contexts():
            try:
                toks = spec.tokens(x)
            except (NotRep, skel.NotSkeleton) as e:
                ctx.hist("payload_not_representable", f"{nm}: {str(e)[:60]}")
                break
            w = py_write(x, **spec.write_kw(v, pad))
            try:
                after = spec.tokens(x) if w[0] == "ok" else None
            except (NotRep, skel.NotSkeleton):
                after = None
            mpad, mrpad = spec.model_pads(pad, rpad)
            live.append([origin, x, v, pad, rpad, toks, w, after, mpad, mrpad])
            reqs.append(("pl.enc", nm, v, mpad, toks))
    dec_reqs, dec_cases = [], []
    for c, a in zip(live, cc.pbatch(reqs)):
        origin, x, v, pad, rpad, toks, w, after, mpad, mrpad = c
        ctx.corr_cases += 1
        ctx.count(("pl-enc", nm, v, pad, toks[:3000]), nontrivial=True)
        ctx.hist("payload_class_x_origin", f"{nm}/{origin}")
        seen_cls[spec.pyname or nm] += 1
        if a and a[0] in ("bad-request", "unknown-class"):
            ctx.disagree(f"{nm}: the model driver rejects the request", {"value": _short(toks), "answer": a[:1]})
            continue
        if w[0] == "ok":
            # a broken correspondence never hides the property: the reader case and the Python-only oracle below run on the
            # bytes the real writer produced whether or not the model agrees with them
            bytes_ok = a[0] == "ok" and a[1] == hx(w[1])
            if not bytes_ok:
                ctx.disagree(f"{nm}: write() bytes != model enc", {"value": _short(toks), "version": v, "padding": pad,
                                                                  "model": a[:2] if a[0] != "ok" else _short(a[1], 200), "py": hx(w[1])[:200]})
            else:
                if int(a[2]) != w[2]:
                    ctx.disagree(f"{nm}: count returned by write != model count", {"value": _short(toks), "py": w[2], "model": a[2]})
                if after != toks:
                    ctx.disagree(f"{nm}: write() changed the object (the model says it does not)", {"value": _short(toks), "after": _short(after)})
            why = spec.excluded(x, pad, rpad)
            iswf = (a[3] == "1") if bytes_ok else (why is None)
            if iswf != (why is None):
                ctx.disagree(f"{nm}: model WF disagrees with the harness's reading of the clauses",
                             {"value": _short(toks), "model_wf": iswf, "harness": why})
            pre = bytes(rng.randrange(256) for _ in range(rng.choice([0, 0, 1, 3])))
            post = b"" if spec.at_end else bytes(rng.randrange(256) for _ in range(rng.choice([0, 0, 2, 9])))
            dec_cases.append(c + [iswf, why, pre, post])
            dec_reqs.append(("pl.dec", nm, v, mrpad, hx(pre + w[1] + post), len(pre)))
        else:
            ctx.hist("payload_writer_rejects", f"{nm}:{w[1]}")
            if a[0] != "err" or a[1] != w[1]:
                ctx.disagree(f"{nm}: exception class of write != model enc", {"value": _short(toks), "py": w[1], "model": a[:2]})
    for c, a in zip(dec_cases, cc.pbatch(dec_reqs)):
        origin, x, v, pad, rpad, toks, w, after, mpad, mrpad, iswf, why, pre, post = c
        ctx.corr_cases += 1
        rkw = spec.read_kw(v, rpad)
        r = py_read(K, pre + w[1] + post, len(pre), **rkw)
        if r[0] == "ok":
            try:
                rt = spec.tokens(r[1])
            except (NotRep, skel.NotSkeleton) as e:
                ctx.disagree(f"{nm}: re-read value is not representable in the model", {"value": _short(toks), "why": str(e)})
                rt = None                      # the Python-only oracle below still runs (it counts this as "re-read differs")
            if rt is not None and (a[0] != "ok" or a[1] != rt or int(a[2]) != r[2]):
                ctx.disagree(f"{nm}: read() structure / cursor != model dec",
                             {"value": _short(toks), "py": _short(rt), "model": _short(a[1]) if len(a) > 1 else a,
                              "py_pos": r[2], "model_pos": a[2] if len(a) > 2 else None, "version": v, "padding": pad})
        else:
            ctx.hist("payload_reader_rejects_own_output", f"{nm}:{r[1]}")
            if a[0] != "err" or a[1] != r[1]:
                ctx.disagree(f"{nm}: exception class of read != model dec", {"value": _short(toks), "py": r[1], "model": a[:2]})
        # ---- the property itself on the real code (Python only)
        ctx.count(("pl-oracle", nm, v, pad, toks[:3000]), nontrivial=True)
        r0 = py_read(K, w[1], 0, **rkw) if (pre or post) else r
        ok, obs = False, None
        if r0[0] == "ok":
            try:
                rt0 = spec.tokens(r0[1])
            except (NotRep, skel.NotSkeleton):
                rt0 = None
            w2 = py_write(r0[1], **spec.write_kw(v, pad))
            same = rt0 == toks
            ok = same and w2[0] == "ok" and w2[1] == w[1]
            obs = {"reread_equal": same, "rewrite_identical": w2[0] == "ok" and w2[1] == w[1], "reread": _short(rt0 or "?")}
        else:
            obs = {"read": r0[1]}
        if ok:
            ctx.hist("payload_oracle", f"{nm}: round-trips" if why is None else f"{nm}: excluded-by-WF-but-round-trips")
        elif why is not None:
            excluded_log[f"{nm}: {why}"] += 1
            ctx.hist("payload_oracle", f"{nm}: excluded-by-WF:{why}")
            if spec.known(why):
                ctx.fail(spec.known(why), f"{spec.pyname or nm}: {why}",
                         {"class": f"{K.__module__}.{K.__name__}", "kwargs": spec.write_kw(v, pad), "bytes": hx(w[1]), "repr": _short(toks, 1500)},
                         obs, "equal structure (token form) and identical second tobytes()")
        else:
            fail_cls[spec.pyname or nm] += 1
            kind = "read-raises" if r0[0] != "ok" else ("reread-differs" if not obs["reread_equal"] else "rewrite-differs")
            ctx.fail(f"C01/payload/{spec.pyname or nm}/{kind}",
                     f"{spec.pyname or nm}.frombytes(x.tobytes()) is not x / does not re-write identically ({origin} instance)",
                     {"class": f"{K.__module__}.{K.__name__}", "kwargs": spec.write_kw(v, pad), "bytes": hx(w[1]), "repr": _short(toks, 1500)},
                     obs, "equal structure (token form) and identical second tobytes()")
    # ---- error paths: truncated / mutated encodings (outcome class; structure and cursor when accepted)
    pool = [c for c in dec_cases if len(c[6][1]) <= 3000]
    rng.shuffle(pool)
    pool = pool[: (12 if quick else 300)]
    mreqs, mexp = [], []
    for c in pool:
        origin, x, v, pad, rpad, toks, w, after, mpad, mrpad = c[:10]
        for how, bb in mutations(rng, w[1], 5 if quick else 10, offsets=spec.offsets):
            r = py_read(K, bb, 0, **spec.read_kw(v, rpad))
            mreqs.append(("pl.dec", nm, v, mrpad, hx(bb), 0))
            mexp.append((how, bb, r))
    for (how, bb, r), a in zip(mexp, cc.pbatch(mreqs)):
        ctx.corr_cases += 1
        ctx.count(("pl-mut", nm, bb), nontrivial=True)
        ctx.hist("payload_mutation_outcome", f"{nm}/{how}:{r[1] if r[0] == 'err' else 'accepted'}")
        if r[0] == "ok":
            try:
                rt = spec.tokens(r[1])
            except (NotRep, skel.NotSkeleton) as e:
                ctx.hist("payload_not_representable", f"{nm} (mutated): {str(e)[:60]}")
                continue
            if a[0] != "ok" or a[1] != rt or int(a[2]) != r[2]:
                ctx.disagree(f"{nm} (mutated bytes): read() structure / cursor != model dec",
                             {"bytes": hx(bb)[:400], "py": _short(rt), "model": _short(a[1]) if len(a) > 1 else a,
                              "py_pos": r[2], "model_pos": a[2] if len(a) > 2 else None})
        elif a[0] != "err" or a[1] != r[1]:
            ctx.disagree(f"{nm} (mutated bytes): exception class of read != model dec",
                         {"bytes": hx(bb)[:400], "py": r[1], "model": a[:2], "mutation": how})
    return len(live), len(mexp)


# ---------------------------------------------------------------------------------------------
# unit 2: fixed-layout payloads
# ---------------------------------------------------------------------------------------------
def _BASE():
    import importlib
    return importlib.import_module("psd_tools.psd.base")


def _C():
    import importlib
    return importlib.import_module("psd_tools.constants")


def _COLOR():
    import importlib
    return importlib.import_module("psd_tools.psd.color")


def color_tokens(c):
    if type(c).__name__ != "Color":
        raise NotRep("not a Color: %r" % type(c).__name__)
    vals = list(c.values)
    return [t_nat(c.id), *t_list(vals, lambda z: [t_int(z)])]


def gen_colors(rng):
    C, Color = _C(), _COLOR().Color
    out = []
    for cid in list(C.ColorSpaceID) + [3, 12345, 65535]:
        lab = int(cid) == int(C.ColorSpaceID.LAB)
        lo, hi = (-32768, 32767) if lab else (0, 65535)
        out.append(Color(cid, [lo, hi, 0, 1]))
        out.append(Color(cid, [rng.randint(lo, hi) for _ in range(4)]))
    return out


class IntLike(Spec):
    def __init__(self, name, getK, width, pyname=None):
        self.name, self._getK, self.width, self.pyname = name, getK, width, pyname
        self.offsets = (0, 1, 2, 3)

    def K(self):
        return self._getK()

    def tokens(self, x):
        return t_nat(x.value)

    def instances(self, rng, quick):
        K, m = self.K(), 256 ** self.width
        vals = [0, 1, m - 2, m - 1, m, m + 5] + [rng.randrange(m) for _ in range(4 if quick else 60)]
        return [("boundary", K(v)) for v in vals]


class BoolSpec(Spec):
    name = "BooleanElement"
    offsets = (0, 1, 3)

    def K(self):
        return _BASE().BooleanElement

    def tokens(self, x):
        if not isinstance(x.value, bool):
            raise NotRep("not a bool")
        return "1" if x.value else "0"

    def instances(self, rng, quick):
        K = self.K()
        return [("boundary", K(True)), ("boundary", K(False)), ("boundary", K(2))]


class NumericSpec(Spec):
    name = "NumericElement"
    offsets = (0, 4, 7)

    def K(self):
        return _BASE().NumericElement

    def tokens(self, x):
        return str(bits_of(x.value))

    def instances(self, rng, quick):
        K = self.K()
        pats = [0, 0x8000000000000000, 0x3FF0000000000000, 0x7FEFFFFFFFFFFFFF, 1, 0x7FF0000000000000, 0xFFF0000000000000,
                0x7FF8000000000000, 0x7FF0000000000001, 0xFFFFFFFFFFFFFFFF] + [rng.randrange(2 ** 64) for _ in range(4 if quick else 80)]
        out = []
        for b in pats:
            x = K(0.0)
            x.value = float_of(b)          # the converter `float` would not keep a signalling NaN pattern apart
            out.append(("boundary", x))
        out.append(("boundary", K(3)))
        return out


class EmptySpec(Spec):
    name = "EmptyElement"

    def K(self):
        return _BASE().EmptyElement

    def tokens(self, x):
        return "0"

    def instances(self, rng, quick):
        return [("boundary", self.K()())]


STRINGS = ["", "a", "ab", "Layer 1", "\u00e9\u3042", "\U0001F600x", "x\U0010FFFF", "\ud800", "\udc00\ud800", "\udbff", "a\x00", "\x00",
           "\uffff\ufffe", "z" * 300]
PAIR_STRINGS = [chr(0xD800) + chr(0xDC00), "a" + chr(0xDBFF) + chr(0xDFFF) + "b"]


class StringSpec(Spec):
    name = "StringElement"
    offsets = (0, 2, 3, 4, 5, 6)

    def K(self):
        return _BASE().StringElement

    def tokens(self, x):
        return " ".join(t_str(x.value))

    def contexts(self):
        # (version, write padding, read padding): as a tagged-block payload (inner padding 1 / 4, read with the default 1)
        # and with the same padding on both sides (image resources)
        return [(1, 1, None), (1, 4, None), (2, 2, 2), (1, 4, 4)]

    def read_kw(self, v, rpad):
        return {"version": v} if rpad is None else {"version": v, "padding": rpad}

    def model_pads(self, pad, rpad):
        return pad, (1 if rpad is None else rpad)

    def excluded(self, x, pad=None, rpad=None):
        return "adjacent-surrogate-pair (C19)" if has_pair(x.value) else None

    def instances(self, rng, quick):
        K = self.K()
        return [("boundary", K(s)) for s in STRINGS + PAIR_STRINGS]


class ColorSpec(Spec):
    name = "Color"
    offsets = (0, 1, 2, 4, 9)

    def K(self):
        return _COLOR().Color

    def tokens(self, x):
        return " ".join(color_tokens(x))

    def instances(self, rng, quick):
        Color, C = self.K(), _C()
        out = [("boundary", c) for c in gen_colors(rng)]
        out += [("breaking", Color(C.ColorSpaceID.RGB, [0, 0, 0])), ("breaking", Color(C.ColorSpaceID.RGB, [0, 0, 0, 0, 0])),
                ("breaking", Color(C.ColorSpaceID.RGB, [-1, 0, 0, 0])), ("breaking", Color(C.ColorSpaceID.LAB, [32768, 0, 0, 0])),
                ("breaking", Color(65536, [0, 0, 0, 0])), ("breaking", Color(C.ColorSpaceID.CMYK, [65536, 0, 0, 0]))]
        return out


class BytesSpec(Spec):
    name = "Bytes"
    at_end = True

    def K(self):
        return _TB().Bytes

    def tokens(self, x):
        return t_bytes(x.value)

    def excluded(self, x, pad=None, rpad=None):
        return "longer-than-four-bytes" if len(x.value) > 4 else None

    def instances(self, rng, quick):
        K = self.K()
        return [("boundary", K(bytes(range(1, n + 1)))) for n in range(0, 7)] + [("boundary", K())]


class SheetColorSpec(Spec):
    name = "SheetColorSetting"
    offsets = (0, 1, 2, 7)

    def K(self):
        return _TB().SheetColorSetting

    def tokens(self, x):
        return t_nat(x.value)

    def instances(self, rng, quick):
        K, C = self.K(), _C()
        return [("boundary", K(m)) for m in C.SheetColorType]


class ReferencePointSpec(Spec):
    name = "ReferencePoint"
    offsets = (0, 7, 8, 15)

    def K(self):
        return _TB().ReferencePoint

    def tokens(self, x):
        return " ".join(t_list(list(x), lambda v: [str(bits_of(v))]))

    def instances(self, rng, quick):
        K = self.K()
        out = [("boundary", K([0.0, -0.0])), ("boundary", K([1.5, float("inf")])), ("boundary", K([float_of(0x7FF8000000000001), 5e-324])),
               ("boundary", K([3, -7])), ("breaking", K([1.0])), ("breaking", K([1.0, 2.0, 3.0])), ("breaking", K([]))]
        for _ in range(3 if quick else 60):
            out.append(("generated", K([float_of(rng.randrange(2 ** 64)), float_of(rng.randrange(2 ** 64))])))
        return out


class DividerSpec(Spec):
    name = "SectionDividerSetting"
    at_end = True
    offsets = (0, 3, 4, 8, 11, 12, 15)

    def K(self):
        return _TB().SectionDividerSetting

    def tokens(self, x):
        bm = x.blend_mode
        if bm is not None and not hasattr(bm, "value"):
            raise NotRep("blend_mode is not a BlendMode member")
        return " ".join([t_nat(x.kind), *t_opt(x.signature, lambda s: [t_bytes(s)]), *t_opt(bm, lambda b: [hx(bytes(b.value))]),
                         *t_opt(x.sub_type, lambda n: [t_nat(n)])])

    def excluded(self, x, pad=None, rpad=None):
        if (x.signature is None) != (x.blend_mode is None):
            return "signature-without-blend-mode-or-reverse"
        if x.signature is None and x.sub_type is not None:
            return "sub-type-without-signature"
        if x.signature is not None and x.signature != b"8BIM":
            return "signature-not-8BIM"
        return None

    def instances(self, rng, quick):
        K, C = self.K(), _C()
        out = []
        for kind in C.SectionDivider:
            out.append(("boundary", K(kind)))
            for bm in (list(C.BlendMode) if (not quick or kind == C.SectionDivider.OPEN_FOLDER) else [C.BlendMode.PASS_THROUGH, C.BlendMode.NORMAL]):
                out.append(("boundary", K(kind, signature=b"8BIM", blend_mode=bm)))
            for st in (0, 1, 2 ** 32 - 1):
                out.append(("boundary", K(kind, signature=b"8BIM", blend_mode=C.BlendMode.NORMAL, sub_type=st)))
        out += [("excluded", K(C.SectionDivider.OPEN_FOLDER, sub_type=5)),
                ("excluded", K(C.SectionDivider.OPEN_FOLDER, signature=b"8BIM")),
                ("excluded", K(C.SectionDivider.OPEN_FOLDER, blend_mode=C.BlendMode.MULTIPLY)),
                ("excluded", K(C.SectionDivider.OPEN_FOLDER, signature=b"8B64", blend_mode=C.BlendMode.MULTIPLY)),
                ("excluded", K(C.SectionDivider.OPEN_FOLDER, signature=b"", blend_mode=C.BlendMode.MULTIPLY, sub_type=1)),
                ("breaking", K(C.SectionDivider.OPEN_FOLDER, signature=b"8BIM", blend_mode=C.BlendMode.NORMAL, sub_type=2 ** 32))]
        return out


class UserMaskSpec(Spec):
    name = "UserMask"
    offsets = (0, 2, 9, 10, 12, 13)

    def K(self):
        return _TB().UserMask

    def tokens(self, x):
        return " ".join([*color_tokens(x.color), t_nat(x.opacity), t_nat(x.flag)])

    def instances(self, rng, quick):
        K = self.K()
        out = []
        for c in gen_colors(rng):
            out.append(("boundary", K(c, rng.choice([0, 1, 65535]), rng.choice([0, 128, 255]))))
        out += [("breaking", K(gen_colors(rng)[0], 65536, 0)), ("breaking", K(gen_colors(rng)[0], 0, 256))]
        return out


class FilterMaskSpec(Spec):
    name = "FilterMask"
    offsets = (0, 2, 9, 10, 11)

    def K(self):
        return _TB().FilterMask

    def tokens(self, x):
        return " ".join([*color_tokens(x.color), t_nat(x.opacity)])

    def instances(self, rng, quick):
        K = self.K()
        out = [("boundary", K(c, rng.choice([0, 1, 65535]))) for c in gen_colors(rng)]
        out.append(("breaking", K(gen_colors(rng)[0], 65536)))
        return out


class CBRSpec(Spec):
    name = "ChannelBlendingRestrictionsSetting"
    at_end = True
    offsets = (0, 3, 4, 5, 7)

    def K(self):
        return _TB().ChannelBlendingRestrictionsSetting

    def tokens(self, x):
        return " ".join(t_list(list(x), lambda n: [t_nat(n)]))

    def instances(self, rng, quick):
        K = self.K()
        return [("boundary", K([])), ("boundary", K([0])), ("boundary", K([2 ** 32 - 1, 0, 1])), ("boundary", K(list(range(56)))),
                ("breaking", K([2 ** 32]))]


class PixelSourceSpec(Spec):
    name = "PixelSourceData2"
    at_end = True
    offsets = (0, 7, 8, 9, 16)

    def K(self):
        return _TB().PixelSourceData2

    def tokens(self, x):
        return " ".join(t_list(list(x), lambda b: [t_bytes(b)]))

    def contexts(self):
        return [(1, 4, None), (2, 1, None), (1, 2, None)]

    def instances(self, rng, quick):
        K = self.K()
        out = [("boundary", K([])), ("boundary", K([b""])), ("boundary", K([b"\x01", b"", b"\x02\x03"]))]
        for _ in range(4 if quick else 60):
            out.append(("generated", K([bytes(rng.randrange(256) for _ in range(rng.choice([0, 1, 2, 3, 4, 5, 7, 8, 9, 30]))) for _ in
                                        range(rng.choice([1, 2, 3, 6]))])))
        return out


def metadata_item_tokens(m):
    import desc_common as dc
    D = dc._D()
    d = m.data
    if isinstance(d, D.DescriptorBlock):
        if dc.block_kind(d) != 1:
            raise NotRep("metadata data is not a plain DescriptorBlock")
        try:
            data = ["2", dc.block_tokens(d, 1)]
        except dc.NotRep as e:
            raise NotRep(str(e))
    elif isinstance(d, bool):
        raise NotRep("metadata data is a bool")
    elif isinstance(d, int):
        data = ["1", t_nat(d)]
    elif isinstance(d, (bytes, bytearray)):
        data = ["0", t_bytes(d)]
    else:
        raise NotRep("metadata data of type %s" % type(d).__name__)
    if not isinstance(m.copy_on_sheet, bool):
        raise NotRep("copy_on_sheet is not a bool")
    return [t_bytes(m.signature), t_bytes(m.key), "1" if m.copy_on_sheet else "0", *data]


def metadata_excluded(m):
    import desc_common as dc
    D = dc._D()
    ints = (b"mdyn", b"sgrp")
    known = _TB().MetadataSetting._KNOWN_KEYS
    d = m.data
    if len(m.key) != 4:
        return "key-not-4-bytes"
    if isinstance(d, D.DescriptorBlock):
        if m.key in ints or m.key not in known:
            return "data-type-does-not-match-key"
        return dc._excluded_reason(d)
    if isinstance(d, int):
        return None if m.key in ints else "data-type-does-not-match-key"
    return "data-type-does-not-match-key" if (m.key in ints or m.key in known) else None


class MetadataSpec(Spec):
    name = "MetadataSettings"
    offsets = (0, 3, 4, 8, 12, 15, 16, 20)

    def K(self):
        return _TB().MetadataSettings

    def tokens(self, x):
        return " ".join(t_list(list(x), metadata_item_tokens))

    def excluded(self, x, pad=None, rpad=None):
        for m in x:
            why = metadata_excluded(m)
            if why:
                return why
        return None

    def instances(self, rng, quick):
        import desc_common as dc
        TB, D = _TB(), dc._D()
        g = dc.Gen(rng)
        K, MS = self.K(), TB.MetadataSetting

        def blk(depth=2):
            body = g.descriptor(depth)
            return D.DescriptorBlock(body._items, name=body.name, classID=body.classID)
        out = [("boundary", K([]))]
        known = sorted(k for k in MS._KNOWN_KEYS if k != b"sgrp")
        out.append(("boundary", K([MS(b"8BIM", k, bool(i % 2), blk()) for i, k in enumerate(known)])))
        out.append(("boundary", K([MS(b"8ELE", b"mdyn", True, 0), MS(b"8BIM", b"sgrp", False, 2 ** 32 - 1), MS(b"8BIM", b"abcd", False, b""),
                                   MS(b"8BIM", b"wxyz", True, b"\x01\x02\x03")])))
        # every kind of item at every position of the list (first, in the middle, last): what follows an item depends on how the
        # item before it ended
        base = [lambda: MS(b"8BIM", b"wxyz", True, b"\x01\x02\x03"), lambda: MS(b"8ELE", b"mdyn", True, 7),
                lambda: MS(b"8BIM", known[0], False, blk(1)), lambda: MS(b"8BIM", b"abcd", False, b"\x09"),
                lambda: MS(b"8BIM", b"pqrs", False, b"\x01\x02\x03\x04\x05\x06")]
        for i in range(len(base)):
            out.append(("boundary", K([f() for f in base[i:] + base[:i]])))
        for _ in range(3 if quick else 80):
            items = []
            for _ in range(rng.choice([1, 2, 4])):
                c = rng.random()
                if c < 0.5:
                    items.append(MS(rng.choice([b"8BIM", b"8ELE"]), rng.choice(known), rng.random() < 0.5, blk(1 + rng.randrange(3))))
                elif c < 0.7:
                    items.append(MS(b"8BIM", rng.choice([b"mdyn", b"sgrp"]), rng.random() < 0.5, rng.choice([0, 1, 2 ** 32 - 1, rng.randrange(2 ** 32)])))
                else:
                    items.append(MS(b"8BIM", bytes(rng.choice(b"pqrsQ012") for _ in range(4)), False, bytes(rng.randrange(256) for _ in range(rng.choice([0, 1, 5, 9])))))
            out.append(("generated", K(items)))
        out += [("excluded", K([MS(b"8BIM", b"cust", False, b"\x01\x02\x03")])),
                ("excluded", K([MS(b"8BIM", b"mdyn", False, b"\x00\x00\x00\x07")])),
                ("excluded", K([MS(b"8BIM", b"abcd", False, 7)])),
                ("excluded", K([MS(b"8BIM", b"abcd", False, blk(1))])),
                ("breaking", K([MS(b"8BIM", b"mdyn", False, 2 ** 32)]))]
        return out


def annotation_tokens(a):
    def ps(s):
        if not isinstance(s, str):
            raise NotRep("pascal string is not a str")
        try:
            return hx(s.encode("macroman"))
        except UnicodeError:
            raise NotRep("pascal string not encodable (C19)")
    return [t_bytes(a.kind), t_nat(a.is_open), t_nat(a.flags), t_nat(a.optional_blocks),
            *t_list(list(a.icon_location), lambda z: [t_int(z)]), *t_list(list(a.popup_location), lambda z: [t_int(z)]),
            *color_tokens(a.color), ps(a.author), ps(a.name), ps(a.mod_date), t_bytes(a.marker), t_bytes(a.data)]


class AnnotationsSpec(Spec):
    name = "Annotations"
    offsets = (0, 2, 4, 7, 8, 11, 12, 16, 20, 52, 62)

    def K(self):
        return _TB().Annotations

    def tokens(self, x):
        return " ".join([t_nat(x.major_version), t_nat(x.minor_version), *t_list(list(x), annotation_tokens)])

    def excluded(self, x, pad=None, rpad=None):
        for a in x:
            if a.kind not in (b"txtA", b"sndM") or a.marker not in (b"txtC", b"sndM"):
                return "kind-or-marker-rejected-by-validator"
        return None

    def instances(self, rng, quick):
        TB = _TB()
        K, A = self.K(), TB.Annotation
        cols = gen_colors(rng)

        def ann(i):
            loc = lambda: [rng.choice([0, -1, 2 ** 31 - 1, -2 ** 31, rng.randrange(-5000, 5000)]) for _ in range(4)]
            return A(kind=[b"txtA", b"sndM"][i % 2], is_open=rng.choice([0, 1, 255]), flags=rng.choice([0, 255]),
                     optional_blocks=rng.choice([0, 1, 65535]), icon_location=loc(), popup_location=loc(), color=rng.choice(cols),
                     author=rng.choice(["", "Jo", "J\u00e9", "x" * 255]), name=rng.choice(["", "n", "abc"]), mod_date=rng.choice(["", "D:2024"]),
                     marker=[b"txtC", b"sndM"][(i // 2) % 2], data=bytes(rng.randrange(256) for _ in range(rng.choice([0, 1, 2, 7, 40]))))
        out = [("boundary", K([])), ("boundary", K([A()])), ("boundary", K([], major_version=65535, minor_version=0))]
        for i in range(6 if quick else 120):
            out.append(("generated", K([ann(i + j) for j in range(rng.choice([1, 2, 3]))], major_version=2, minor_version=1)))
        bad = A()
        bad.kind = b"abcd"
        out += [("excluded", K([bad])), ("breaking", K([A(author="y" * 256)])), ("breaking", K([A(is_open=256)])),
                ("breaking", K([A(icon_location=[0, 0, 0])]))]
        return out


def unit2_specs():
    B = _BASE
    return [
        EmptySpec(), NumericSpec(), IntLike("IntegerElement", lambda: B().IntegerElement, 4),
        IntLike("ProtectedSetting", lambda: _TB().ProtectedSetting, 4), IntLike("ShortIntegerElement", lambda: B().ShortIntegerElement, 2),
        IntLike("ByteElement", lambda: B().ByteElement, 1), BoolSpec(), StringSpec(), ColorSpec(), BytesSpec(), SheetColorSpec(),
        ReferencePointSpec(), DividerSpec(), UserMaskSpec(), FilterMaskSpec(), CBRSpec(), PixelSourceSpec(), MetadataSpec(),
        AnnotationsSpec(),
    ]


UNIT2_CLASSES = ["EmptyElement", "NumericElement", "IntegerElement", "ProtectedSetting", "ShortIntegerElement", "ByteElement",
                 "BooleanElement", "StringElement", "Color", "Bytes", "SheetColorSetting", "ReferencePoint", "SectionDividerSetting",
                 "UserMask", "FilterMask", "ChannelBlendingRestrictionsSetting", "PixelSourceData2", "MetadataSettings",
                 "MetadataSetting", "Annotations", "Annotation"]


# ---------------------------------------------------------------------------------------------
# unit 3: effects_layer.py
# ---------------------------------------------------------------------------------------------
def _E():
    import importlib
    return importlib.import_module("psd_tools.psd.effects_layer")


def bm_token(b):
    if not hasattr(b, "value") or not isinstance(b.value, (bytes, bytearray)):
        raise NotRep("blend mode is not a BlendMode member")
    return hx(bytes(b.value))


def opt_color_tokens(c):
    return t_opt(c, color_tokens)


def glow_body_tokens(x):
    return [t_nat(x.version), t_nat(x.blur), t_nat(x.intensity), *color_tokens(x.color), bm_token(x.blend_mode), t_nat(x.enabled),
            t_nat(x.opacity)]


def effect_tokens(x):
    nm = type(x).__name__
    if nm == "CommonStateInfo":
        return ["0", t_nat(x.version), t_nat(x.visible)]
    if nm == "ShadowInfo":
        return ["1", t_nat(x.version), t_nat(x.blur), t_nat(x.intensity), t_int(x.angle), t_nat(x.distance), *color_tokens(x.color),
                bm_token(x.blend_mode), t_nat(x.enabled), t_nat(x.use_global_angle), t_nat(x.opacity), *color_tokens(x.native_color)]
    if nm == "OuterGlowInfo":
        return ["2", *glow_body_tokens(x), *opt_color_tokens(x.native_color)]
    if nm == "InnerGlowInfo":
        return ["3", *glow_body_tokens(x), *t_opt(x.invert, lambda n: [t_nat(n)]), *opt_color_tokens(x.native_color)]
    if nm == "BevelInfo":
        return ["4", t_nat(x.version), t_int(x.angle), t_nat(x.depth), t_nat(x.blur), bm_token(x.highlight_blend_mode),
                bm_token(x.shadow_blend_mode), *color_tokens(x.highlight_color), *color_tokens(x.shadow_color), t_nat(x.bevel_style),
                t_nat(x.highlight_opacity), t_nat(x.shadow_opacity), t_nat(x.enabled), t_nat(x.use_global_angle), t_nat(x.direction),
                *opt_color_tokens(x.real_highlight_color), *opt_color_tokens(x.real_shadow_color)]
    if nm == "SolidFillInfo":
        return ["5", t_nat(x.version), bm_token(x.blend_mode), *color_tokens(x.color), t_nat(x.opacity), t_nat(x.enabled),
                *color_tokens(x.native_color)]
    raise NotRep("not an effect info: " + nm)


def effect_excluded(x):
    nm = type(x).__name__
    if nm == "OuterGlowInfo" and (x.version >= 2) != (x.native_color is not None):
        return "trailer-does-not-match-version"
    if nm == "InnerGlowInfo" and x.version < 2 and (x.invert is not None or x.native_color is not None):
        return "trailer-does-not-match-version"
    if nm == "BevelInfo" and x.version < 2 and (x.real_highlight_color is not None or x.real_shadow_color is not None):
        return "trailer-does-not-match-version"
    return None


def gen_effect_infos(rng, quick):
    """{class name: [(origin, instance)]}"""
    E, C = _E(), _C()
    cols = gen_colors(rng)
    col = lambda: copy.deepcopy(rng.choice(cols))
    bms = list(C.BlendMode)
    u32 = lambda: rng.choice([0, 1, 2 ** 32 - 1, rng.randrange(2 ** 32)])
    u8 = lambda: rng.choice([0, 1, 255, rng.randrange(256)])
    i32 = lambda: rng.choice([0, -1, 2 ** 31 - 1, -2 ** 31, rng.randrange(-360, 360)])
    n = 3 if quick else 40
    out = collections.defaultdict(list)
    out["CommonStateInfo"] += [("boundary", E.CommonStateInfo()), ("boundary", E.CommonStateInfo(2 ** 32 - 1, 255)),
                               ("breaking", E.CommonStateInfo(2 ** 32, 0)), ("breaking", E.CommonStateInfo(0, 256))]
    for bm in (bms if not quick else bms[::5]):
        out["ShadowInfo"].append(("boundary", E.ShadowInfo(rng.choice([0, 2]), u32(), u32(), i32(), u32(), col(), bm, u8(), u8(), u8(), col())))
    out["ShadowInfo"] += [("breaking", E.ShadowInfo(angle=2 ** 31)), ("breaking", E.ShadowInfo(opacity=256))]
    for ver in (0, 1, 2, 3, 2 ** 32 - 1):
        for _ in range(n):
            bm = rng.choice(bms)
            out["OuterGlowInfo"].append(("boundary", E.OuterGlowInfo(ver, u32(), u32(), col(), bm, u8(), u8(), col() if ver >= 2 else None)))
            out["InnerGlowInfo"].append(("boundary", E.InnerGlowInfo(ver, u32(), u32(), col(), bm, u8(), u8(), u8() if ver >= 2 else None,
                                                                      col() if ver >= 2 else None)))
            out["BevelInfo"].append(("boundary", E.BevelInfo(ver, i32(), u32(), u32(), rng.choice(bms), rng.choice(bms), col(), col(), u8(), u8(),
                                                              u8(), u8(), u8(), u8(), col() if ver >= 2 else None, col() if ver >= 2 else None)))
            out["SolidFillInfo"].append(("boundary", E.SolidFillInfo(ver, rng.choice(bms), col(), u8(), u8(), col())))
    out["OuterGlowInfo"] += [("excluded", E.OuterGlowInfo(2, native_color=None)), ("excluded", E.OuterGlowInfo(0, native_color=col())),
                             ("breaking", E.OuterGlowInfo(2 ** 32))]
    out["InnerGlowInfo"] += [("excluded", E.InnerGlowInfo(0, invert=1, native_color=col())), ("excluded", E.InnerGlowInfo(1, invert=0)),
                             ("breaking", E.InnerGlowInfo(2, invert=256, native_color=col())),
                             ("breaking", E.InnerGlowInfo(2, invert=None, native_color=col()))]
    out["BevelInfo"] += [("excluded", E.BevelInfo(0, real_highlight_color=col(), real_shadow_color=col())),
                         ("breaking", E.BevelInfo(2, bevel_style=256, real_highlight_color=col(), real_shadow_color=col()))]
    out["SolidFillInfo"] += [("boundary", E.SolidFillInfo()), ("breaking", E.SolidFillInfo(opacity=256))]
    return out


class EffectInfoSpec(Spec):
    def __init__(self, name, infos):
        self.name, self._infos = name, infos
        self.offsets = (0, 3, 4, 8, 12, 16, 20, 22, 30, 34, 38, 40, 44, 46, 57, 58, 68)

    def K(self):
        return getattr(_E(), self.name)

    def tokens(self, x):
        return " ".join(effect_tokens(x)[1:])

    def write_kw(self, v, pad):
        return {}

    def read_kw(self, v, rpad):
        return {}

    def excluded(self, x, pad=None, rpad=None):
        return effect_excluded(x)

    def instances(self, rng, quick):
        return self._infos.get(self.name, [])


class EffectsLayerSpec(Spec):
    name = "EffectsLayer"
    offsets = (0, 2, 3, 4, 8, 11, 12, 15, 16, 23, 24, 28, 32)

    def __init__(self, infos):
        self._infos = infos

    def K(self):
        return _E().EffectsLayer

    def tokens(self, x):
        items = []
        for k in x:
            kv = getattr(k, "value", k)
            items.append((kv, x[k]))
        return " ".join([t_nat(x.version), *t_list(items, lambda kv: [t_bytes(kv[0]), *effect_tokens(kv[1])])])

    def excluded(self, x, pad=None, rpad=None):
        E = _E()
        for k in x:
            if E.EffectsLayer.EFFECT_TYPES.get(k) is not type(x[k]):
                return "class-does-not-match-key"
            why = effect_excluded(x[k])
            if why:
                return why
        return None

    def instances(self, rng, quick):
        E, C = _E(), _C()
        K = self.K()
        good = {nm: [x for o, x in xs if o == "boundary"] for nm, xs in self._infos.items()}
        out = [("boundary", K()), ("boundary", K(version=65535))]
        for _ in range(8 if quick else 200):
            keys = [k for k in C.EffectOSType if rng.random() < 0.6]
            rng.shuffle(keys)
            items = [(k, copy.deepcopy(rng.choice(good[K.EFFECT_TYPES[k].__name__]))) for k in keys]
            out.append(("generated", K(version=rng.choice([0, 1]), items=items)))
        out.append(("boundary", K(version=0, items=[(k, copy.deepcopy(good[K.EFFECT_TYPES[k].__name__][0])) for k in C.EffectOSType])))
        out.append(("excluded", K(items=[(C.EffectOSType.BEVEL, E.SolidFillInfo())])))
        out.append(("excluded", K(items=[(C.EffectOSType.OUTER_GLOW, E.OuterGlowInfo(0, native_color=gen_colors(rng)[0]))])))
        out.append(("breaking", K(version=65536)))
        return out


def unit3_specs(rng, quick):
    infos = gen_effect_infos(rng, quick)
    return [EffectInfoSpec(nm, infos) for nm in ("CommonStateInfo", "ShadowInfo", "OuterGlowInfo", "InnerGlowInfo", "BevelInfo",
                                                 "SolidFillInfo")] + [EffectsLayerSpec(infos)]


UNIT3_CLASSES = ["CommonStateInfo", "ShadowInfo", "OuterGlowInfo", "InnerGlowInfo", "BevelInfo", "SolidFillInfo", "EffectsLayer"]


def unit3_witnesses(ctx):
    E = _E()
    cols = gen_colors(ctx.rng)
    x = E.BevelInfo(version=3, real_highlight_color=cols[0], real_shadow_color=cols[1])
    w = py_write(x)
    r = py_read(E.BevelInfo, w[1]) if w[0] == "ok" else ("err", "write")
    if not (w[0] == "ok" and r[0] == "ok" and r[1] == x and r[2] == len(w[1])):
        # the defect repaired by 077ef93 is back: a concrete failing input
        ctx.fail("C01/payload/BevelInfo/version-above-2-loses-real-colours",
                 "BevelInfo(version=3, real colours) is re-read without its real colours (reader test `version == 2`, writer `>= 2`)",
                 {"class": "psd_tools.psd.effects_layer.BevelInfo", "kwargs": {}, "bytes": hx(w[1]) if w[0] == "ok" else "-",
                  "repr": "BevelInfo(version=3, real_highlight_color=..., real_shadow_color=...)"},
                 {"read": r[0], "cursor": r[2] if r[0] == "ok" else None}, "equal structure and the cursor at the end of the written bytes")
    for y, what in ((E.OuterGlowInfo(2, native_color=None), "IOError"), (E.OuterGlowInfo(0, native_color=cols[0]), "dropped")):
        w = py_write(y)
        r = py_read(E.OuterGlowInfo, w[1]) if w[0] == "ok" else ("err", "write")
        good = (r == ("err", "IOError")) if what == "IOError" else (r[0] == "ok" and r[1].native_color is None)
        if not good:
            ctx.disagree("witness outer_glow_*_not_roundtrip does not replay on the real code", {"case": what, "read": r[:2] if r[0] == "err" else "ok"})


# ---------------------------------------------------------------------------------------------
# unit 4: patterns.py
# ---------------------------------------------------------------------------------------------
def _P():
    import importlib
    return importlib.import_module("psd_tools.psd.patterns")


PATTERN_KNOWN = "C01/none-vs-empty/pattern-color-table-empty"


def vma_tokens(x):
    iw = x.is_written
    if isinstance(iw, bool):
        iw = int(iw)
    if x.depth is None:
        comp = getattr(x.compression, "value", x.compression)
        if x.rectangle is not None or x.pixel_depth is not None or comp != 0 or x.data != b"":
            raise NotRep("VirtualMemoryArray with depth None but other content set")
        return [t_nat(iw), "0"]
    return [t_nat(iw), "1", t_nat(x.depth), *t_list(list(x.rectangle), lambda n: [t_nat(n)]), t_nat(x.pixel_depth), t_nat(x.compression),
            t_bytes(x.data)]


def vma_excluded(x):
    return "unwritten-array-with-content" if (not x.is_written and x.depth is not None) else None


def vmal_tokens(x):
    return [t_nat(x.version), *t_list(list(x.rectangle), lambda n: [t_nat(n)]), *t_list(list(x.channels), vma_tokens)]


def vmal_excluded(x):
    if x.version != 3:
        return "version-rejected-by-assert"
    for c in x.channels:
        if vma_excluded(c):
            return vma_excluded(c)
    return None


def pattern_tokens(x):
    try:
        pid = x.pattern_id.encode("ascii")
    except (UnicodeError, AttributeError):
        raise NotRep("pattern_id is not ASCII text")
    ct = x.color_table
    return [t_nat(x.version), t_nat(x.image_mode), *t_list(list(x.point), lambda z: [t_int(z)]), *t_str(x.name), hx(pid),
            *t_opt(ct, lambda rows: t_list(list(rows), lambda r: t_list(list(r), lambda n: [t_nat(n)]))), *vmal_tokens(x.data)]


def pattern_excluded(x):
    C = _C()
    if x.version != 1:
        return "version-rejected-by-assert"
    if has_pair(x.name):
        return "adjacent-surrogate-pair (C19)"
    indexed = x.image_mode == C.ColorMode.INDEXED
    if indexed and (x.color_table is None or len(x.color_table) != 256):
        return "indexed-without-256-entry-table"
    if not indexed and x.color_table is not None:
        return "(F) empty-color-table" if len(x.color_table) == 0 else "table-without-indexed-mode"
    return vmal_excluded(x.data)


def gen_vmas(rng):
    P, C = _P(), _C()
    rect = lambda: tuple(rng.choice([0, 1, 7, 2 ** 32 - 1]) for _ in range(4))
    out = [P.VirtualMemoryArray(), P.VirtualMemoryArray(is_written=1), P.VirtualMemoryArray(is_written=2 ** 32 - 1)]
    for comp in C.Compression:
        for n in (0, 1, 5, 40):
            out.append(P.VirtualMemoryArray(rng.choice([1, True, 7]), rng.choice([1, 8, 16, 32]), rect(), rng.choice([0, 8, 65535]), comp,
                                            bytes(rng.randrange(256) for _ in range(n))))
    return out


def gen_vmals(rng, n):
    P = _P()
    vmas = gen_vmas(rng)
    out = []
    for i in range(n):
        k = rng.choice([2, 2, 3, 5, 26])
        out.append(P.VirtualMemoryArrayList(3, tuple(rng.choice([0, 3, 2 ** 32 - 1]) for _ in range(4)),
                                            [copy.deepcopy(rng.choice(vmas)) for _ in range(k)]))
    return out


def gen_patterns(rng, n):
    P, C = _P(), _C()
    vmals = gen_vmals(rng, n)
    out = []
    modes = list(C.ColorMode)
    for i in range(n):
        mode = modes[i % len(modes)]
        ct = [tuple(rng.randrange(256) for _ in range(3)) for _ in range(256)] if mode == C.ColorMode.INDEXED else None
        out.append(P.Pattern(1, mode, (rng.choice([0, -1, 32767, -32768, 64]), rng.choice([0, 1, 200])), rng.choice(STRINGS[:13]),
                             rng.choice(["", "a", "0d8c2f1e-aaaa-11aa-9ddf-bb5bc1a6e7f1", "x" * 255]), ct, copy.deepcopy(vmals[i])))
    return out


class VMASpec(Spec):
    name = "VirtualMemoryArray"
    offsets = (0, 3, 4, 7, 8, 12, 28, 30, 31)

    def K(self):
        return _P().VirtualMemoryArray

    def tokens(self, x):
        return " ".join(vma_tokens(x))

    def excluded(self, x, pad=None, rpad=None):
        return vma_excluded(x)

    def instances(self, rng, quick):
        P = _P()
        out = [("boundary", x) for x in gen_vmas(rng)]
        out += [("excluded", P.VirtualMemoryArray(0, 8, (0, 0, 1, 1), 8, 0, b"\x01")),
                ("breaking", P.VirtualMemoryArray(1, 8, (0, 0, 1), 8, 0, b"")), ("breaking", P.VirtualMemoryArray(1, 2 ** 32, (0, 0, 1, 1), 8, 0, b"")),
                ("breaking", P.VirtualMemoryArray(2 ** 32)), ("breaking", P.VirtualMemoryArray(1, 8, (0, 0, 1, 1), 65536, 0, b""))]
        return out


class VMALSpec(Spec):
    name = "VirtualMemoryArrayList"
    offsets = (0, 3, 4, 8, 24, 28, 32)

    def K(self):
        return _P().VirtualMemoryArrayList

    def tokens(self, x):
        return " ".join(vmal_tokens(x))

    def excluded(self, x, pad=None, rpad=None):
        return vmal_excluded(x)

    def instances(self, rng, quick):
        P = _P()
        out = [("generated", x) for x in gen_vmals(rng, 6 if quick else 120)]
        two = [P.VirtualMemoryArray(), P.VirtualMemoryArray()]
        out += [("boundary", P.VirtualMemoryArrayList(3, (0, 0, 0, 0), copy.deepcopy(two))),
                ("excluded", P.VirtualMemoryArrayList(2, (0, 0, 0, 0), copy.deepcopy(two))),
                ("breaking", P.VirtualMemoryArrayList(3, (0, 0, 0, 0), [P.VirtualMemoryArray()])),
                ("breaking", P.VirtualMemoryArrayList(3, (0, 0, 0, 0), [])),
                ("breaking", P.VirtualMemoryArrayList(3, (0, 0, 0), copy.deepcopy(two)))]
        return out


class PatternSpec(Spec):
    name = "Pattern"
    offsets = (0, 3, 4, 7, 8, 12, 16, 20)

    def K(self):
        return _P().Pattern

    def tokens(self, x):
        return " ".join(pattern_tokens(x))

    def excluded(self, x, pad=None, rpad=None):
        return pattern_excluded(x)

    def known(self, why):
        return PATTERN_KNOWN if why.startswith("(F)") else None

    def instances(self, rng, quick):
        P, C = _P(), _C()
        pats = gen_patterns(rng, 9 if quick else 150)
        out = [("generated", x) for x in pats]
        base = lambda: copy.deepcopy(next(q for q in pats if q.image_mode != C.ColorMode.INDEXED))
        e = base(); e.color_table = []
        out.append(("excluded", e))
        e = base(); e.version = 2
        out.append(("excluded", e))
        e = base(); e.color_table = [(1, 2, 3)]
        out.append(("excluded", e))
        e = base(); e.image_mode = C.ColorMode.INDEXED; e.color_table = None
        out.append(("excluded", e))
        e = base(); e.name = PAIR_STRINGS[0]
        out.append(("excluded", e))
        e = base(); e.point = (32768, 0)
        out.append(("breaking", e))
        e = base(); e.pattern_id = "y" * 256
        out.append(("breaking", e))
        return out


class PatternsSpec(Spec):
    name = "Patterns"
    at_end = True
    offsets = (0, 3, 4, 8, 12)

    def K(self):
        return _P().Patterns

    def tokens(self, x):
        return " ".join(t_list(list(x), pattern_tokens))

    def excluded(self, x, pad=None, rpad=None):
        for it in x:
            if pattern_excluded(it):
                return pattern_excluded(it)
        return None

    def instances(self, rng, quick):
        K = self.K()
        pats = gen_patterns(rng, 6 if quick else 60)
        out = [("boundary", K([])), ("boundary", K([copy.deepcopy(pats[0])]))]
        for i in range(3 if quick else 40):
            out.append(("generated", K([copy.deepcopy(rng.choice(pats)) for _ in range(rng.choice([1, 2, 3]))])))
        return out


def unit4_specs():
    return [VMASpec(), VMALSpec(), PatternSpec(), PatternsSpec()]


UNIT4_CLASSES = ["VirtualMemoryArray", "VirtualMemoryArrayList", "Pattern", "Patterns"]


# ---------------------------------------------------------------------------------------------
# unit 5: linked_layer.py
# ---------------------------------------------------------------------------------------------
def _L():
    import importlib
    return importlib.import_module("psd_tools.psd.linked_layer")


def desc_block_tokens(b):
    import desc_common as dc
    if dc.block_kind(b) != 1:
        raise NotRep("not a plain DescriptorBlock: %r" % type(b).__name__)
    try:
        return [dc.block_tokens(b, 1)]
    except dc.NotRep as e:
        raise NotRep(str(e))


def linked_tokens(x):
    try:
        uuid = x.uuid.encode("macroman")
    except (UnicodeError, AttributeError):
        raise NotRep("uuid is not MacRoman text (C19)")

    def ts(t):
        t = tuple(t)
        if len(t) != 6:
            raise NotRep("timestamp is not a 6-tuple")
        return [t_nat(t[0]), "4", *[t_nat(v) for v in t[1:5]], str(bits_of(t[5]))]
    return [t_bytes(x.kind), t_nat(x.version), hx(uuid), *t_str(x.filename), t_bytes(x.filetype), t_bytes(x.creator),
            *t_opt(x.filesize, lambda n: [t_nat(n)]), *t_opt(x.open_file, desc_block_tokens), *t_opt(x.linked_file, desc_block_tokens),
            *t_opt(x.timestamp, ts), *t_opt(x.data, lambda b: [t_bytes(b)]), *t_opt(x.child_id, t_str),
            *t_opt(x.mod_time, lambda v: [str(bits_of(v))]), *t_opt(x.lock_state, lambda n: [t_nat(n)])]


def linked_excluded(x):
    import desc_common as dc
    C = _C()
    T = C.LinkedLayerType
    if not (1 <= x.version <= 7):
        return "version-rejected-by-validator"
    if len(x.filetype) != 4 or len(x.creator) != 4:
        return "4s-field-not-4-bytes"
    if has_pair(x.filename) or (x.child_id is not None and has_pair(x.child_id)):
        return "adjacent-surrogate-pair (C19)"
    for b in (x.open_file, x.linked_file):
        if b is not None and dc._excluded_reason(b):
            return dc._excluded_reason(b)
    if x.kind == T.EXTERNAL:
        if x.version <= 3 and x.timestamp is not None:
            return "field-the-version-does-not-have"
        if x.version == 1 and x.data is not None:
            return "external-version-1-with-data"
    else:
        if x.linked_file is not None or x.timestamp is not None or x.filesize is not None:
            return "field-of-another-kind"
        if x.kind == T.ALIAS and x.data is not None:
            return "alias-with-data"
    if (x.child_id is not None) != (x.version >= 5) or (x.mod_time is not None) != (x.version >= 6) or \
            (x.lock_state is not None) != (x.version >= 7):
        return "field-the-version-does-not-have"
    return None


def gen_linked(rng, n):
    import desc_common as dc
    L, C, D = _L(), _C(), dc._D()
    T = C.LinkedLayerType
    g = dc.Gen(rng)

    def blk():
        body = g.descriptor(1 + rng.randrange(2))
        return D.DescriptorBlock(body._items, name=body.name, classID=body.classID)
    out = []
    for i in range(n):
        kind = [T.DATA, T.EXTERNAL, T.ALIAS][i % 3]
        ver = 1 + (i // 3) % 7
        data = bytes(rng.randrange(256) for _ in range(rng.choice([0, 1, 5, 33, 300])))
        kw = dict(kind=kind, version=ver, uuid=rng.choice(["", "5a96c404-ab9c-1177-97ef-96ca454b82b7", "u" * 255, "caf\u00e9"]),
                  filename=rng.choice(STRINGS[:13]), filetype=rng.choice([b"png ", b"\x00\x00\x00\x00", b"8BPB"]),
                  creator=rng.choice([b"8BIM", b"\x00\x00\x00\x00"]), open_file=blk() if rng.random() < 0.4 else None)
        if kind == T.EXTERNAL:
            kw.update(linked_file=blk(), filesize=rng.choice([0, 1, 2 ** 64 - 1, rng.randrange(2 ** 40)]),
                      timestamp=(rng.choice([0, 2024, 2 ** 32 - 1]), rng.randrange(256), rng.randrange(256), rng.randrange(256), rng.randrange(256),
                                 rng.choice([0.0, 59.999, float_of(rng.randrange(2 ** 64))])) if ver > 3 else None,
                      data=data if ver > 1 else None)
        elif kind == T.DATA:
            kw.update(data=data)
        if ver >= 5:
            kw["child_id"] = rng.choice(["", "c1", "\U0001F600"])
        if ver >= 6:
            kw["mod_time"] = rng.choice([0.0, 1.5, float_of(rng.randrange(2 ** 64))])
        if ver >= 7:
            kw["lock_state"] = rng.choice([0, 1, 255])
        out.append(L.LinkedLayer(**kw))
    return out


class LinkedLayerSpec(Spec):
    name = "LinkedLayer"
    offsets = (0, 3, 4, 7, 8, 9, 12, 16, 20, 24, 32, 33)

    def K(self):
        return _L().LinkedLayer

    def tokens(self, x):
        return " ".join(linked_tokens(x))

    def contexts(self):
        return [(1, 1, None), (2, 4, None)]

    def excluded(self, x, pad=None, rpad=None):
        return linked_excluded(x)

    def too_big(self, x, quick):
        return quick and len(x.data or b"") > 300000

    def instances(self, rng, quick):
        L, C = _L(), _C()
        T = C.LinkedLayerType
        items = gen_linked(rng, 21 if quick else 420)
        out = [("generated", x) for x in items]
        ext = lambda v: copy.deepcopy(next(x for x in items if x.kind == T.EXTERNAL and x.version == v))
        out.append(("boundary", L.LinkedLayer()))                        # the defaults: an alias of version 1
        e = L.LinkedLayer(kind=T.ALIAS, data=b"\x01\x02\x03")
        out.append(("excluded", e))
        e = ext(1); e.data = b"\x01\x02\x03"
        out.append(("excluded", e))
        e = ext(4); e.child_id = "x"
        out.append(("excluded", e))
        e = ext(3); e.timestamp = (2024, 1, 2, 3, 4, 5.0)
        out.append(("excluded", e))
        e = ext(7); e.lock_state = None
        out.append(("excluded", e))
        e = L.LinkedLayer(kind=T.DATA, data=b"", filesize=5)
        out.append(("excluded", e))
        e = L.LinkedLayer(kind=T.DATA, data=b"", filetype=b"ab")
        out.append(("excluded", e))
        e = ext(2); e.filesize = 2 ** 64
        out.append(("breaking", e))
        e = ext(7); e.lock_state = 256
        out.append(("breaking", e))
        e = L.LinkedLayer(kind=T.DATA, data=b"", uuid="u" * 256)
        out.append(("breaking", e))
        return out


class LinkedLayersSpec(Spec):
    name = "LinkedLayers"
    at_end = True
    offsets = (0, 7, 8, 11, 12, 16)

    def K(self):
        return _L().LinkedLayers

    def tokens(self, x):
        return " ".join(t_list(list(x), linked_tokens))

    def contexts(self):
        return [(2, 4, None)]

    def excluded(self, x, pad=None, rpad=None):
        for it in x:
            if linked_excluded(it):
                return linked_excluded(it)
        return None

    def too_big(self, x, quick):
        return quick and sum(len(it.data or b"") for it in x) > 300000

    def instances(self, rng, quick):
        K = self.K()
        items = gen_linked(rng, 21 if quick else 210)
        out = [("boundary", K([])), ("boundary", K(copy.deepcopy(items[:7])))]
        for _ in range(3 if quick else 60):
            out.append(("generated", K([copy.deepcopy(rng.choice(items)) for _ in range(rng.choice([1, 2, 4]))])))
        return out


def unit5_specs():
    return [LinkedLayerSpec(), LinkedLayersSpec()]


UNIT5_CLASSES = ["LinkedLayer", "LinkedLayers"]


# ---------------------------------------------------------------------------------------------
# unit 6: descriptor-wrapping payloads (SmartObjectLayerData, PlacedLayerData, TypeToolObjectSetting)
# ---------------------------------------------------------------------------------------------
def desc_block2_tokens(b):
    import desc_common as dc
    if dc.block_kind(b) != 2:
        raise NotRep("not a plain DescriptorBlock2: %r" % type(b).__name__)
    try:
        return [dc.block_tokens(b, 2)]
    except dc.NotRep as e:
        raise NotRep(str(e))


@contextlib.contextmanager
def no_engine_data():
    """TypeToolObjectSetting.read replaces text_data[b'EngineData'].value by a parsed EngineData object inside a
    `try ... except Exception` - the model keeps the bytes; so does the real reader when the parse fails"""
    import psd_tools.psd.tagged_blocks as TB
    saved = TB.EngineData

    class _NoParse:
        @staticmethod
        def frombytes(*a, **k):
            raise ValueError("engine data left as bytes (C18)")
    TB.EngineData = _NoParse
    try:
        yield
    finally:
        TB.EngineData = saved


def gen_desc_block(rng, kind=1):
    import desc_common as dc
    D = dc._D()
    g = dc.Gen(rng)
    body = g.descriptor(1 + rng.randrange(2))
    if kind == 1:
        return D.DescriptorBlock(body._items, name=body.name, classID=body.classID)
    return D.DescriptorBlock2(body._items, name=body.name, classID=body.classID, version=rng.choice([0, 1, 2 ** 32 - 1]))


def desc_excluded(*blocks):
    import desc_common as dc
    for b in blocks:
        why = dc._excluded_reason(b)
        if why:
            return why
    return None


class DescWrapSpec(Spec):
    offsets = (0, 1, 2, 3, 4, 7, 8, 12, 50, 52)

    def contexts(self):
        return [(1, 4, None), (2, 1, None)]


class SmartObjectSpec(DescWrapSpec):
    name = "SmartObjectLayerData"

    def K(self):
        return _TB().SmartObjectLayerData

    def tokens(self, x):
        return " ".join([t_bytes(x.kind), t_nat(x.version), *desc_block_tokens(x.data)])

    def excluded(self, x, pad=None, rpad=None):
        if x.kind != b"soLD" or x.version not in (4, 5):
            return "rejected-by-validator"
        return desc_excluded(x.data)

    def instances(self, rng, quick):
        K = self.K()
        out = [("generated", K(b"soLD", rng.choice([4, 5]), gen_desc_block(rng))) for _ in range(6 if quick else 120)]
        bad = K(b"soLD", 5, gen_desc_block(rng)); bad.version = 3
        out.append(("excluded", bad))
        bad = K(b"soLD", 5, gen_desc_block(rng)); bad.kind = b"abcd"
        out.append(("excluded", bad))
        bad = K(b"soLD", 5, gen_desc_block(rng)); bad.version = 2 ** 32
        out.append(("breaking", bad))
        return out


class PlacedLayerSpec(DescWrapSpec):
    name = "PlacedLayerData"

    def K(self):
        return _TB().PlacedLayerData

    def tokens(self, x):
        try:
            uuid = x.uuid.encode("macroman") if isinstance(x.uuid, str) else bytes(x.uuid)
        except UnicodeError:
            raise NotRep("uuid is not MacRoman text")
        return " ".join([t_bytes(x.kind), t_nat(x.version), hx(uuid), t_nat(x.page), t_nat(x.total_pages), t_nat(x.anti_alias),
                         t_nat(x.layer_type), *t_list(list(x.transform), lambda v: [str(bits_of(v))]), *desc_block2_tokens(x.warp)])

    def excluded(self, x, pad=None, rpad=None):
        if x.version != 3:
            return "rejected-by-validator"
        if len(x.kind) != 4:
            return "4s-field-not-4-bytes"
        return desc_excluded(x.warp)

    def instances(self, rng, quick):
        K, C = self.K(), _C()
        out = []
        for i in range(6 if quick else 120):
            out.append(("generated", K(rng.choice([b"plcL", b"abcd"]), 3, rng.choice(["", "5a96c404-ab9c-1177-97ef-96ca454b82b7", "u" * 255]),
                                       rng.choice([0, 1, 2 ** 32 - 1]), rng.choice([0, 1, 7]), rng.choice([0, 16]),
                                       list(C.PlacedLayerType)[i % len(C.PlacedLayerType)],
                                       tuple(float_of(rng.randrange(2 ** 64)) if rng.random() < 0.5 else rng.choice([0.0, 1.0, -0.0, 100.5])
                                             for _ in range(8)), gen_desc_block(rng, 2))))
        bad = K(b"plcL", 3, "", warp=gen_desc_block(rng, 2)); bad.version = 2
        out.append(("excluded", bad))
        out.append(("excluded", K(b"pl", 3, "", warp=gen_desc_block(rng, 2))))
        out.append(("breaking", K(b"plcL", 3, "", transform=(0.0,) * 7, warp=gen_desc_block(rng, 2))))
        out.append(("breaking", K(b"plcL", 3, "u" * 256, warp=gen_desc_block(rng, 2))))
        return out


class TypeToolSpec(DescWrapSpec):
    name = "TypeToolObjectSetting"

    def K(self):
        return _TB().TypeToolObjectSetting

    def tokens(self, x):
        return " ".join([t_nat(x.version), *t_list(list(x.transform), lambda v: [str(bits_of(v))]), t_nat(x.text_version),
                         *desc_block_tokens(x.text_data), t_nat(x.warp_version), *desc_block_tokens(x.warp), t_int(x.left), t_int(x.top),
                         t_int(x.right), t_int(x.bottom)])

    def excluded(self, x, pad=None, rpad=None):
        if x.text_version != 50 or x.warp_version != 1:
            return "rejected-by-validator"
        return desc_excluded(x.text_data, x.warp)

    def instances(self, rng, quick):
        import desc_common as dc
        K, D = self.K(), dc._D()
        i32 = lambda: rng.choice([0, -1, 2 ** 31 - 1, -2 ** 31, rng.randrange(-5000, 5000)])
        out = []
        for i in range(6 if quick else 120):
            text = gen_desc_block(rng)
            if i % 2 == 0:                          # with an EngineData raw value (kept as bytes)
                text[b"EngineData"] = D.RawData(bytes(rng.randrange(256) for _ in range(rng.choice([0, 3, 40]))))
            out.append(("generated", K(rng.choice([0, 1, 65535]), tuple(rng.choice([0.0, 1.0, 300.25, float_of(rng.randrange(2 ** 64))]) for _ in range(6)),
                                       50, text, 1, gen_desc_block(rng), i32(), i32(), i32(), i32())))
        bad = copy.deepcopy(out[0][1]); bad.text_version = 1
        out.append(("excluded", bad))
        bad = copy.deepcopy(out[0][1]); bad.warp_version = 2
        out.append(("excluded", bad))
        bad = copy.deepcopy(out[0][1]); bad.left = 2 ** 31
        out.append(("breaking", bad))
        bad = copy.deepcopy(out[0][1]); bad.transform = (0.0,) * 5
        out.append(("breaking", bad))
        return out


def unit6_specs():
    return [SmartObjectSpec(), PlacedLayerSpec(), TypeToolSpec()]


UNIT6_CLASSES = ["SmartObjectLayerData", "PlacedLayerData", "TypeToolObjectSetting"]


def harvest_by_class(files):
    """every element instance of the parsed fixtures, by exact class: {class: [instances]}"""
    import codec_common as cc
    import payload_oracle as po
    sink: dict = {}
    for f in files:
        r = cc.read_doc(f.read_bytes())
        if r[0] == "ok":
            po.walk(r[1], sink)
    return sink


def distinct_instances(xs, key, limit, rng):
    seen, out = set(), []
    for x in xs:
        try:
            k = key(x)
        except Exception:  # noqa
            continue
        if k in seen:
            continue
        seen.add(k)
        out.append(x)
    if limit is not None and len(out) > limit:
        out = rng.sample(out, limit)
    return out


def run_units(ctx, specs, sink, seen_cls, fail_cls, excluded_log, label):
    ncases = nmut = 0
    for spec in specs:
        K = spec.K()
        xs = [x for x in sink.get(K, []) if type(x) is K and not spec.too_big(x, ctx.quick)]
        harvested = distinct_instances(xs, spec.tokens, 40 if ctx.quick else None, ctx.rng)
        ctx.hist("payload_harvest_distinct", spec.name, len(harvested))
        a, b = run_spec(ctx, spec, [copy.deepcopy(x) for x in harvested], seen_cls, fail_cls, excluded_log)
        ncases += a
        nmut += b
    ctx.extra[f"payload_{label}_cases"] = {"writer/reader cases": ncases, "mutations": nmut}


def unit2_witnesses(ctx):
    """the excluded points of Props/C01Payload.lean replayed on the real code"""
    TB, C = _TB(), _C()
    K = TB.SectionDividerSetting
    for x in (K(C.SectionDivider.OPEN_FOLDER, sub_type=5), K(C.SectionDivider.OPEN_FOLDER, signature=b"8BIM")):
        w = py_write(x)
        r = py_read(K, w[1]) if w[0] == "ok" else ("err", "write")
        if not (w[0] == "ok" and w[1] == b"\x00\x00\x00\x01" and r[0] == "ok" and r[1].signature is None and r[1].sub_type is None):
            ctx.disagree("witness section_divider_*_alone_not_roundtrip does not replay on the real code", {"write": w[:2], "read": r[:1]})
    w = py_write(TB.Bytes(b"\x01\x02\x03\x04\x05"))
    r = py_read(TB.Bytes, w[1]) if w[0] == "ok" else ("err", "write")
    if not (w[0] == "ok" and w[1] == b"\x01\x02\x03\x04\x05" and r[0] == "ok" and r[1].value == b"\x01\x02\x03\x04"):
        ctx.disagree("witness bytes_longer_than_four_not_roundtrip does not replay on the real code", {"write": w[:2], "read": r[:1]})
    w = py_write(TB.MetadataSetting(b"8BIM", b"cust", False, b"\x01\x02\x03"))
    r = py_read(TB.MetadataSetting, w[1]) if w[0] == "ok" else ("err", "write")
    if not (w[0] == "ok" and r == ("err", "IOError")):
        ctx.disagree("witness metadata_raw_under_descriptor_key_not_roundtrip does not replay on the real code", {"write": w[:1], "read": r[:2]})


# ---------------------------------------------------------------------------------------------
# the check
# ---------------------------------------------------------------------------------------------
MODEL_CLASSES = list(UNIT1_CLASSES) + UNIT2_CLASSES + UNIT3_CLASSES + UNIT4_CLASSES + UNIT5_CLASSES + UNIT6_CLASSES


def run(ctx):
    """A change of the source is never an infrastructure error: when the harness can no longer drive the classes as
    modelled, the correspondence is broken, which is what gets recorded."""
    try:
        _run(ctx)
    except core.Infra:
        raise
    except Exception as e:  # noqa
        import traceback
        tb = traceback.extract_tb(e.__traceback__)
        ctx.disagree("payload check aborted: the harness could not drive the payload classes as modelled (%s: %s)"
                     % (type(e).__name__, str(e)[:200]),
                     {"traceback_tail": [f"{fr.filename.rsplit('/', 1)[-1]}:{fr.lineno} {fr.name}" for fr in tb[-5:]]})
        ctx.notes.append("payload-class correspondence did not complete (see the disagreement)")


def _run(ctx):
    import codec_common as cc
    import gen_c01
    t0 = time.time()
    seen_cls, fail_cls = collections.Counter(), collections.Counter()
    g = gen_c01.Gen(ctx.rng, None)
    unit1(ctx, g, seen_cls, fail_cls)
    excluded_log = collections.Counter()
    sink = harvest_by_class(cc.fixtures())
    run_units(ctx, unit2_specs(), sink, seen_cls, fail_cls, excluded_log, "unit2")
    unit2_witnesses(ctx)
    run_units(ctx, unit3_specs(ctx.rng, ctx.quick), sink, seen_cls, fail_cls, excluded_log, "unit3")
    unit3_witnesses(ctx)
    run_units(ctx, unit4_specs(), sink, seen_cls, fail_cls, excluded_log, "unit4")
    run_units(ctx, unit5_specs(), sink, seen_cls, fail_cls, excluded_log, "unit5")
    with no_engine_data():
        sink6 = harvest_by_class(cc.fixtures()) if _TB().TypeToolObjectSetting in sink else sink
        run_units(ctx, unit6_specs(), sink6, seen_cls, fail_cls, excluded_log, "unit6")
    seen_cls["MetadataSetting"] += seen_cls.get("MetadataSettings", 0)
    seen_cls["Annotation"] += seen_cls.get("Annotations", 0)
    ctx.extra["payload_points_excluded_by_WF (information; format-excluded, see notes)"] = dict(excluded_log)

    # ------------------------------------------------------------------ bookkeeping
    cov = ctx.model_coverage if isinstance(ctx.model_coverage, dict) else {}
    opaque = cov.get("opaque: searched, not proved")
    if isinstance(opaque, dict):
        for nm in MODEL_CLASSES:
            opaque.pop(nm, None)
    none_seen = cov.get("opaque_classes_with_no_fixture_or_variant_instance")
    if isinstance(none_seen, list):
        cov["opaque_classes_with_no_fixture_or_variant_instance"] = [n for n in none_seen if n not in MODEL_CLASSES]
    cov["modelled_and_proved (payload classes: Props/C01Payload.lean)"] = {
        nm: {"cases": seen_cls.get(nm, 0), "failures": fail_cls.get(nm, 0)} for nm in MODEL_CLASSES}
    cov["payload_classes_with_no_case"] = sorted(nm for nm in MODEL_CLASSES if seen_cls.get(nm, 0) == 0)
    ctx.model_coverage = cov
    ctx.trusted_base += [
        "Model/Payload*.lean: hand transliteration of the payload classes listed under model_coverage; tied by this run's "
        "correspondence check (write vs enc byte for byte incl. the returned count and the object state after the call, read vs "
        "dec token for token incl. the cursor, exception classes on truncated / mutated bytes) and by the regenerated tables "
        "(registry keys, method bodies, calls of the utils primitives with their arguments)",
        "harness/payload_common.py: conversion of the real payload objects to the model's token form (skel.py for the skeleton parts)",
    ]
    ctx.notes += [
        "LayerInfoBlock (Lr16/Lr32; psd/layer_and_mask.py) is modelled and proved (Props/C01Payload.lean): "
        "layer_info_block_roundtrip(_fresh), layer_info_block_rewrite_identical, layer_info_block_written_is_length, "
        "layer_info_block_enc_rejects, tagged_block_layer_info_payload_roundtrip (composition with the skeleton's tagged block), "
        "typed_tagged_block_roundtrip / _rewrite_identical / _written_is_length, typed_block_is_skeleton_block, "
        "typed_tagged_blocks_roundtrip_nested, psd_roundtrip_deep(_fresh), psd_rewrite_identical_deep, deep_refines_skeleton, "
        "psd_enc_rejects_deep; the (F) clause (None in place of a list when layer_count is 0) has the witness "
        "layer_info_block_none_not_roundtrip, replayed on the real code by this run (known finding " + LI_KNOWN + ").",
        "Deep documents: document-level tagged blocks are typed (raw bytes | LayerInfoBlock); tagged blocks of layer records - of "
        "the main layer info and of the nested one - stay skeleton blocks (payload = the bytes the payload object writes). A "
        "record-level block under the keys Lr16/Lr32 would be decoded by TaggedBlock.read as well; the format puts those keys at "
        "document level only (record-level occurrences in the fixtures: see histogram payload_unit1_harvest).",
    ]
    ctx.notes += [
        "Unit 2 (fixed-layout payloads of psd/base.py, psd/tagged_blocks.py, psd/color.py) is modelled and proved: EmptyElement, "
        "NumericElement, IntegerElement (= ProtectedSetting), ShortIntegerElement, ByteElement, BooleanElement, StringElement, Color, "
        "Bytes, SheetColorSetting, ReferencePoint, SectionDividerSetting, UserMask, FilterMask, ChannelBlendingRestrictionsSetting, "
        "PixelSourceData2, MetadataSettings / MetadataSetting (data = descriptor block of Props/C01Descriptor.lean | integer | bytes), "
        "Annotations / Annotation: for each <class>_roundtrip (anywhere in a stream) or <class>_roundtrip_at_end (readers that look "
        "at what follows: Bytes, SectionDividerSetting, ChannelBlendingRestrictionsSetting, PixelSourceData2), "
        "<class>_rewrite_identical, <class>_written_is_length, tagged_block_<class> (composition with the skeleton's tagged block), "
        "unit2_consumes_all / unit2_filler (what the reader leaves unread is the writer's write_padding), ties unit2_enums_tied, "
        "unit2_registry_tied, unit2_calls_tied (every utils call of read/write with its format and arguments, from the AST).",
        "Unit 2 WF clauses beyond validators/widths, each with a Lean witness replayed on the real code by this run (format-excluded "
        "points, not findings): SectionDividerSetting - signature and blend mode travel together and the sub type follows them "
        "(the writer stores the kind only otherwise; the API setter was repaired for this in 8a503b5), Bytes - at most four bytes "
        "(fp.read(4)), MetadataSetting - the key decides the type of data, StringElement - no adjacent surrogate pair (C19).",
    ]
    ctx.notes += [
        "Unit 3 (psd/effects_layer.py) is modelled and proved: CommonStateInfo, ShadowInfo, OuterGlowInfo, InnerGlowInfo, BevelInfo, "
        "SolidFillInfo, EffectsLayer (<class>_roundtrip anywhere in a stream, _rewrite_identical, _written_is_length, "
        "tagged_block_effects_layer, effects_layer_filler; ties effect_types_tied, effect_conditions_tied - the `if` tests that decide "
        "the version-dependent trailers, from the AST -, unit3_calls_tied). WF: blend modes are BlendMode members (validators), the "
        "trailer matches the version (format; witnesses outer_glow_v2_without_native_not_roundtrip, "
        "outer_glow_v0_with_native_not_roundtrip, trailer_below_version2_not_stored, replayed on the real code).",
        "Finding of unit 3, repaired (repo commit 077ef93): the proof of bevel_info_roundtrip forced `version <= 2` - BevelInfo.read "
        "took the real colours only for version == 2, BevelInfo.write stores them for version >= 2. Failing input "
        "BevelInfo(version=3, real colours): re-read without them, and the re-read object could not be written (AttributeError). "
        "The reader now uses the writer's test; bevel_info_roundtrip holds for every version; "
        "bevel_version3_lost_real_colours_before_fix keeps the old reader's behaviour as a witness.",
        "Outside the effect models: a colour the writer needs but that is None (self.native_color.write on None raises "
        "AttributeError, not struct.error) - such values are not generated.",
    ]
    ctx.notes += [
        "Unit 4 (psd/patterns.py) is modelled and proved: VirtualMemoryArray (not written / written without content / geometry + "
        "opaque pixel bytes read with fp.read(length - 23)), VirtualMemoryArrayList (num_channels + 2 arrays in a length block), "
        "Pattern (unicode name, ASCII pascal id, the 256-entry colour table of INDEXED patterns), Patterns (one padding-4 length block "
        "per pattern, while is_readable(fp, 4): at the end of a stream): virtual_memory_array(_list)_roundtrip, pattern_roundtrip, "
        "patterns_roundtrip_at_end, the _rewrite_identical and _written_is_length theorems, tagged_block_patterns; ties unit4_tied "
        "(ColorMode.INDEXED, the `if` tests of Pattern / VirtualMemoryArray read and write, registry) and unit4_calls_tied. WF: "
        "version asserts, enum converters, an unwritten array has no content, the colour table matches the mode; one (F) clause - "
        "the empty table of a non-indexed pattern is re-read as None (known finding " + PATTERN_KNOWN + ", witness "
        "pattern_empty_color_table_not_roundtrip). Pixel compression of the channel bytes is C04's.",
    ]
    ctx.notes += [
        "Unit 5 (psd/linked_layer.py) is modelled and proved: LinkedLayer - every kind (DATA / EXTERNAL / ALIAS) x version (1..7), the "
        "open-file and linked-file descriptor blocks (Props/C01Descriptor.lean), the time stamp (version > 3), the position of the "
        "data (after the file size from version 3 on, last in version 2, none in version 1 of an external item), child id / "
        "modification time / lock state (version >= 5 / 6 / 7) - and LinkedLayers (one Q length block with padding 4 per item, while "
        "is_readable(fp, 8): at the end of a stream): linked_layer_roundtrip, linked_layers_roundtrip_at_end, the _rewrite_identical "
        "and _written_is_length theorems, tagged_block_linked_layers; ties unit5_tied (LinkedLayerType, the range_ validator of "
        "version, registry), linked_conditions_tied (every `if` test of read / write, from the AST), unit5_calls_tied. WF (iii): a "
        "field is present exactly when the kind / version has it (witnesses linked_data_not_stored, "
        "linked_child_id_below_version5_not_read, replayed as excluded instances). Outside the model: a field the writer "
        "dereferences while it is None (AttributeError / TypeError instead of struct.error) - not generated.",
    ]
    ctx.notes += [
        "Unit 6 (descriptor-wrapping payloads of psd/tagged_blocks.py) is modelled and proved: SmartObjectLayerData (SoLd / SoLE), "
        "PlacedLayerData (PlLd / plLd; DescriptorBlock2 warp), TypeToolObjectSetting (TySh; text and warp DescriptorBlocks): "
        "<class>_roundtrip anywhere in a stream (the reader stops before the final write_padding), _rewrite_identical, "
        "_written_is_length, tagged_block_<class> with the inner padding; ties unit6_tied (validator options, PlacedLayerType, "
        "registry), unit6_calls_tied. TypeToolObjectSetting.read's in-place parse of text_data[b'EngineData'] (try / except) is "
        "not modelled: the value stays the bytes (what the parsed object writes is C18's); the harness drives the real reader with "
        "that parse disabled (harness/payload_common.no_engine_data), which is the reader's own fallback path.",
    ]
    # the skeleton's notes written before the payload classes were brought in
    ctx.notes[:] = [n.replace("Stated in DESIGN, not proved here: codec laws of the payload classes (descriptors, effects, patterns, linked "
                              "layers, vector data, adjustments, image-resource payloads), LayerInfoBlock (Lr16/Lr32) as a structured payload.",
                              "Stated in DESIGN, not proved here: codec laws of the remaining payload classes (vector data, adjustments, "
                              "filter effects, engine data, image-resource payloads); see model_coverage.") for n in ctx.notes]
    ctx.assumptions[:] = [a.replace("payload classes (tagged-block data, image-resource data, effects, patterns, ...) are opaque bytes in "
                                    "the model", "the payload classes listed under model_coverage as opaque (vector data, adjustments, "
                                    "filter effects, engine data, image-resource payloads, ...) are opaque bytes in the model") for a in ctx.assumptions]
    ctx.assumptions += [
        "payload classes: doubles are compared as 64-bit patterns; pascal strings (Annotation) are their MacRoman bytes (C19)",
        "payload classes: CPython's OverflowError for fp.read(n) / fp.seek(n) with n >= 2**63 is in the model (Codec.overflows: "
        "readLenBlock, readPy, the payload models' readSized) and compared like every other exception class",
    ]
    ctx.extra["payload_phase_seconds"] = round(time.time() - t0, 1)
    ctx.rule += (
        " Payload classes in the model: every LayerInfoBlock of the fixtures (x padding 1/4; quick: those below 30 kB of channel "
        "data) and seeded generated ones (0..5 records, every mask variant, stale channel lengths, negative counts, a record "
        "without channels, the None-vs-empty points, count/shape mismatches, widths exceeded) as block payload, as typed tagged "
        "block (Lr16/Lr32 x 8BIM/8B64 x padding 1/2/4 x version 1/2) and inside whole documents (fixtures with Lr16/Lr32 "
        "re-written with layer-info padding 1/2/4; generated documents with the nested block inserted at a random position); "
        "truncations / 4-byte overwrites / byte flips / deletions of the encodings as reader cases. Units 2-5: for every modelled "
        "class, every distinct instance of the parsed fixtures (quick: a seeded sample of 40 per class) and hand-listed boundary "
        "instances (every optional branch, 0 / max of each width, every enum member, values that do not fit) x the keyword contexts "
        "the containers pass (version 1/2, padding 1/2/4): one writer case (bytes, returned count, object unchanged, WF) and one "
        "reader case (structure and cursor, random bytes before - and after, unless the reader looks at what follows) plus the "
        "Python-only oracle; 5-10 truncations / overwrites / flips / deletions of up to 300 encodings per class as reader cases.")
    if ctx.tier == "thorough":
        prev = ctx.extra.get("leanchecker")
        ctx.recheck(["PsdVerif.Props.C01Payload"])
        mine = ctx.extra.get("leanchecker")
        if isinstance(prev, dict) and isinstance(mine, dict):
            ctx.extra["leanchecker"] = {"modules": prev.get("modules", []) + mine.get("modules", []),
                                        "ok": bool(prev.get("ok")) and bool(mine.get("ok")),
                                        "tail": (prev.get("tail", "") + mine.get("tail", ""))[-400:]}
